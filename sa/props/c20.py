"""C20 -- demand, resilience and pump-cost metrics equal their documented formulas."""
import ast
import re

import sympy as sp

from ..src import walk, calls, call_name, dotted, const, loc, unparse, norm, AnchorError, ExtractError, last_attr
from ..symx import SymExec, Opaque, State, is_zero
from ..cfg import CFG

HYDM = "wntr/metrics/hydraulic.py"
ECON = "wntr/metrics/economic.py"
MISC = "wntr/metrics/misc.py"

EXPLANATION = (
    "Formula extraction (AST -> sympy, pandas selections kept as uninterpreted leaves, reference formulas written in the same syntax and "
    "passed through the same extractor) of expected_demand, average_expected_demand, _lcm, water_service_availability, todini_index, "
    "modified_resilience_index, tank_capacity, population, pump_power/energy/cost and the maximum-pump-power formula; CFG rule 'a loop whose "
    "body always leaves on the first iteration' over all of wntr/metrics (Euclid's gcd must iterate); every demand_timeseries_list.at call in "
    "the package uses the simulator's clock convention (time + pattern_start) and the demand multiplier; every arithmetic use of the percentage "
    "option global_efficiency divides it by 100; the default lookup tables equal the RST tables of the same docstrings and the nearest entry is "
    "selected by argmin |index - value|. Decides the scalar formulas and conventions, not the pandas plumbing.")
RULE_TEXT = "one instance = one formula, one loop, one call site, one table"
ASSUMPTIONS = ["pandas arithmetic is elementwise and aligns on labels; .sum(axis=1) sums over columns"]


def pandas_hook(name, node, args, kwargs, st, ex, recv):
    meth = node.func.attr if isinstance(node.func, ast.Attribute) else None
    if meth == "sum" and recv is not None and not args:
        try:
            return sp.Function("SUM_axis%s" % kwargs.get("axis", ""))(ex.S(recv))
        except ExtractError:
            return NotImplemented
    if meth == "abs" and recv is not None and not args:
        return sp.Abs(ex.S(recv))
    if meth == "div" and recv is not None and len(args) == 1:
        return ex.S(recv) / ex.S(args[0])
    if meth == "mean" and recv is not None and not args:
        try:
            return sp.Function("MEAN_axis%s" % kwargs.get("axis", ""))(ex.S(recv))
        except ExtractError:
            return NotImplemented
    if meth == "replace" and recv is not None and len(node.args) == 2:
        a0, a1 = unparse(node.args[0]).replace(" ", ""), unparse(node.args[1])
        if a0 in ("[np.inf,-np.inf]", "[-np.inf,np.inf]", "(np.inf,-np.inf)") and a1 in ("np.nan", "float('nan')", "numpy.nan"):
            try:
                return sp.Function("INF_TO_NAN")(ex.S(recv))
            except ExtractError:
                return NotImplemented
    if meth == "round" and recv is not None and not args:
        return sp.Function("ROUND")(ex.S(recv))
    if name in ("np.exp", "np.log"):
        return getattr(sp, name[3:])(ex.S(args[0]))
    return NotImplemented


def ref(ex, code, env):
    """evaluate a reference expression written in Python syntax with the same extractor."""
    st = State(dict(env))
    return ex.S(ex.ev(ast.parse(code, mode="eval").body, st))


def rst_table(doc, header_word):
    """rows of numbers of the RST simple table whose header contains header_word."""
    lines = doc.splitlines()
    for i, l in enumerate(lines):
        if header_word in l and i > 0 and set(lines[i - 1].strip()) <= set("= ") and lines[i - 1].strip():
            rows = []
            j = i + 2
            while j < len(lines) and not (set(lines[j].strip()) <= set("= ") and lines[j].strip()):
                nums = re.findall(r"-?\d+(?:\.\d+)?", lines[j])
                if nums:
                    rows.append([float(x) for x in nums])
                j += 1
            return rows
    return None


def list_assign(fn, name, after_test):
    """value of `name = [..]` inside `if <after_test> is None:`."""
    for n in walk(fn):
        if isinstance(n, ast.If) and unparse(n.test) == "%s is None" % after_test:
            out = {}
            for s in n.body:
                if isinstance(s, ast.Assign) and isinstance(s.targets[0], ast.Name):
                    out.setdefault(s.targets[0].id, []).append(s.value)
            return out
    return None


def run(repo, chk):
    # ---------------------------------------------------------------- R-C20-1 loops that never iterate
    nloops = 0
    for rel in repo.modules("wntr/metrics"):
        for fn in [n for n in ast.walk(repo.tree(rel)) if isinstance(n, ast.FunctionDef)]:
            loops = [n for n in walk(fn) if isinstance(n, (ast.While, ast.For))]
            if not loops:
                continue
            fn._rel, fn._qual = rel, fn.name
            try:
                g = CFG(fn)
            except ExtractError:
                continue
            for lp, head in g.loop_heads.items():
                nloops += 1
                back = [a for a, b, d in g.g.in_edges(head, data=True) if d.get("back")]
                body_reachable = g.succ_on(head, True)
                chk.expect(bool(back) or not body_reachable, "R-C20-1", "%s:%s loop `%s` can reach its head again (it iterates)" % (rel.split("/")[-1], fn.name, g.g.nodes[head]["label"][:50]), loc(rel, lp),
                           "a loop whose body always returns/breaks on the first iteration computes only the first step (Euclid's algorithm must iterate until the remainder is 0)",
                           expected="at least one path from the loop body back to the loop head", found="every path through the body leaves the loop")
    chk.floor("R-C20-1", 10, count=nloops)
    ex = SymExec()
    lcm = repo.func(HYDM, "_lcm")
    o = ex.run(lcm)
    chk.expect(len(o) == 1 and is_zero(ex.S(o[0].ret) - ex.sym("x") * ex.sym("y") / ex.sym("_gcd(x, y)")), "R-C20-1", "_lcm(x, y) = x*y / gcd(x, y)", loc(lcm), found=str(o[0].ret) if o else None)
    gcd = repo.func(HYDM, "_gcd")
    chk.fn(gcd, lcm)
    upd = [s for s in walk(gcd) if isinstance(s, ast.Assign) and isinstance(s.targets[0], ast.Tuple) and unparse(s.value).replace(" ", "") in ("y,x%y", "(y,x%y)")]
    chk.expect(bool(upd), "R-C20-1", "_gcd performs the Euclidean step x, y = y, x mod y", loc(gcd))
    rets = [s for s in gcd.body if isinstance(s, ast.Return)]
    chk.expect(len(rets) == 1 and unparse(rets[0].value) == "x", "R-C20-1", "_gcd returns x after the loop has finished", loc(gcd), "the return statement must follow the loop, not sit inside it",
               found=[unparse(s) for s in walk(gcd) if isinstance(s, ast.Return)])

    # ---------------------------------------------------------------- R-C20-2 one clock for demands
    ed = repo.func(HYDM, "expected_demand")
    chk.fn(ed)
    ex = SymExec()
    seen = 0
    for o in ex.run(ed):
        for e in o.events:
            if e[0] == "call" and ".demand_timeseries_list.at(" in e[1]:
                seen += 1
                nm, args, kwargs = e[2]
                t = args[0] if args else kwargs.get("time")
                tv = sp.expand(ex.S(t))
                ps = ex.sym("wn.options.time.pattern_start")
                chk.expect(tv.coeff(ps) == 1 and tv.coeff(ex.sym("ts")) == 1 and is_zero(tv - ps - ex.sym("ts")), "R-C20-2", "expected_demand evaluates demands at time + pattern_start (the simulator's clock)", loc(ed),
                           "WNTRSimulator requests demand_timeseries_list.at(sim_time + pattern_start); the metric must use the same clock to match the delivered demand",
                           expected="ts + wn.options.time.pattern_start", found=str(tv))
                mult = kwargs.get("multiplier")
                chk.expect(isinstance(mult, Opaque) and mult.text == "wn.options.hydraulic.demand_multiplier", "R-C20-2", "expected_demand applies the global demand multiplier", loc(ed), found=mult)
                chk.expect(kwargs.get("category") == Opaque("category"), "R-C20-2", "expected_demand forwards the category filter", loc(ed), found=kwargs.get("category"))
                break
        if seen:
            break
    chk.expect(seen == 1, "R-C20-2", "expected_demand calls demand_timeseries_list.at", loc(ed))
    src = unparse(ed)
    chk.expect("np.arange(start_time, end_time + timestep, timestep)" in src, "R-C20-2", "expected_demand covers start_time..end_time inclusive in steps of timestep", loc(ed))
    defaults = {}
    for n in walk(ed):
        if isinstance(n, ast.If) and re.fullmatch(r"(\w+) is None", unparse(n.test)):
            defaults[unparse(n.test).split()[0]] = unparse(n.body[0].value) if isinstance(n.body[0], ast.Assign) else None
    chk.expect(defaults == {"start_time": "0", "end_time": "wn.options.time.duration", "timestep": "wn.options.time.report_timestep"}, "R-C20-2", "expected_demand defaults: 0 .. duration every report_timestep", loc(ed), found=defaults)
    # other call sites in the package outside wntr/sim (wntr/sim is C01's rule)
    extra = 0
    for rel in repo.modules("wntr"):
        if rel.startswith("wntr/sim/") or rel == HYDM:
            continue
        for c in calls(repo.tree(rel), attr="at"):
            if isinstance(c.func.value, ast.Attribute) and c.func.value.attr == "demand_timeseries_list":
                extra += 1
                chk.expect("pattern_start" in unparse(c.args[0]) if c.args else False, "R-C20-2", "%s evaluates demands at time + pattern_start" % rel, loc(rel, c), found=unparse(c)[:100])
    aed = repo.func(HYDM, "average_expected_demand")
    chk.fn(aed)
    ex = SymExec()
    o = [x for x in ex.run(aed) if not x.raised]
    okavg = False
    if o:
        cs_ = [e for e in o[0].events if e[0] == "call" and e[1].startswith("expected_demand(")]
        if cs_:
            a = cs_[0][2][1]
            try:
                start, end, step = ex.S(a[1]), ex.S(a[2]), ex.S(a[3])
                span = sp.simplify(end - start + step)
                lcmv = [s for s in span.free_symbols]
                span = span.replace(sp.Function("int"), lambda x: x)
                okavg = is_zero(step - ex.sym("wn.options.time.pattern_timestep")) and len(lcmv) == 1 and "_lcml" in lcmv[0].name and span == lcmv[0]
            except ExtractError:
                okavg = False
            chk.expect(okavg, "R-C20-2", "average_expected_demand averages over exactly one common period (lcm of all pattern lengths and 24 h) in steps of pattern_timestep", loc(aed), found=[str(x) for x in a[1:4]])
            chk.expect(cs_[0][2][2].get("category") == Opaque("category"), "R-C20-2", "average_expected_demand forwards the category", loc(aed))
    Ls = [s for s in walk(aed) if isinstance(s, ast.Call) and last_attr(s) == "append" and "len(pattern.multipliers) * wn.options.time.pattern_timestep" in unparse(s)]
    chk.expect(bool(Ls) and "wn.patterns()" in unparse(aed) and "[24 * 3600]" in unparse(aed), "R-C20-2", "the common period is built from every pattern's length (n * pattern_timestep) and 24 h", loc(aed))
    chk.expect(".mean(axis=0)" in unparse(aed), "R-C20-2", "average_expected_demand is the mean over time", loc(aed))

    # ---------------------------------------------------------------- R-C20-3 efficiency convention
    nuse = 0
    for rel in repo.modules("wntr/metrics"):
        t = repo.tree(rel)
        for n in ast.walk(t):
            if isinstance(n, ast.Attribute) and n.attr == "global_efficiency" and isinstance(n.ctx, ast.Load):
                p = getattr(n, "_parent", None)
                if not isinstance(p, ast.BinOp):
                    continue
                nuse += 1
                okp = (isinstance(p.op, ast.Div) and p.left is n and const(p.right) in (100, 100.0)) or (isinstance(p.op, ast.Mult) and const(p.right if p.left is n else p.left) == 0.01)
                fn = p
                while fn is not None and not isinstance(fn, ast.FunctionDef):
                    fn = getattr(fn, "_parent", None)
                chk.expect(okp, "R-C20-3", "%s: global_efficiency (a percentage) is divided by 100 before use [%s]" % (fn.name if fn else rel, norm(p)[:70]), loc(rel, n),
                           "options.energy.global_efficiency = 75 means 75 %; using the raw value makes the power 100 times too small", expected="global_efficiency / 100", found=norm(p))
    chk.floor("R-C20-3", 3, count=nuse)

    # ---------------------------------------------------------------- R-C20-4 formulas
    pp = repo.func(ECON, "pump_power")
    chk.fn(pp)
    ex = SymExec(call_hook=pandas_hook)
    outs = [o for o in ex.run(pp) if not o.raised]
    okp = False
    for o in outs:
        if o.ret is None:
            continue
        r = ex.S(o.ret)
        want = 9810 * ex.sym("pd.DataFrame(data=None, index=flowrate.index, columns=wn.pump_name_list)") * ex.sym("flowrate")
        effs = [s for s in r.free_symbols if s.name.startswith("pd.DataFrame(data=") and "efficiency" in s.name or s.name.startswith("pd.DataFrame(data={")]
        hl = [s for s in r.free_symbols if s.name.startswith("pd.DataFrame(data=None")]
        if len(hl) == 1 and len(r.free_symbols) == 3:
            eff = [s for s in r.free_symbols if s is not hl[0] and s.name != "flowrate"]
            okp = len(eff) == 1 and is_zero(r - 9810 * hl[0] * ex.sym("flowrate") / eff[0])
        st = [e for e in o.events if e[0] == "store" and e[1].startswith("pd.DataFrame(data=None") and "pump_name" in e[1]]
        if st:
            v = ex.S(st[0][2])
            okh = is_zero(v - (ex.sym("head.loc[(:, pump.end_node_name)]") - ex.sym("head.loc[(:, pump.start_node_name)]")))
            chk.expect(okh, "R-C20-4", "pump_power: head gain = head at the pump's end node - head at its start node", loc(pp), found=str(v))
    chk.expect(okp, "R-C20-4", "pump_power = 1000 * 9.81 * head gain * flow / efficiency", loc(pp), found=str(outs[0].ret)[:200] if outs else None)
    pe = repo.func(ECON, "pump_energy")
    ex = SymExec()
    o = ex.run(pe)[0]
    chk.expect(is_zero(ex.S(o.ret) - ex.sym("pump_power(flowrate, head, wn)") * ex.sym("wn.options.time.report_timestep")), "R-C20-4", "pump_energy = pump_power * report_timestep (the spacing of the result rows)", loc(pe), found=str(o.ret))
    pc = repo.func(ECON, "pump_cost")
    ex = SymExec()
    oks = [o for o in ex.run(pc) if not o.raised and o.ret is not None]
    chk.expect(bool(oks) and all(len(ex.S(o.ret).free_symbols) == 2 and ex.sym("energy") in ex.S(o.ret).free_symbols and is_zero(sp.diff(ex.S(o.ret), ex.sym("energy"), 2)) and ex.S(o.ret).subs(ex.sym("energy"), 0) == 0 for o in oks), "R-C20-4",
               "pump_cost = energy * price", loc(pc), found=str(oks[0].ret) if oks else None)
    prices = set()
    for n in walk(pc):
        if isinstance(n, ast.Assign) and "price_dict[pump_name]" in unparse(n.targets[0]) and isinstance(n.value, ast.ListComp):
            prices.add(unparse(n.value.elt))
    chk.expect(prices == {"wn.options.energy.global_price", "pump.energy_price"}, "R-C20-4", "pump_cost uses the pump's own price if set, else the global price", loc(pc), found=sorted(prices))
    pop = repo.func(MISC, "population")
    ex = SymExec(call_hook=pandas_hook)
    o = ex.run(pop)[0]
    want = sp.Function("ROUND")(ex.sym("average_expected_demand(wn)") / ex.sym("R"))
    chk.expect(is_zero(ex.S(o.ret) - want), "R-C20-4", "population = round(average expected demand / R)", loc(pop), found=str(o.ret))
    wsa = repo.func(HYDM, "water_service_availability")
    ex = SymExec(call_hook=pandas_hook)
    o = ex.run(wsa)[0]
    quot = ex.sym("demand") / ex.sym("expected_demand")
    got_ = ex.S(o.ret)
    chk.expect(is_zero(got_ - quot) or is_zero(got_ - sp.Function("INF_TO_NAN")(quot)), "R-C20-4", "water_service_availability = demand / expected demand", loc(wsa), found=str(o.ret))
    chk.expect(is_zero(got_ - sp.Function("INF_TO_NAN")(quot)) or ".where(" in unparse(wsa), "R-C20-4", "water_service_availability is NaN (not +-inf) where the expected demand is 0, as documented",
               loc(wsa), "demand.div(expected_demand) is +-inf for x / 0 with x != 0 and NaN only for 0 / 0; averages over junctions or time then become inf", found=str(o.ret))
    # ---------------------------------------------------------------- R-C20-6 time grid and period of the expected-demand metrics
    edf = repo.func(HYDM, "expected_demand")
    chk.fn(edf)
    ar = [a for a in walk(edf) if isinstance(a, ast.Assign) and unparse(a.targets[0]) == "tsteps"]
    if not ar:
        raise ExtractError("expected_demand: time grid `tsteps` not found")
    first = unparse(ar[0].value).replace(" ", "")
    # np.arange(start, end + step, step) overshoots end when (end - start) % step != 0 unless the grid is cut at end_time
    overshoots = first == "np.arange(start_time,end_time+timestep,timestep)" and not any("<=end_time" in unparse(a.value).replace(" ", "") for a in ar[1:])
    chk.expect(not overshoots, "R-C20-6", "expected_demand evaluates no time beyond end_time", loc(edf, ar[0]),
               "np.arange(start, end + step, step) includes one step past end_time whenever the span is not a multiple of the timestep: the table has a row the simulator never reports "
               "(duration 10 h, report step 3 h: 43200 s > 36000 s)", expected="grid cut at end_time", found=[norm(a) for a in ar])
    aed = repo.func(HYDM, "average_expected_demand")
    chk.fn(aed)
    apps = [c for c in calls(aed) if last_attr(c) == "append" and unparse(c.func.value) == "L"]
    if not apps:
        raise ExtractError("average_expected_demand: list of pattern periods not found")
    guarded = False
    q = apps[0]
    while q is not None and q is not aed:
        pq = getattr(q, "_parent", None)
        if isinstance(pq, ast.If) and "len(" in unparse(pq.test) and ("> 0" in unparse(pq.test) or "!= 0" in unparse(pq.test) or ">= 1" in unparse(pq.test)):
            guarded = True
        q = pq
    chk.expect(guarded, "R-C20-6", "average_expected_demand leaves patterns without multipliers out of the common period", loc(aed, apps[0]),
               "an empty pattern is legal (the constant 1.0); its length 0 makes lcm(...) = 0, the averaging window empty and every average NaN", expected="if len(pattern.multipliers) > 0",
               found=norm(apps[0]))
    td = repo.func(HYDM, "todini_index")
    chk.fn(td)
    ex = SymExec(call_hook=pandas_hook)
    o = ex.run(td)[0]
    env = {k: Opaque(k) for k in ("head", "pressure", "demand", "flowrate", "wn", "Pstar")}
    J = "wn.junction_name_list"
    refx = SymExec(call_hook=pandas_hook)
    refx.syms = ex.syms
    Pout = "(demand.loc[:,%s]*head.loc[:,%s])" % (J, J)
    Pexp = "(demand.loc[:,%s]*(Pstar+(head.loc[:,%s]-pressure.loc[:,%s])))" % (J, J, J)
    Pres = "(-demand.loc[:,wn.reservoir_name_list]*head.loc[:,wn.reservoir_name_list])"
    want = ref(refx, "(%s.sum(axis=1) - %s.sum(axis=1))" % (Pout, Pexp), env)
    got = ex.S(o.ret)
    num, den = sp.fraction(sp.together(got))
    chk.expect(is_zero(num - want) or is_zero(num + want), "R-C20-4", "todini_index numerator = sum(demand*head) - sum(demand*(Pstar + elevation)) over junctions", loc(td), found=str(num)[:200])
    pin = [a for a in den.atoms(sp.Function) if a.func.__name__.startswith("SUM_axis")]
    wres = ref(refx, "%s.sum(axis=1)" % Pres, env)
    wexp = ref(refx, "%s.sum(axis=1)" % Pexp, env)
    rest = sp.simplify(den - wres + wexp) if is_zero(num - want) else sp.simplify(-den - wres + wexp)
    okpump = isinstance(rest, sp.Function) and rest.func.__name__.startswith("SUM_axis") and rest.args[0].has(sp.Abs) and rest.args[0].has(ex.sym("flowrate.loc[(:, wn.pump_name_list)]"))
    chk.expect(okpump, "R-C20-4", "todini_index denominator = reservoir power + pump power (flow * |head gain|) - required power", loc(td), found=str(den)[:250])
    hs = [e for e in o.events if e[0] == "store" and "[name]" in e[1]]
    chk.expect(bool(hs) and is_zero(ex.S(hs[0][2]) - (ex.sym("head.loc[(:, link.end_node_name)]") - ex.sym("head.loc[(:, link.start_node_name)]"))), "R-C20-4", "todini_index pump head gain = end head - start head", loc(td))
    mri = repo.func(HYDM, "modified_resilience_index")
    ex = SymExec(call_hook=pandas_hook)
    seenm = set()
    for o in ex.run(mri):
        if o.raised or o.ret is None:
            continue
        pj = [v for t, v in o.conds if t == "per_junction"]
        env = {k: Opaque(k) for k in ("pressure", "elevation", "Pstar", "demand")}
        refx = SymExec(call_hook=pandas_hook)
        refx.syms = ex.syms
        if pj and pj[0]:
            want = ref(refx, "((pressure+elevation) - (Pstar+elevation))/(Pstar+elevation)", env)
            seenm.add("per")
        elif pj:
            want = ref(refx, "((demand*(pressure+elevation)).sum(axis=1) - (demand*(Pstar+elevation)).sum(axis=1))/(demand*(Pstar+elevation)).sum(axis=1)", env)
            seenm.add("sys")
        else:
            continue
        chk.expect(is_zero(ex.S(o.ret) - want), "R-C20-4", "modified_resilience_index (%s) = (available - required power) / required power" % ("per junction" if pj[0] else "system"), loc(mri), found=str(o.ret)[:200])
    chk.expect(seenm == {"per", "sys"}, "R-C20-4", "modified_resilience_index: both modes located", loc(mri), found=sorted(seenm))
    tcap = repo.func(HYDM, "tank_capacity")
    ex = SymExec()
    o = ex.run(tcap)[0]
    st = [e for e in o.events if e[0] == "store" and e[1].endswith("[name]")]
    okt = bool(st) and is_zero(ex.S(st[0][2]) - ex.sym("wn.get_node(name).get_volume(pressure[name])") / ex.sym("wn.get_node(name).get_volume(wn.get_node(name).max_level)"))
    chk.expect(okt, "R-C20-4", "tank_capacity = V(level) / V(max_level), level = tank pressure", loc(tcap), found=str(st[0][2]) if st else None)
    anc = repo.func(ECON, "annual_network_cost")
    chk.fn(anc)
    pm = [s for s in walk(anc) if isinstance(s, ast.Assign) and dotted(s.targets[0]) == "Pmax" and "np.exp" in unparse(s.value)]
    okpm = False
    if pm:
        ex = SymExec(call_hook=pandas_hook, assume=lambda t: {"positive": True})
        v = ex.S(ex.ev(pm[0].value, State({"A": Opaque("A"), "B": Opaque("B"), "C": Opaque("C")})))
        A, B_, C = ex.sym("A"), ex.sym("B"), ex.sym("C")
        q = sp.exp(sp.log(A / (B_ * (C + 1))) / C)
        okpm = is_zero(v - sp.Rational("9.81") * 1000 * q * (A - B_ * q ** C))
    chk.expect(okpm, "R-C20-4", "maximum pump power = g*rho*q*(A - B*q^C) at q = (A/(B*(C+1)))^(1/C) (before dividing by the efficiency)", loc(anc), found=unparse(pm[0].value)[:160] if pm else None)
    chk.floor("R-C20-4", 12)

    # ---------------------------------------------------------------- R-C20-5 documented tables
    doc = ast.get_docstring(anc) or ""
    for var, header, unit_in, idxname, listname in (("tank_cost", "Volume (m3)", False, "volume", "cost"), ("pipe_cost", "Annual Cost ($/m/yr)", True, "diameter", "cost"),
                                                    ("pump_cost", "Maximum power (W)", False, "Pmp", "cost")):
        rows = rst_table(doc, header)
        vals = list_assign(anc, var, var)
        if rows is None or vals is None:
            chk.bad("R-C20-5", "annual_network_cost: table and defaults for %s located" % var, loc(anc), found=(rows is not None, vals is not None))
            continue
        idx = [const(e) for e in vals[idxname][0].elts]
        cost = [const(e) for e in vals[listname][0].elts]
        doc_idx = [r[0] for r in rows]
        doc_cost = [r[-1] for r in rows]
        chk.expect([float(x) for x in idx] == doc_idx and [float(x) for x in cost] == doc_cost, "R-C20-5", "annual_network_cost default %s equals the table in its docstring" % var, loc(anc),
                   expected=list(zip(doc_idx, doc_cost))[:4], found=list(zip(idx, cost))[:4])
        if unit_in:
            scale = vals[idxname][1] if len(vals[idxname]) > 1 else None
            chk.expect(scale is not None and "0.0254" in unparse(scale), "R-C20-5", "%s diameters are converted from inches to metres (x 0.0254)" % var, loc(anc))
            chk.expect(all(abs(r[0] * 0.0254 - r[1]) < 6e-4 for r in rows), "R-C20-5", "%s docstring metre column = inches * 0.0254" % var, loc(anc))
    # the PRV table is the second "Annual Cost ($/m/yr)" table
    parts = doc.split("prv_cost :")
    if len(parts) == 2:
        rows = rst_table(parts[1], "Annual Cost ($/m/yr)")
        vals = list_assign(anc, "prv_cost", "prv_cost")
        okv = rows is not None and vals is not None and [float(const(e)) for e in vals["diameter"][0].elts] == [r[0] for r in rows] and [float(const(e)) for e in vals["cost"][0].elts] == [r[-1] for r in rows]
        chk.expect(okv, "R-C20-5", "annual_network_cost default prv_cost equals the table in its docstring", loc(anc))
    ghg = repo.func(ECON, "annual_ghg_emissions")
    chk.fn(ghg)
    rows = rst_table(ast.get_docstring(ghg) or "", "Diameter (mm)")
    vals = list_assign(ghg, "pipe_ghg", "pipe_ghg")
    okg = rows is not None and vals is not None and [float(const(e)) for e in vals["cost"][0].elts] == [r[-1] for r in rows] and \
        all(abs(const(e) * 25.4 - r[0]) < 0.6 for e, r in zip(vals["diameter"][0].elts, rows))
    chk.expect(okg, "R-C20-5", "annual_ghg_emissions default table equals the table in its docstring (inches * 25.4 = mm)", loc(ghg))
    nsel = 0
    for fn in (anc, ghg):
        for c in calls(fn, name="np.argmin"):
            nsel += 1
            t = unparse(c.args[0]).replace(" ", "")
            chk.expect(re.fullmatch(r"\[?np\.abs\((\w+)\.index-[\w\.]+\)\]?", t) is not None, "R-C20-5", "%s selects the nearest table entry by argmin |index - value| [%s]" % (fn.name, t[:50]), loc(fn, c), found=t)
    chk.floor("R-C20-5", 6 + 5, count=nsel + 6)
    # the sum: cost * length for pipes, plain cost for tanks / pumps / PRVs
    srca = unparse(anc)
    chk.expect("network_cost + pipe_cost.iloc[idx] * link.length" in srca and "network_cost + tank_cost.iloc[idx]" in srca and "network_cost + pump_cost.iloc[idx]" in srca and "network_cost + prv_cost.iloc[idx]" in srca,
               "R-C20-5", "annual_network_cost adds tank + pipe(cost * length) + pump + PRV costs", loc(anc))
    chk.expect("network_ghg + pipe_ghg.iloc[idx] * link.length" in unparse(ghg), "R-C20-5", "annual_ghg_emissions adds emission factor * length per pipe", loc(ghg))


WITNESSES = [
    dict(name="wsa-inf-for-zero-expected-demand", file=HYDM, old="    wsa = wsa.replace([np.inf, -np.inf], np.nan)  # expected demand 0: NaN, as documented\n", new="", rule="R-C20-4"),
    dict(name="expected-demand-overshoots-end-time", file=HYDM, old="    tsteps = tsteps[tsteps <= end_time]  # the last step does not pass end_time when the span is not a multiple of the timestep\n", new="", rule="R-C20-6"),
    dict(name="empty-pattern-zeroes-the-period", file=HYDM, old="        if len(pattern.multipliers) > 0:  # an empty pattern is the constant 1.0 and has no period\n            L.append(", new="        if True:\n            L.append(", rule="R-C20-6"),
    dict(name="energy-hydraulic-timestep", file=ECON, old="    energy = power * wn.options.time.report_timestep # J = Ws", new="    energy = power * wn.options.time.hydraulic_timestep # J = Ws", rule="R-C20-4"),
    dict(name="power-g", file=ECON, old="    power = 1000.0 * 9.81 * headloss * flowrate / efficiency", new="    power = 1000.0 * 9.8 * headloss * flowrate / efficiency", rule="R-C20-4"),
    dict(name="power-times-efficiency", file=ECON, old="headloss * flowrate / efficiency", new="headloss * flowrate * efficiency", rule="R-C20-4"),
    dict(name="table-entry", file=ECON, old="        cost =  [14020, 30640, 61210, 87460, 122420, 174930]", new="        cost =  [14020, 30640, 61210, 87640, 122420, 174930]", rule="R-C20-5"),
    dict(name="multiplier-dropped", file=HYDM, old="                       multiplier=wn.options.hydraulic.demand_multiplier, category=category))", new="                       category=category))", rule="R-C20-2"),
    dict(name="todini-pump-sign", file=HYDM, old="        (Pin_res.sum(axis=1) + Pin_pump.sum(axis=1) - Pexp.sum(axis=1))", new="        (Pin_res.sum(axis=1) - Pin_pump.sum(axis=1) - Pexp.sum(axis=1))", rule="R-C20-4"),
    dict(name="mri-denominator", file=HYDM, old="        mri = (Pout - Pexp)/Pexp", new="        mri = (Pout - Pexp)/Pout", rule="R-C20-4"),
    dict(name="tank-capacity-min", file=HYDM, old="        max_volume = tank.get_volume(tank.max_level)", new="        max_volume = tank.get_volume(tank.max_level) - tank.get_volume(tank.min_level)", rule="R-C20-4"),
    dict(name="population-no-round", file=MISC, old="    return pop.round()", new="    return pop", rule="R-C20-4"),
]
