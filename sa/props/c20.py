"""C20 -- demand, resilience and pump-cost metrics equal their documented formulas."""
import ast
import math
import re

import sympy as sp

from ..src import walk, calls, call_name, dotted, const, loc, unparse, norm, AnchorError, ExtractError, last_attr
from ..symx import SymExec, Opaque, State, is_zero
from ..cfg import CFG
from ..peval import Evaluator, Obj, Unknown, Raised, Returned

HYDM = "wntr/metrics/hydraulic.py"
ECON = "wntr/metrics/economic.py"
MISC = "wntr/metrics/misc.py"
ELEM = "wntr/network/elements.py"

EXPLANATION = (
    "Mostly T2: formula extraction (AST -> sympy by path-enumerating symbolic execution; locals and inlined helpers resolved to canonical text, comprehensions "
    "entered like loops, pandas selections kept as uninterpreted leaves whose texts contain the functions' parameter names, reference formulas passed through "
    "the same extractor). R-C20-1: (T1) CFG rule over all of wntr/metrics -- no loop whose body always leaves on the first iteration; (T3) _gcd evaluated on a "
    "grid of about 900 integer pairs against math.gcd; (T2, grid fallback) _lcm = x*y/gcd. R-C20-2: the demand_timeseries_list.at call of expected_demand is "
    "compared per path with the simulator's clock (grid time + pattern_start), multiplier, category, time grid and defaults; average_expected_demand averages "
    "over one lcm period; other call sites in wntr are a TEXT match ('pattern_start' in the argument). R-C20-3 (T1, AST pattern on the immediate parent BinOp "
    "only, nothing evaluated): each arithmetic use of the percentage option global_efficiency, also through a single-assignment temporary, is `/ 100` or "
    "`* 0.01`. R-C20-4: formulas of pump_power / energy / cost (price as a truth table over the None-ness of own price, own pattern, global pattern), "
    "population, water_service_availability, todini_index, modified_resilience_index, tank_capacity, maximum pump power. R-C20-5: totals of annual_network_cost "
    "/ annual_ghg_emissions decomposed into look-ups table.iloc[argmin |table.index - value|] (T2); default tables evaluated concretely and compared with the "
    "RST tables of the docstrings (T3, exhaustive over the tables). R-C20-6: expected_demand iterates no time beyond end_time; empty patterns are left out of the "
    "common period. Decides the scalar formulas and conventions, not the pandas plumbing.")
RULE_TEXT = "one instance = one formula, one loop, one call site, one table, one look-up"
ASSUMPTIONS = ["pandas arithmetic is elementwise and aligns on labels; .sum(axis=1) sums over columns",
               "registry iterators: wn.tanks() yields the (name, wn.get_node(name)) pairs of wn.tank_name_list in the same order; wn.pipes()/wn.tanks()/wn.valves() "
               "are wn.links(Pipe)/wn.nodes(Tank)/wn.links(Valve)"]


def pandas_hook(name, node, args, kwargs, st, ex, recv):
    meth = node.func.attr if isinstance(node.func, ast.Attribute) else None
    if meth == "sum" and recv is not None and not args:
        try:
            return sp.Function("SUM_axis%s" % kwargs.get("axis", ""))(ex.S(recv))
        except ExtractError:
            return NotImplemented
    if meth == "abs" and recv is not None and not args:
        return sp.Abs(ex.S(recv))
    if meth == "div" and recv is not None and len(args) == 1:
        return ex.S(recv) / ex.S(args[0])
    if meth == "mean" and recv is not None and not args:
        try:
            return sp.Function("MEAN_axis%s" % kwargs.get("axis", ""))(ex.S(recv))
        except ExtractError:
            return NotImplemented
    if meth == "replace" and recv is not None and len(node.args) == 2:
        a0, a1 = unparse(node.args[0]).replace(" ", ""), unparse(node.args[1])
        if a0 in ("[np.inf,-np.inf]", "[-np.inf,np.inf]", "(np.inf,-np.inf)") and a1 in ("np.nan", "float('nan')", "numpy.nan"):
            try:
                return sp.Function("INF_TO_NAN")(ex.S(recv))
            except ExtractError:
                return NotImplemented
    if meth == "round" and recv is not None and not args:
        return sp.Function("ROUND")(ex.S(recv))
    if name in ("np.exp", "np.log"):
        return getattr(sp, name[3:])(ex.S(args[0]))
    return NotImplemented


# ------------------------------------------------------------------ the extractor used by this module
class Comp(Opaque):
    """value of a one-generator comprehension: `elt` for `target` in `iter` [if conds] (text = canonical form with locals resolved)."""

    def __init__(self, text, elt, target, it, conds):
        Opaque.__init__(self, text)
        self.elt, self.target, self.iter, self.conds = elt, target, it, conds


class Rel(Opaque):
    """an undecided comparison, operands kept"""

    def __init__(self, text, op, a, b):
        Opaque.__init__(self, text)
        self.op, self.a, self.b = op, a, b


class MX(SymExec):
    """SymExec that (a) enters one-generator comprehensions like a loop body (events of the element are recorded, the value is a Comp),
    (b) annotates call/store events with the (target, iterable) pairs of the enclosing loops and stores with the base/key values,
    (c) remembers the Opaque behind every symbol (so a symbol can be taken apart again)."""

    def __init__(self, **kw):
        SymExec.__init__(self, **kw)
        self.objs = {}

    def S(self, v, node=None):
        if isinstance(v, Opaque) and (v.text not in self.objs or (self.objs[v.text].base is None and v.base is not None)):
            self.objs[v.text] = v
        return SymExec.S(self, v, node)

    def compare(self, op, a, b):
        r = SymExec.compare(self, op, a, b)
        if isinstance(r, Opaque):
            r = Rel(r.text, type(op).__name__, a, b)
        return r

    def e_Subscript(self, n, st):
        r = SymExec.e_Subscript(self, n, st)
        if isinstance(r, Opaque) and r.base is not None:
            self.objs[r.text] = r
        return r

    def stmt(self, s, st):
        # x += t in a loop body that is walked once is x = x + t (no SUM{..} summary: the totals are taken apart term by term)
        if isinstance(s, ast.AugAssign) and isinstance(s.target, ast.Name):
            self.assign(s.target, self.binop(s.op, self.ev(s.target, st), self.ev(s.value, st), s), st, s)
            return [st]
        return SymExec.stmt(self, s, st)

    def e_ListComp(self, n, st):
        if len(n.generators) != 1:
            return Opaque(unparse(n))
        g = n.generators[0]
        it = self.ev(g.iter, st)
        n0 = len(st.events)
        sub = st.fork()
        self.bind_loop_target(g.target, sub)
        tgt = unparse(g.target)
        sub.loops.append((tgt, self.text(it), set(st.env)))
        sub.events.append(("loop", tgt, self.text(it), getattr(n, "lineno", 0)))
        conds = [self.text(self.ev(c, sub)) for c in g.ifs]
        elt = self.ev(n.elt, sub)
        st.events.extend(sub.events[n0:])
        txt = "[%s for %s in %s%s]" % (self.text(elt), tgt, self.text(it), "".join(" if " + c for c in conds))
        return Comp(txt, elt, tgt, self.text(it), conds)

    e_GeneratorExp = e_ListComp

    def e_DictComp(self, n, st):
        # {k: v for ..}: like a loop body walked once that stores one entry
        if len(n.generators) != 1:
            return Opaque(unparse(n))
        g = n.generators[0]
        it = self.ev(g.iter, st)
        n0 = len(st.events)
        sub = st.fork()
        self.bind_loop_target(g.target, sub)
        tgt = unparse(g.target)
        sub.loops.append((tgt, self.text(it), set(st.env)))
        sub.events.append(("loop", tgt, self.text(it), getattr(n, "lineno", 0)))
        for c in g.ifs:
            self.ev(c, sub)
        k, v = self.ev(n.key, sub), self.ev(n.value, sub)
        st.events.extend(sub.events[n0:])
        return {k if isinstance(k, (str, int)) else self.text(k): v}

    def binop(self, op, a, b, n=None):
        # [..] + [x for ..]: the comprehension stays one (splatted) member of the abstract list
        if isinstance(op, ast.Add) and ((isinstance(a, list) and isinstance(b, Comp)) or (isinstance(a, Comp) and isinstance(b, list))):
            return (list(a) if isinstance(a, list) else [a]) + (list(b) if isinstance(b, list) else [b])
        # [x] * n: n copies of x
        if isinstance(op, ast.Mult) and ((isinstance(a, list) and len(a) == 1 and not isinstance(b, (list, tuple, str))) or (isinstance(b, list) and len(b) == 1 and not isinstance(a, (list, tuple, str)))):
            lst, cnt = (a, b) if isinstance(a, list) else (b, a)
            return Comp("[%s]*%s" % (self.text(lst[0]), self.text(cnt)), lst[0], "_", "range(%s)" % self.text(cnt), [])
        return SymExec.binop(self, op, a, b, n)

    def e_Call(self, n, st):
        n0 = len(st.events)
        r = SymExec.e_Call(self, n, st)
        lp = tuple((l[0], l[1]) for l in st.loops)
        for i in range(n0, len(st.events)):
            e = st.events[i]
            if e[0] == "call" and len(e) == 5:
                st.events[i] = e + (lp,)
        return r

    def assign(self, t, v, st, stmt=None):
        n0 = len(st.events)
        SymExec.assign(self, t, v, st, stmt)
        if len(st.events) == n0 + 1 and st.events[-1][0] == "store" and len(st.events[-1]) == 5 and isinstance(t, ast.Subscript):
            st.events[-1] = st.events[-1] + (tuple((l[0], l[1]) for l in st.loops), self.ev(t.value, st), self.ev(t.slice, st))


def ref(ex, code, env):
    """evaluate a reference expression written in Python syntax with the same extractor."""
    st = State(dict(env))
    return ex.S(ex.ev(ast.parse(code, mode="eval").body, st))


def ev_calls(o, name):
    return [e for e in o.events if e[0] == "call" and e[2][0] == name]


def loop_vars(lp):
    """names bound by the loops enclosing an event: [(name, position in its target, iterable text)]"""
    out = []
    for tgt, it in lp:
        for i, nm in enumerate(x.strip(" ()") for x in tgt.split(",")):
            out.append((nm, i, it))
    return out


def bind_args(params, args, kwargs):
    d = dict(zip(params, args))
    d.update(kwargs)
    return d


# ------------------------------------------------------------------ three-valued evaluation of path conditions under a None-ness assignment
UNK = type("UNK", (), {"__repr__": lambda self: "<unknown>"})()            # value not determined by the assignment
NOTNONE = type("NOTNONE", (), {"__repr__": lambda self: "<not None>"})()     # some value that is not None


def _truth(v):
    return None if v is UNK or v is NOTNONE else bool(v)


def _cmp(op, a, b):
    if a is UNK or b is UNK:
        return None
    if isinstance(op, (ast.Is, ast.IsNot, ast.Eq, ast.NotEq)):
        if a is NOTNONE or b is NOTNONE:
            other = b if a is NOTNONE else a
            if other is not None:
                return None
            res = False
        else:
            res = a == b
        return res if isinstance(op, (ast.Is, ast.Eq)) else not res
    if a is NOTNONE or b is NOTNONE:
        return None
    try:
        if isinstance(op, (ast.In, ast.NotIn)):
            return (a in b) == isinstance(op, ast.In)
        return {ast.Lt: a < b, ast.LtE: a <= b, ast.Gt: a > b, ast.GtE: a >= b}[type(op)]
    except (TypeError, KeyError):
        return None


def _val(node, env):
    """value of a condition (sub)expression when the source texts in env hold the given values; UNK where env does not decide it"""
    t = unparse(node)
    if t in env:
        return env[t]
    if isinstance(node, ast.Constant):
        return node.value
    if isinstance(node, (ast.Tuple, ast.List, ast.Set)):
        vals = [_val(e, env) for e in node.elts]
        return UNK if any(v is UNK or v is NOTNONE for v in vals) else vals
    if isinstance(node, ast.UnaryOp) and isinstance(node.op, ast.Not):
        v = _truth(_val(node.operand, env))
        return UNK if v is None else not v
    if isinstance(node, ast.UnaryOp) and isinstance(node.op, ast.USub):
        v = _val(node.operand, env)
        return -v if isinstance(v, (int, float)) else UNK
    if isinstance(node, ast.BoolOp):
        vals = [_truth(_val(v, env)) for v in node.values]
        if isinstance(node.op, ast.And):
            return False if any(v is False for v in vals) else True if all(v is True for v in vals) else UNK
        return True if any(v is True for v in vals) else False if all(v is False for v in vals) else UNK
    if isinstance(node, ast.Compare):
        left = _val(node.left, env)
        res = True
        for op, rn in zip(node.ops, node.comparators):
            right = _val(rn, env)
            r = _cmp(op, left, right)
            if r is False:
                return False
            if r is None:
                res = UNK
            left = right
        return res
    return UNK


def tv_env(text, env):
    """truth (True / False / None = undecided) of the condition text under env: {source text: value}"""
    try:
        return _truth(_val(ast.parse(text, mode="eval").body, env))
    except SyntaxError:
        return None


def tv_text(text, none):
    """none: {source text: is it None?}"""
    return tv_env(text, {k: (None if v else NOTNONE) for k, v in none.items()})


def consistent_env(conds, env):
    for t, v in conds:
        r = tv_env(t, env)
        if r is not None and r != bool(v):
            return False
    return True


def consistent(conds, none):
    """can the path with these recorded conditions be taken when the atoms are None / not None as given?"""
    for t, v in conds:
        r = tv_text(t, none)
        if r is not None and r != bool(v):
            return False
    return True


def resolve_pieces(ex, v, none):
    if isinstance(v, sp.Basic) and v.has(sp.Piecewise):
        return v.replace(lambda e: isinstance(e, sp.Piecewise), lambda e: pick_piece(ex, e, none))
    return v


def pick_piece(ex, v, none):
    """a conditional expression became a Piecewise on the atom '[test text]': select the branch the assignment takes."""
    if isinstance(v, sp.Piecewise):
        for val, cond in v.args:
            if cond is sp.true or cond == True:  # noqa: E712
                return val
            syms = [s for s in cond.free_symbols if s.name.startswith("[") and s.name.endswith("]")]
            if isinstance(cond, sp.Eq) and len(syms) == 1:
                r = tv_text(syms[0].name[1:-1], none)
                if r is True:
                    return val
                if r is False:
                    continue
            return v
    return v


# ------------------------------------------------------------------ small concrete evaluations
class LoopEv(Evaluator):
    """peval with bounded while loops, element-wise list scaling (numpy arrays) and subscripts (pure integer / table helpers)."""
    FUEL = 100000

    def stmt(self, s):
        if isinstance(s, ast.While):
            fuel = 0
            while self.truth(self.ev(s.test)):
                fuel += 1
                if fuel > self.FUEL:
                    raise Unknown("while loop does not terminate within %d iterations" % self.FUEL)
                self.block(s.body)
            return
        if isinstance(s, (ast.Import, ast.ImportFrom)):
            return
        return Evaluator.stmt(self, s)

    def binop(self, op, a, b, n):
        if isinstance(a, Arr) and isinstance(b, (int, float)) and isinstance(op, (ast.Mult, ast.Div)):
            return Arr(x * b if isinstance(op, ast.Mult) else x / b for x in a)
        if isinstance(b, Arr) and isinstance(a, (int, float)) and isinstance(op, ast.Mult):
            return Arr(a * x for x in b)
        return Evaluator.binop(self, op, a, b, n)

    def e_Subscript(self, n):
        return self.ev(n.value)[self.ev(n.slice)]

    def e_Dict(self, n):
        out = {}
        for k, v in zip(n.keys, n.values):
            if k is None:
                inner = self.ev(v)
                if not isinstance(inner, dict):
                    raise Unknown("** of a non-dict")
                out.update(inner)
            else:
                out[self.ev(k)] = self.ev(v)
        return out

    def e_ListComp(self, n):
        if len(n.generators) != 1:
            raise Unknown("nested comprehension")
        g = n.generators[0]
        out = []
        saved = dict(self.env)
        for x in self.iterate(self.ev(g.iter)):
            self.assign(g.target, x)
            if all(self.truth(self.ev(c)) for c in g.ifs):
                out.append(self.ev(n.elt))
        self.env = saved
        return out

    e_GeneratorExp = e_ListComp

    def e_DictComp(self, n):
        if len(n.generators) != 1:
            raise Unknown("nested comprehension")
        g = n.generators[0]
        out = {}
        saved = dict(self.env)
        for x in self.iterate(self.ev(g.iter)):
            self.assign(g.target, x)
            if all(self.truth(self.ev(c)) for c in g.ifs):
                out[self.ev(n.key)] = self.ev(n.value)
        self.env = saved
        return out

    @staticmethod
    def iterate(v):
        if isinstance(v, dict):
            return list(v.keys())
        if isinstance(v, (list, tuple)):
            return list(v)
        raise Unknown("iteration over %r" % (v,))


class Arr(list):
    pass


def gcd_table(fn):
    """fn (a two-parameter integer helper) evaluated on a grid -> [(x, y, value)]"""
    ps = [a.arg for a in fn.args.args]
    if len(ps) != 2:
        raise ExtractError("%s: two parameters expected" % fn.name)

    def hook(name, n, ev):
        if name in ("math.gcd", "gcd", "np.gcd", "numpy.gcd"):
            return math.gcd(*[ev.ev(a) for a in n.args])
        if name == "abs":
            return abs(ev.ev(n.args[0]))
        if name == fn.name:
            return LoopEv(dict(zip(ps, [ev.ev(a) for a in n.args])), None, hook).run(fn.body)
        return NotImplemented
    rows = []
    pairs = [(x, y) for x in range(1, 31) for y in range(1, 31)] + [(86400, 18000), (18000, 86400), (86400, 25200), (7, 0), (86400, 86400), (3600, 86400)]
    for x, y in pairs:
        try:
            rows.append((x, y, LoopEv({ps[0]: x, ps[1]: y}, None, hook).run(fn.body)))
        except (Unknown, Raised, RecursionError) as e:
            raise ExtractError("%s(%d, %d) not evaluable: %s" % (fn.name, x, y, e))
    return rows


def rst_table(doc, header_word):
    """rows of numbers of the RST simple table whose header contains header_word."""
    lines = doc.splitlines()
    for i, l in enumerate(lines):
        if header_word in l and i > 0 and set(lines[i - 1].strip()) <= set("= ") and lines[i - 1].strip():
            rows = []
            j = i + 2
            while j < len(lines) and not (set(lines[j].strip()) <= set("= ") and lines[j].strip()):
                nums = re.findall(r"-?\d+(?:\.\d+)?", lines[j])
                if nums:
                    rows.append([float(x) for x in nums])
                j += 1
            return rows
    return None


def default_table(repo, rel, fn, param):
    """the default lookup table of `param` (a pandas Series built where the parameter is None), evaluated concretely:
    -> (index values, data values) or None when it cannot be located."""
    def class_attr(d):
        try:
            return mk().ev(repo.module_assign(rel, d))
        except AnchorError:
            raise Unknown("unbound name %s" % d)

    def hook(name, n, ev):
        if name in ("np.array", "numpy.array", "np.asarray") and n.args:
            v = ev.ev(n.args[0])
            if isinstance(v, (list, tuple, dict)):
                return Arr(LoopEv.iterate(v))
        if name in ("list", "tuple", "sorted") and len(n.args) == 1 and not n.keywords:
            v = LoopEv.iterate(ev.ev(n.args[0]))
            return sorted(v) if name == "sorted" else list(v)
        if name == "dict" and len(n.args) <= 1:
            v = ev.ev(n.args[0]) if n.args else {}
            out = dict(v) if isinstance(v, dict) else dict(tuple(x) for x in LoopEv.iterate(v))
            out.update({k.arg: ev.ev(k.value) for k in n.keywords if k.arg})
            return out
        if name == "zip" and n.args:
            return [list(t) for t in zip(*[LoopEv.iterate(ev.ev(a)) for a in n.args])]
        if name == "len" and len(n.args) == 1:
            return len(ev.ev(n.args[0]))
        if isinstance(n.func, ast.Attribute) and n.func.attr in ("keys", "values", "items") and not n.args:
            base = ev.ev(n.func.value)
            if isinstance(base, dict):
                return [list(kv) for kv in base.items()] if n.func.attr == "items" else list(getattr(base, n.func.attr)())
        if name in ("pd.Series", "pandas.Series"):
            kw = bind_args(["data", "index"], [ev.ev(a) for a in n.args], {k.arg: ev.ev(k.value) for k in n.keywords if k.arg in ("data", "index")})
            if isinstance(kw.get("data"), dict) and kw.get("index") is None:       # pd.Series({index: value}): keys in insertion order
                kw = {"data": list(kw["data"].values()), "index": list(kw["data"].keys())}
            return Obj("series", kw)
        if name in helpers and helpers[name] is not None:
            # a helper of the module that the normaliser left in place (it is in the inventory, or normalisation is off): follow it
            f = helpers[name]
            ps = [a.arg for a in f.args.args]
            env = {}
            for p_, d_ in zip(ps[len(ps) - len(f.args.defaults):], f.args.defaults):
                env[p_] = ev.ev(d_)
            env.update(bind_args(ps, [ev.ev(a) for a in n.args], {k.arg: ev.ev(k.value) for k in n.keywords if k.arg}))
            sub = mk()
            sub.env.update(env)
            return sub.run(f.body)
        return NotImplemented

    helpers = {}
    for n in repo.tree(rel).body:
        if isinstance(n, ast.FunctionDef) and n is not fn:
            helpers[n.name] = n

    def mk():
        return LoopEv({"np": Obj("np"), "pd": Obj("pd"), "numpy": Obj("numpy")}, class_attr, hook)
    for n in walk(fn):
        blocks = []
        if isinstance(n, ast.If) and tv_text(unparse(n.test), {param: True}) is True:
            blocks.append(n.body)
        elif isinstance(n, ast.If) and tv_text(unparse(n.test), {param: True}) is False and n.orelse:
            blocks.append(n.orelse)
        for blk in blocks:
            e = mk()
            try:
                e.block(blk)
            except (Unknown, Raised, Returned, TypeError, KeyError, IndexError):
                continue
            v = e.env.get(param)
            if isinstance(v, Obj) and v.name == "series" and isinstance(v.attrs.get("data"), list) and isinstance(v.attrs.get("index"), list):
                return [float(x) for x in v.attrs["index"]], [float(x) for x in v.attrs["data"]]
    return None


# ------------------------------------------------------------------ decomposition of a total into table look-ups
def lookups(ex, o, total):
    """total (sympy) as a sum of look-ups: -> [dict(table, value, mult, loop, vars, sel_ok, text)] or raises ExtractError"""
    out = []
    for term in sp.Add.make_args(sp.expand(total)):
        if term == 0:
            continue
        ils = [s for s in term.free_symbols if ".iloc[" in s.name or ".loc[" in s.name or ".iat[" in s.name]
        if len(ils) != 1:
            raise ExtractError("term %s of the total is not one table look-up" % str(term)[:80])
        s = ils[0]
        ob = ex.objs.get(s.name)
        d = dict(text=s.name, mult=sp.simplify(term / s), table=None, value=None, loop=None, vars=[], sel_ok=False, how="")
        out.append(d)
        if ob is None or ob.base is None or not isinstance(ob.base, Opaque) or not ob.base.text.endswith(".iloc"):
            d["how"] = "not positional (.iloc) selection"
            continue
        d["table"] = ob.base.text[:-len(".iloc")]
        key = ob.key
        ce = [e for e in o.events if e[0] == "call" and isinstance(key, Opaque) and e[1] == key.text]
        if not ce or ce[0][2][0] not in ("np.argmin", "numpy.argmin"):
            d["how"] = "position is not np.argmin(...): %s" % (ex.text(key)[:60],)
            continue
        d["loop"] = ce[0][5][-1][1] if len(ce[0]) > 5 and ce[0][5] else ""
        d["vars"] = loop_vars(ce[0][5][-1:]) if len(ce[0]) > 5 else []
        a = ce[0][2][1][0] if ce[0][2][1] else None
        while isinstance(a, (list, tuple)) and len(a) == 1:
            a = a[0]
        if not isinstance(a, sp.Basic) or not isinstance(a, sp.Abs):
            d["how"] = "argument of argmin is not |...|: %s" % (ex.text(a)[:60],)
            continue
        idx = ex.sym(d["table"] + ".index")
        inner = sp.expand(a.args[0])
        if inner.coeff(idx) == 1:
            d["value"] = sp.simplify(idx - inner)
        elif inner.coeff(idx) == -1:
            d["value"] = sp.simplify(inner + idx)
        else:
            d["how"] = "distance is not taken to the index of the table selected from: %s" % (str(inner)[:80],)
            continue
        d["sel_ok"] = not d["value"].has(idx)
    return out


def run(repo, chk):
    # ---------------------------------------------------------------- R-C20-1 loops that never iterate
    with chk.part("R-C20-1 loops that never iterate"):
        nloops = 0
        for rel in repo.modules("wntr/metrics"):
            for fn in [n for n in ast.walk(repo.tree(rel)) if isinstance(n, ast.FunctionDef)]:
                loops = [n for n in walk(fn) if isinstance(n, (ast.While, ast.For))]
                if not loops:
                    continue
                fn._rel, fn._qual = rel, fn.name
                try:
                    g = CFG(fn)
                except ExtractError:
                    continue
                for lp, head in g.loop_heads.items():
                    nloops += 1
                    back = [a for a, b, d in g.g.in_edges(head, data=True) if d.get("back")]
                    body_reachable = g.succ_on(head, True)
                    chk.expect(bool(back) or not body_reachable, "R-C20-1", "%s:%s loop `%s` can reach its head again (it iterates)" % (rel.split("/")[-1], fn.name, g.g.nodes[head]["label"][:50]), loc(rel, lp),
                               "a loop whose body always returns/breaks on the first iteration computes only the first step (Euclid's algorithm must iterate until the remainder is 0)",
                               expected="at least one path from the loop body back to the loop head", found="every path through the body leaves the loop")
        chk.floor("R-C20-1", 10, count=nloops)
        ex = MX()
        lcm = repo.func(HYDM, "_lcm")
        gcd = repo.func(HYDM, "_gcd")
        chk.fn(gcd, lcm)
        o = ex.run(lcm)
        lps = [a.arg for a in lcm.args.args]
        oklcm = False
        if len(o) == 1 and len(lps) == 2 and o[0].ret is not None:
            gc = ev_calls(o[0], "_gcd")
            r = ex.S(o[0].ret)
            if isinstance(r, sp.floor):          # x*y // gcd is the same integer
                r = r.args[0]
            oklcm = len(gc) >= 1 and sorted(ex.text(a) for a in gc[0][2][1]) == sorted(lps) and is_zero(r - ex.sym(lps[0]) * ex.sym(lps[1]) / ex.sym(gc[0][1]))
        if not oklcm and len(lps) == 2:
            # same integer by another arrangement (x // g * y): evaluated on a grid with the mathematical gcd for _gcd
            try:
                hook = lambda name, n, ev: math.gcd(*[ev.ev(a) for a in n.args]) if name == "_gcd" else NotImplemented
                oklcm = all(LoopEv({lps[0]: x, lps[1]: y}, None, hook).run(lcm.body) == x * y / math.gcd(x, y) for x in range(1, 25) for y in range(1, 25))
            except (Unknown, Raised, TypeError):
                oklcm = False
        chk.expect(oklcm, "R-C20-1", "_lcm(x, y) = x*y / gcd(x, y)", loc(lcm), found=str(o[0].ret) if o else None)
        rows = gcd_table(gcd)
        wrong = [(x, y, v) for x, y, v in rows if v != math.gcd(x, y)]
        chk.expect(not wrong, "R-C20-1", "_gcd(x, y) is the greatest common divisor (Euclid's algorithm run to the end)", loc(gcd),
                   "evaluated on %d integer pairs; the common period of the patterns is lcm = x*y/gcd" % len(rows), expected="math.gcd", found=wrong[:4])

    # ---------------------------------------------------------------- R-C20-2 one clock for demands, R-C20-6 its time grid
    with chk.part("R-C20-2 one clock for demands, R-C20-6 its time grid"):
        ed = repo.func(HYDM, "expected_demand")
        chk.fn(ed)
        at_params = ["time", "category", "multiplier"]
        if repo.has_func(ELEM, "Demands.at"):
            at_params = [a.arg for a in repo.func(ELEM, "Demands.at").args.args if a.arg != "self"]
        ex = MX()
        outs = [o for o in ex.run(ed) if not o.raised]
        ps = ex.sym("wn.options.time.pattern_start")
        fact = {"clock": [], "mult": [], "cat": [], "grid": [], "defaults": [], "cut": [], "index": []}
        seen = 0
        dflt = {"start_time": sp.Integer(0), "end_time": ex.sym("wn.options.time.duration"), "timestep": ex.sym("wn.options.time.report_timestep")}
        for o in outs:
            ats = [e for e in o.events if e[0] == "call" and e[1].split("(")[0].endswith(".demand_timeseries_list.at")]
            if len(ats) != 1:
                continue
            seen += 1
            e = ats[0]
            b = bind_args(at_params, e[2][1], e[2][2])
            try:
                tv = sp.expand(ex.S(b.get("time")))
            except ExtractError:
                tv = sp.Symbol("?")
            rest = tv - ps
            lv = [(nm, it) for nm, i, it in loop_vars(e[5])]
            tl = [it for nm, it in lv if rest.is_Symbol and nm == rest.name]
            fact["clock"].append((bool(tl), str(tv)))
            mult = b.get("multiplier")
            fact["mult"].append((isinstance(mult, Opaque) and mult.text == "wn.options.hydraulic.demand_multiplier", mult))
            fact["cat"].append((b.get("category") == Opaque("category"), b.get("category")))
            # the grid the time variable runs over
            ar = ev_calls(o, "np.arange")
            if not ar:
                raise ExtractError("expected_demand: time grid (np.arange) not found")
            a = bind_args(["start", "stop", "step"], ar[0][2][1], ar[0][2][2])
            if not all(k in a for k in ("start", "stop", "step")):
                raise ExtractError("expected_demand: np.arange(start, stop, step) expected, found %s" % ar[0][1])
            try:
                s0, u0, p0 = ex.S(a["start"]), ex.S(a["stop"]), ex.S(a["step"])
            except ExtractError:
                raise ExtractError("expected_demand: arguments of np.arange not arithmetic: %s" % ar[0][1])
            it_text = tl[0] if tl else None
            itv = ex.objs.get(it_text)
            if isinstance(o.ret, Opaque):
                df = [c for c in ev_calls(o, "pd.DataFrame") if c[1] == o.ret.text]
                if df:
                    ix = bind_args(["data", "index"], df[0][2][1], df[0][2][2]).get("index")
                    fact["index"].append((it_text is not None and ix is not None and ex.text(ix) == it_text, ex.text(ix)))
            # decided for every combination of the three optional arguments being None / given that can take this path
            # (a default may be applied by an if statement -- a path condition -- or by a conditional expression -- a Piecewise)
            for sn in (True, False):
                for en in (True, False):
                    for tn in (True, False):
                        none = {"start_time": sn, "end_time": en, "timestep": tn}
                        if not consistent(o.conds, none):
                            continue
                        want = {p: (dflt[p] if none[p] else ex.sym(p)) for p in none}
                        s_, u_, p_ = [resolve_pieces(ex, x, none) for x in (s0, u0, p0)]
                        okg = is_zero(s_ - want["start_time"]) and is_zero(p_ - want["timestep"]) and (is_zero(u_ - want["end_time"] - want["timestep"]) or is_zero(u_ - want["end_time"] - 1))
                        fact["defaults" if (sn or en or tn) else "grid"].append((okg, ar[0][1]))
                        # cut: the iterated grid is <arange>[<arange> <= end]
                        cut = False
                        if itv is not None and isinstance(itv.base, Opaque) and itv.base.text == ar[0][1] and isinstance(itv.key, Rel):
                            k = itv.key
                            lo, hi = (k.a, k.b) if k.op == "LtE" else (k.b, k.a) if k.op == "GtE" else (None, None)
                            try:
                                cut = isinstance(lo, Opaque) and lo.text == ar[0][1] and is_zero(resolve_pieces(ex, ex.S(hi), none) - want["end_time"])
                            except ExtractError:
                                cut = False
                        overshoots = is_zero(u_ - want["end_time"] - want["timestep"]) and not cut
                        if it_text is not None:          # (an unidentified time loop is already reported by the clock rule)
                            fact["cut"].append((not overshoots, it_text))

        def all_ok(k):
            return bool(fact[k]) and all(x[0] for x in fact[k])

        def first_bad(k):
            return next((str(x[1]) for x in fact[k] if not x[0]), None)
        chk.expect(seen == len(outs) and seen > 0, "R-C20-2", "expected_demand calls demand_timeseries_list.at", loc(ed), found="%d of %d paths" % (seen, len(outs)))
        chk.expect(all_ok("clock"), "R-C20-2", "expected_demand evaluates demands at time + pattern_start (the simulator's clock)", loc(ed),
                   "WNTRSimulator requests demand_timeseries_list.at(sim_time + pattern_start); the metric must use the same clock to match the delivered demand",
                   expected="<time of the grid> + wn.options.time.pattern_start", found=first_bad("clock"))
        chk.expect(all_ok("mult"), "R-C20-2", "expected_demand applies the global demand multiplier", loc(ed), found=first_bad("mult"))
        chk.expect(all_ok("cat"), "R-C20-2", "expected_demand forwards the category filter", loc(ed), found=first_bad("cat"))
        chk.expect(all_ok("grid") and (not fact["index"] or all_ok("index")), "R-C20-2", "expected_demand covers start_time..end_time inclusive in steps of timestep", loc(ed),
                   "the demands are evaluated on np.arange(start, end + step, step) and the table is indexed by the same times", found=first_bad("grid") or first_bad("index"))
        chk.expect(all_ok("defaults"), "R-C20-2", "expected_demand defaults: 0 .. duration every report_timestep", loc(ed), found=first_bad("defaults"))
        # other call sites in the package outside wntr/sim (wntr/sim is C01's rule)
        extra = 0
        for rel in repo.modules("wntr"):
            if rel.startswith("wntr/sim/") or rel == HYDM:
                continue
            for c in calls(repo.tree(rel), attr="at"):
                if isinstance(c.func.value, ast.Attribute) and c.func.value.attr == "demand_timeseries_list":
                    extra += 1
                    chk.expect("pattern_start" in unparse(c.args[0]) if c.args else False, "R-C20-2", "%s evaluates demands at time + pattern_start" % rel, loc(rel, c), found=unparse(c)[:100])
        aed = repo.func(HYDM, "average_expected_demand")
        chk.fn(aed)
        ed_params = [a.arg for a in ed.args.args]
        ex = MX(call_hook=pandas_hook)
        outs = [x for x in ex.run(aed) if not x.raised]
        okavg, okcat, okmean, found_avg = bool(outs), bool(outs), bool(outs), None
        terms = []          # (value, guarded, pattern variable bound by iterating wn.patterns())
        left_out = []
        consts_ok = bool(outs)
        for o in outs:
            cs_ = ev_calls(o, "expected_demand")
            lc = ev_calls(o, "_lcml") or [c for c in ev_calls(o, "reduce") if c[2][1] and ex.text(c[2][1][0]) == "_lcm"]
            if not cs_ or not lc:
                okavg = okcat = okmean = consts_ok = False
                continue
            b = bind_args(ed_params, cs_[0][2][1], cs_[0][2][2])
            found_avg = [str(b.get(k)) for k in ("start_time", "end_time", "timestep")]
            try:
                start, end, step = ex.S(b.get("start_time")), ex.S(b.get("end_time")), ex.S(b.get("timestep"))
                span = sp.simplify(end - start + step)
                lcmv = [s for s in span.free_symbols]
                span = span.replace(sp.Function("int"), lambda x: x)
                okavg = okavg and is_zero(step - ex.sym("wn.options.time.pattern_timestep")) and len(lcmv) == 1 and lcmv[0].name == lc[0][1] and span == lcmv[0]
            except ExtractError:
                okavg = False
            okcat = okcat and b.get("category") == Opaque("category")
            try:
                okmean = okmean and o.ret is not None and is_zero(ex.S(o.ret) - sp.Function("MEAN_axis0")(ex.sym(cs_[0][1])))
            except ExtractError:
                okmean = False
            lst = lc[0][2][1][-1]
            if not isinstance(lst, list):
                raise ExtractError("average_expected_demand: list of pattern periods not found (argument of %s)" % lc[0][1][:40])
            pvars = {nm: it for ev_ in o.events if ev_[0] == "loop" for nm, i, it in loop_vars([(ev_[1], ev_[2])]) if it == "wn.patterns()" and i == 1}
            cons = []
            for item in lst:
                if isinstance(item, (int, float, sp.Number)):
                    cons.append(int(item) if item == int(item) else float(item))
                    continue
                if isinstance(item, Comp):
                    val, cnds = item.elt, [(c, True) for c in item.conds]
                    pv = {nm: it for nm, i, it in loop_vars([(item.target, item.iter)]) if it == "wn.patterns()" and i == 1}
                else:
                    val, cnds, pv = item, o.conds, pvars
                try:
                    val = ex.S(val)
                except ExtractError:
                    val = sp.Symbol("?" + ex.text(val))
                var = [nm for nm in pv if val.has(ex.sym("len(%s.multipliers)" % nm))]
                guarded = False
                if var:
                    for t, v in cnds:
                        ln = "len(%s.multipliers)" % var[0]
                        if ln in t:
                            r = tv_env(t, {ln: 0})
                            if r is not None and r != bool(v):
                                guarded = True          # the path cannot be taken by a pattern of length 0
                terms.append((val, guarded, var[0] if var else None))
            consts_ok = consts_ok and cons == [24 * 3600]
            # every non-empty pattern of the model contributes: on each way through the loop over wn.patterns(), the conditions that mention the loop's variables may
            # only separate empty from non-empty patterns -- a path that appends a term must be open to every non-empty pattern, a path that appends none
            # must be impossible for a non-empty pattern
            lvs = {}
            for ev_ in o.events:
                if ev_[0] == "loop":
                    for nm, i, it in loop_vars([(ev_[1], ev_[2])]):
                        if it == "wn.patterns()":
                            lvs[nm] = i
            for item in lst:
                if isinstance(item, Comp):
                    for nm, i, it in loop_vars([(item.target, item.iter)]):
                        if it == "wn.patterns()":
                            lvs[nm] = i
            pat_terms = [item for item in lst if not isinstance(item, (int, float, sp.Number))]

            def about_loop(t):
                return any(re.search(r"(?<![\w.])%s\b" % re.escape(nm), t) for nm in lvs)

            def length_only(t, v, pvar):
                ln = "len(%s.multipliers)" % pvar
                return ln in t and all(tv_env(t, {ln: k}) == bool(v) for k in (1, 2, 7, 24))
            pvar_ = [nm for nm, i in lvs.items() if i == 1]
            if lvs and pvar_:
                for item in (pat_terms or [None]):
                    cnds = [(c, True) for c in item.conds] if isinstance(item, Comp) else [(t, v) for t, v in o.conds if about_loop(t)]
                    if item is None:
                        # no term on this path: some condition must exclude every non-empty pattern
                        ln = "len(%s.multipliers)" % pvar_[0]
                        shut = any(ln in t and all(tv_env(t, {ln: k}) not in (None, bool(v)) for k in (1, 2, 7, 24)) for t, v in cnds)
                        if cnds and not shut:
                            left_out.append("a pattern is skipped when %s" % " and ".join(("" if v else "not ") + "(%s)" % t for t, v in cnds))
                    else:
                        extra = [(t, v) for t, v in cnds if not length_only(t, v, pvar_[0])]
                        if extra:
                            left_out.append("a pattern counts only when %s" % " and ".join(("" if v else "not ") + "(%s)" % t for t, v in extra))
        chk.expect(not left_out and bool(outs), "R-C20-2", "every non-empty pattern of the model enters the common period", loc(aed),
                   "the averaging window must be a whole number of periods of every pattern that can shape a demand; usage records are not a complete account of that (default pattern, "
                   "TimeSeries re-pointed directly), so no filter other than `the pattern has multipliers` may decide which patterns count", expected="no condition on the loop over wn.patterns() "
                   "other than len(multipliers) > 0", found=sorted(set(left_out))[:3] or None)
        chk.expect(okavg, "R-C20-2", "average_expected_demand averages over exactly one common period (lcm of all pattern lengths and 24 h) in steps of pattern_timestep", loc(aed), found=found_avg)
        chk.expect(okcat, "R-C20-2", "average_expected_demand forwards the category", loc(aed))
        pt = ex.sym("wn.options.time.pattern_timestep")
        okterms = bool(terms) and all(var is not None and is_zero(val - ex.sym("len(%s.multipliers)" % var) * pt) for val, g_, var in terms)
        chk.expect(okterms and consts_ok, "R-C20-2", "the common period is built from every pattern's length (n * pattern_timestep) and 24 h", loc(aed),
                   found=[str(t[0]) for t in terms][:3])
        chk.expect(okmean, "R-C20-2", "average_expected_demand is the mean over time", loc(aed))

    # ---------------------------------------------------------------- R-C20-3 efficiency convention
    with chk.part("R-C20-3 efficiency convention"):
        # AST pattern match, nothing evaluated: only the immediate parent BinOp of each load of global_efficiency (or of a single-assignment temporary holding
        # it) is inspected, for a literal 100 / 100.0 / 0.01; a use that is not a direct BinOp operand is skipped
        nuse = 0
        for rel in repo.modules("wntr/metrics"):
            t = repo.tree(rel)
            for n in ast.walk(t):
                if isinstance(n, ast.Attribute) and n.attr == "global_efficiency" and isinstance(n.ctx, ast.Load):
                    fn = n
                    while fn is not None and not isinstance(fn, ast.FunctionDef):
                        fn = getattr(fn, "_parent", None)
                    uses = [n]
                    p = getattr(n, "_parent", None)
                    if isinstance(p, ast.Assign) and p.value is n and len(p.targets) == 1 and isinstance(p.targets[0], ast.Name) and fn is not None:
                        # read once into a temporary: the arithmetic uses of the temporary are the uses of the option
                        tmp = p.targets[0].id
                        if sum(1 for m in ast.walk(fn) if isinstance(m, ast.Name) and m.id == tmp and isinstance(m.ctx, ast.Store)) == 1:
                            uses = [m for m in ast.walk(fn) if isinstance(m, ast.Name) and m.id == tmp and isinstance(m.ctx, ast.Load)]
                    for u in uses:
                        p = getattr(u, "_parent", None)
                        if not isinstance(p, ast.BinOp):
                            continue
                        nuse += 1
                        okp = (isinstance(p.op, ast.Div) and p.left is u and const(p.right) in (100, 100.0)) or (isinstance(p.op, ast.Mult) and const(p.right if p.left is u else p.left) == 0.01)
                        shown = norm(p) if u is n else norm(p).replace(unparse(u), unparse(n))
                        chk.expect(okp, "R-C20-3", "%s: global_efficiency (a percentage) is divided by 100 before use [%s]" % (fn.name if fn else rel, shown[:70]), loc(rel, u),
                                   "options.energy.global_efficiency = 75 means 75 %; using the raw value makes the power 100 times too small", expected="global_efficiency / 100", found=shown)
        chk.floor("R-C20-3", 3, count=nuse)

    # ---------------------------------------------------------------- R-C20-4 formulas
    with chk.part("R-C20-4 formulas"):
        def head_gain_ok(ex, v, lvars):
            """v == head at <pump>.end_node_name - head at <pump>.start_node_name for a pump variable bound by the enclosing loop"""
            for nm in lvars:
                if is_zero(v - (ex.sym("head.loc[(:, %s.end_node_name)]" % nm) - ex.sym("head.loc[(:, %s.start_node_name)]" % nm))):
                    return True
            return False

        pp = repo.func(ECON, "pump_power")
        chk.fn(pp)
        ex = MX(call_hook=pandas_hook)
        outs = [o for o in ex.run(pp) if not o.raised]
        okp = False
        okh = None
        for o in outs:
            if o.ret is None:
                continue
            r = ex.S(o.ret)
            st = [e for e in o.events if e[0] == "store" and len(e) > 5 and e[5] and e[5][-1][1] == "wn.pumps()" and isinstance(e[2], sp.Basic)]
            hsyms = set()
            for e in st:
                base = e[6]
                if isinstance(base, Opaque) and base.text.endswith(".loc"):
                    hsyms.add(ex.sym(base.text[:-4]))
                elif isinstance(base, Opaque):
                    hsyms.add(ex.sym(base.text))
            esyms = set()
            for c in ev_calls(o, "pd.DataFrame"):
                data = bind_args(["data", "index", "columns"], c[2][1], c[2][2]).get("data")
                if isinstance(data, dict) and data:
                    esyms.add(ex.sym(c[1]))
            okp = okp or any(is_zero(r - 9810 * h * ex.sym("flowrate") / e_) for h in hsyms for e_ in esyms if h in r.free_symbols and e_ in r.free_symbols)
            if st:
                v = ex.S(st[0][2])
                okh = head_gain_ok(ex, v, [nm for nm, i, it in loop_vars(st[0][5][-1:])])
                chk.expect(okh, "R-C20-4", "pump_power: head gain = head at the pump's end node - head at its start node", loc(pp), found=str(v))
        if okh is None:
            chk.bad("R-C20-4", "pump_power: head gain = head at the pump's end node - head at its start node", loc(pp), found="no per-pump store located")
        chk.expect(okp, "R-C20-4", "pump_power = 1000 * 9.81 * head gain * flow / efficiency", loc(pp), found=str(outs[0].ret)[:200] if outs else None)
        pe = repo.func(ECON, "pump_energy")
        ex = MX()
        o = ex.run(pe)[0]
        pc_ = [c for c in ev_calls(o, "pump_power") if [ex.text(x) for x in c[2][1]] + ["%s=%s" % (k, ex.text(v)) for k, v in c[2][2].items() if ex.text(v) != k] == [a.arg for a in pp.args.args][:len(c[2][1])]
               and len(c[2][1]) + len(c[2][2]) == len(pp.args.args)]
        chk.expect(bool(pc_) and o.ret is not None and is_zero(ex.S(o.ret) - ex.sym(pc_[0][1]) * ex.sym("wn.options.time.report_timestep")), "R-C20-4",
                   "pump_energy = pump_power * report_timestep (the spacing of the result rows)", loc(pe), found=str(o.ret))
        pc = repo.func(ECON, "pump_cost")
        chk.fn(pc)
        ex = MX()
        allp = ex.run(pc)
        oks = [o for o in allp if not o.raised and o.ret is not None]
        chk.expect(bool(oks) and all(len(ex.S(o.ret).free_symbols) == 2 and ex.sym("energy") in ex.S(o.ret).free_symbols and is_zero(sp.diff(ex.S(o.ret), ex.sym("energy"), 2)) and ex.S(o.ret).subs(ex.sym("energy"), 0) == 0 for o in oks), "R-C20-4",
                   "pump_cost = energy * price", loc(pc), found=str(oks[0].ret) if oks else None)
        # which price: truth table over the None-ness of (own price, own pattern, global pattern), no demand charge
        pv = sorted({nm for o in allp for ev_ in o.events if ev_[0] == "loop" for nm, i, it in loop_vars([(ev_[1], ev_[2])]) if it == "wn.pumps()" and i == 1})
        if len(pv) != 1:
            raise ExtractError("pump_cost: loop over wn.pumps() not found")
        P, Q, G, D = pv[0] + ".energy_price", pv[0] + ".energy_pattern", "wn.options.energy.global_pattern", "wn.options.energy.demand_charge"
        badrows = []
        for pn in (True, False):
            for qn in (True, False):
                for gn in (True, False):
                    none = {P: pn, Q: qn, G: gn, D: True}
                    paths = [o for o in allp if consistent(o.conds, none)]
                    want = "raise" if not (qn and gn) else "wn.options.energy.global_price" if pn else P
                    got = set()
                    for o in paths:
                        if o.raised:
                            got.add("raise" if "NotImplementedError" in o.raised else o.raised[:40])
                            continue
                        elts = set()
                        if o.ret is not None:
                            for s in ex.S(o.ret).free_symbols:
                                for c in ev_calls(o, "pd.DataFrame"):
                                    data = bind_args(["data", "index", "columns"], c[2][1], c[2][2]).get("data")
                                    if c[1] == s.name and isinstance(data, dict):
                                        for k, v in data.items():
                                            e_ = v.elt if isinstance(v, Comp) else v
                                            if isinstance(e_, sp.Basic):
                                                e_ = pick_piece(ex, e_, none)
                                            elts.add(ex.text(e_) if not isinstance(e_, sp.Basic) else str(e_))
                        got.add(" / ".join(sorted(elts)) or "<no price>")
                    if got != {want}:
                        badrows.append(("price %s, pattern %s, global pattern %s" % tuple("None" if x else "set" for x in (pn, qn, gn)), sorted(got), want))
        chk.expect(not badrows, "R-C20-4", "pump_cost uses the pump's own price if set, else the global price", loc(pc),
                   "decided for each of the 8 combinations of (energy_price, energy_pattern, global_pattern) being None / set; patterns are not supported and must raise; "
                   "a price of 0.0 is a price (only None falls back to the global price)", expected="own price if not None else global price", found=badrows[:3])
        pop = repo.func(MISC, "population")
        ex = MX(call_hook=pandas_hook)
        o = ex.run(pop)[0]
        ac = ev_calls(o, "average_expected_demand")
        want = sp.Function("ROUND")(ex.sym(ac[0][1] if ac and [ex.text(x) for x in ac[0][2][1]] == ["wn"] and not ac[0][2][2] else "average_expected_demand(wn)") / ex.sym("R"))
        chk.expect(is_zero(ex.S(o.ret) - want), "R-C20-4", "population = round(average expected demand / R)", loc(pop), found=str(o.ret))
        wsa = repo.func(HYDM, "water_service_availability")
        ex = MX(call_hook=pandas_hook)
        o = ex.run(wsa)[0]
        quot = ex.sym("demand") / ex.sym("expected_demand")
        got_ = ex.S(o.ret)
        chk.expect(is_zero(got_ - quot) or is_zero(got_ - sp.Function("INF_TO_NAN")(quot)), "R-C20-4", "water_service_availability = demand / expected demand", loc(wsa), found=str(o.ret))
        chk.expect(is_zero(got_ - sp.Function("INF_TO_NAN")(quot)) or ".where(" in unparse(wsa), "R-C20-4", "water_service_availability is NaN (not +-inf) where the expected demand is 0, as documented",
                   loc(wsa), "demand.div(expected_demand) is +-inf for x / 0 with x != 0 and NaN only for 0 / 0; averages over junctions or time then become inf", found=str(o.ret))
    # ---------------------------------------------------------------- R-C20-6 time grid and period of the expected-demand metrics
    with chk.part("R-C20-6 time grid and period of the expected-demand metrics"):
        if fact["cut"] or all_ok("clock"):
            chk.expect(all_ok("cut"), "R-C20-6", "expected_demand evaluates no time beyond end_time", loc(ed),
                       "np.arange(start, end + step, step) includes one step past end_time whenever the span is not a multiple of the timestep: the table has a row the simulator never reports "
                       "(duration 10 h, report step 3 h: 43200 s > 36000 s)", expected="grid cut at end_time", found=first_bad("cut"))
        chk.expect(bool(terms) and all(g_ for v_, g_, var in terms), "R-C20-6", "average_expected_demand leaves patterns without multipliers out of the common period", loc(aed),
                   "an empty pattern is legal (the constant 1.0); its length 0 makes lcm(...) = 0, the averaging window empty and every average NaN", expected="if len(pattern.multipliers) > 0",
                   found=[str(v_) for v_, g_, var in terms if not g_][:2])
        td = repo.func(HYDM, "todini_index")
        chk.fn(td)
        ex = MX(call_hook=pandas_hook)
        o = ex.run(td)[0]
        env = {k: Opaque(k) for k in ("head", "pressure", "demand", "flowrate", "wn", "Pstar")}
        J = "wn.junction_name_list"
        refx = SymExec(call_hook=pandas_hook)
        refx.syms = ex.syms
        Pout = "(demand.loc[:,%s]*head.loc[:,%s])" % (J, J)
        Pexp = "(demand.loc[:,%s]*(Pstar+(head.loc[:,%s]-pressure.loc[:,%s])))" % (J, J, J)
        Pres = "(-demand.loc[:,wn.reservoir_name_list]*head.loc[:,wn.reservoir_name_list])"
        want = ref(refx, "(%s.sum(axis=1) - %s.sum(axis=1))" % (Pout, Pexp), env)
        got = ex.S(o.ret)
        num, den = sp.fraction(sp.together(got))
        chk.expect(is_zero(num - want) or is_zero(num + want), "R-C20-4", "todini_index numerator = sum(demand*head) - sum(demand*(Pstar + elevation)) over junctions", loc(td), found=str(num)[:200])
        wres = ref(refx, "%s.sum(axis=1)" % Pres, env)
        wexp = ref(refx, "%s.sum(axis=1)" % Pexp, env)
        rest = sp.simplify(den - wres + wexp) if is_zero(num - want) else sp.simplify(-den - wres + wexp)
        okpump = isinstance(rest, sp.Function) and rest.func.__name__.startswith("SUM_axis") and rest.args[0].has(sp.Abs) and rest.args[0].has(ex.sym("flowrate.loc[(:, wn.pump_name_list)]"))
        chk.expect(okpump, "R-C20-4", "todini_index denominator = reservoir power + pump power (flow * |head gain|) - required power", loc(td), found=str(den)[:250])
        hs = [e for e in o.events if e[0] == "store" and len(e) > 5 and e[5] and e[5][-1][1] == "wn.pumps()" and isinstance(e[2], sp.Basic)]
        chk.expect(bool(hs) and head_gain_ok(ex, ex.S(hs[0][2]), [nm for nm, i, it in loop_vars(hs[0][5][-1:])]) and
                   any(ex.text(hs[0][7]) == nm and i == 0 for nm, i, it in loop_vars(hs[0][5][-1:])), "R-C20-4", "todini_index pump head gain = end head - start head", loc(td),
                   found=str(hs[0][2]) if hs else None)
        mri = repo.func(HYDM, "modified_resilience_index")
        ex = MX(call_hook=pandas_hook)
        seenm = set()
        for o in ex.run(mri):
            if o.raised or o.ret is None:
                continue
            cT, cF = consistent_env(o.conds, {"per_junction": True}), consistent_env(o.conds, {"per_junction": False})
            if not cT and not cF:
                continue        # infeasible combination of the two tests of the flag
            pj = [True] if cT and not cF else [False] if cF and not cT else []
            env = {k: Opaque(k) for k in ("pressure", "elevation", "Pstar", "demand")}
            refx = SymExec(call_hook=pandas_hook)
            refx.syms = ex.syms
            if pj and pj[0]:
                want = ref(refx, "((pressure+elevation) - (Pstar+elevation))/(Pstar+elevation)", env)
                seenm.add("per")
            elif pj:
                want = ref(refx, "((demand*(pressure+elevation)).sum(axis=1) - (demand*(Pstar+elevation)).sum(axis=1))/(demand*(Pstar+elevation)).sum(axis=1)", env)
                seenm.add("sys")
            else:
                continue
            chk.expect(is_zero(ex.S(o.ret) - want), "R-C20-4", "modified_resilience_index (%s) = (available - required power) / required power" % ("per junction" if pj[0] else "system"), loc(mri), found=str(o.ret)[:200])
        chk.expect(seenm == {"per", "sys"}, "R-C20-4", "modified_resilience_index: both modes located", loc(mri), found=sorted(seenm))
        tcap = repo.func(HYDM, "tank_capacity")
        ex = MX()
        o = ex.run(tcap)[0]
        st = [e for e in o.events if e[0] == "store" and len(e) > 5 and e[5] and isinstance(e[2], sp.Basic)]
        okt = False
        if st:
            lv = loop_vars(st[0][5][-1:])
            it = st[0][5][-1][1]
            # the tank object of the iteration: 2nd loop variable over the (name, tank) registry iterator, or wn.get_node(name) over the name list
            pair = None
            if it == "wn.tank_name_list" and len(lv) == 1:
                pair = (lv[0][0], "wn.get_node(%s)" % lv[0][0])
            elif it in ("wn.tanks()", "wn.nodes(Tank)", "wn.nodes(wntr.network.Tank)", "wn.nodes(wntr.network.elements.Tank)") and len(lv) == 2:
                pair = (lv[0][0], lv[1][0])
            if pair:
                nm, tk = pair
                okt = ex.text(st[0][7]) == nm and is_zero(ex.S(st[0][2]) - ex.sym("%s.get_volume(pressure[%s])" % (tk, nm)) / ex.sym("%s.get_volume(%s.max_level)" % (tk, tk)))
        chk.expect(okt, "R-C20-4", "tank_capacity = V(level) / V(max_level), level = tank pressure", loc(tcap), found=str(st[0][2]) if st else None)

    # ---------------------------------------------------------------- annual totals: look-ups (R-C20-5) and the maximum pump power (R-C20-4)
    with chk.part("annual totals: look-ups (R-C20-5) and the maximum pump power (R-C20-4)"):
        anc = repo.func(ECON, "annual_network_cost")
        ghg = repo.func(ECON, "annual_ghg_emissions")
        chk.fn(anc, ghg)
        PIPES, TANKS, VALVES = ("wn.links(Pipe)", "wn.pipes()"), ("wn.nodes(Tank)", "wn.tanks()"), ("wn.links(Valve)", "wn.valves()")
        tables = ("tank_cost", "pipe_cost", "prv_cost", "pump_cost", "pipe_ghg")

        def given(txt, test, st):     # the tables are passed in: keep them symbolic
            for t in tables:
                r = tv_text(txt, {t: False})
                if r is not None:
                    return r
            return None
        nsel = 0
        okpm, foundpm = None, None
        sums_ok, sums_found = True, None
        for fn, label in ((anc, "annual_network_cost"), (ghg, "annual_ghg_emissions")):
            ex = MX(call_hook=pandas_hook, assume=lambda t: {"positive": True}, test_hook=given)
            paths = [o for o in ex.run(fn) if not o.raised and o.ret is not None]
            if not paths:
                raise ExtractError("%s: no returning path" % label)
            seen_sel = {}
            seen_kinds = set()
            for o in paths:
                lk = lookups(ex, o, ex.S(o.ret))
                walked = [ev_[2] for ev_ in o.events if ev_[0] == "loop"]
                got = []
                eff = ex.sym("wn.options.energy.global_efficiency")
                for d in lk:
                    var2 = [nm for nm, i, it in d["vars"] if i == 1]
                    v2 = var2[0] if var2 else "?"
                    tab, val, lp = d["table"], d["value"], d["loop"]
                    holds = lambda word: any(word in t and v for t, v in o.conds)        # the path is restricted by a test naming the element class
                    kind = None
                    okv = False
                    if tab in ("pipe_cost", "pipe_ghg"):
                        kind = "pipe"
                        okv = tab == ("pipe_cost" if fn is anc else "pipe_ghg") and lp in PIPES and val is not None and is_zero(val - ex.sym(v2 + ".diameter")) and is_zero(d["mult"] - ex.sym(v2 + ".length"))
                    elif tab == "tank_cost":
                        kind = "tank"
                        okv = lp in TANKS and val is not None and val.has(ex.sym(v2 + ".max_level")) and d["mult"] == 1
                    elif tab == "pump_cost" and val is not None and any(".get_head_curve_coefficients()" in s_.name for s_ in val.free_symbols):
                        kind = "head pump"
                        okv = d["mult"] == 1 and (lp == "wn.head_pumps()" or (lp == "wn.pumps()" and (holds("HeadPump") or holds("'HEAD'"))))
                        A, B_, C = [ex.sym("%s.get_head_curve_coefficients()[%d]" % (v2, i)) for i in range(3)]
                        q = sp.exp(sp.log(A / (B_ * (C + 1))) / C)
                        wantp = sp.Rational("9.81") * 1000 * q * (A - B_ * q ** C)
                        okpm = (okpm is not False) and (is_zero(val * eff - wantp) or is_zero(val * eff / 100 - wantp) or is_zero(val - wantp))
                        foundpm = str(val)[:160]
                    elif tab == "pump_cost":
                        kind = "power pump"
                        okv = d["mult"] == 1 and (lp == "wn.power_pumps()" or (lp == "wn.pumps()" and (holds("PowerPump") or holds("'POWER'")))) and val is not None and \
                            (is_zero(val * eff - ex.sym(v2 + ".power")) or is_zero(val * eff / 100 - ex.sym(v2 + ".power")))
                    elif tab == "prv_cost":
                        kind = "PRV"
                        vt = v2 + ".valve_type"
                        isprv = lp == "wn.prvs()" or (any(tv_env(t, {vt: "PRV"}) is not None for t, v in o.conds) and consistent_env(o.conds, {vt: "PRV"}) and not consistent_env(o.conds, {vt: "TCV"}))
                        okv = (lp in VALVES or lp == "wn.prvs()") and val is not None and is_zero(val - ex.sym(v2 + ".diameter")) and d["mult"] == 1 and isprv
                    got.append(kind or d["text"][:40])
                    key = kind or d["text"][:40]
                    seen_kinds.add(key)
                    prev = seen_sel.get(key, (True, True, ""))
                    seen_sel[key] = (prev[0] and d["sel_ok"], prev[1] and okv, d["how"] or str(val)[:80] + " * " + str(d["mult"]) + " in " + str(lp))
                if fn is anc:
                    # every element class whose own iterator the path walks contributes exactly one term; nothing else is added
                    need = ["tank"] * any(w in TANKS for w in walked) + ["pipe"] * any(w in PIPES for w in walked) + ["head pump"] * ("wn.head_pumps()" in walked) + ["power pump"] * ("wn.power_pumps()" in walked)
                    extra_ = [k for k in got if k not in ("tank", "pipe", "head pump", "power pump", "PRV")]
                    if extra_ or len(set(got)) != len(got) or any(k not in got for k in need):
                        sums_ok, sums_found = False, sorted(got)
                else:
                    chk.expect(sorted(got) == ["pipe"] and seen_sel.get("pipe", (0, 0))[1], "R-C20-5", "annual_ghg_emissions adds emission factor * length per pipe", loc(ghg), found=seen_sel.get("pipe", ("", "", sorted(got)))[2])
            if fn is anc:
                sums_ok = sums_ok and all(k in seen_sel and seen_sel[k][1] for k in ("tank", "pipe", "head pump", "power pump", "PRV"))
                chk.expect(sums_ok, "R-C20-5", "annual_network_cost adds tank + pipe(cost * length) + pump + PRV costs", loc(anc),
                           "each term is the cost looked up for the element's own size (construction volume, diameter, maximum power / efficiency, PRV diameter); only pipes are costed per metre",
                           found=sums_found or [(k, v[2]) for k, v in seen_sel.items() if not v[1]][:3] or sorted(seen_sel))
            for k, v in sorted(seen_sel.items()):
                nsel += 1
                chk.expect(v[0], "R-C20-5", "%s selects the nearest table entry by argmin |index - value| [%s]" % (label, k), loc(fn), expected="table.iloc[np.argmin(|table.index - value|)]", found=v[2])
        chk.expect(okpm is True, "R-C20-4", "maximum pump power = g*rho*q*(A - B*q^C) at q = (A/(B*(C+1)))^(1/C) (before dividing by the efficiency)", loc(anc), found=foundpm)
        chk.floor("R-C20-4", 12)

    # ---------------------------------------------------------------- R-C20-5 documented tables
    with chk.part("R-C20-5 documented tables"):
        doc = ast.get_docstring(anc) or ""
        close = lambda a, b, tol: len(a) == len(b) and all(abs(x - y) <= tol for x, y in zip(a, b))
        for var, header, unit_in in (("tank_cost", "Volume (m3)", False), ("pipe_cost", "Annual Cost ($/m/yr)", True), ("pump_cost", "Maximum power (W)", False)):
            rows = rst_table(doc, header)
            vals = default_table(repo, ECON, anc, var)
            if rows is None or vals is None:
                chk.bad("R-C20-5", "annual_network_cost: table and defaults for %s located" % var, loc(anc), found=(rows is not None, vals is not None))
                continue
            idx, cost = vals
            doc_idx = [r[0] for r in rows]
            doc_cost = [r[-1] for r in rows]
            if unit_in:
                chk.expect(cost == doc_cost and close(idx, [x * 0.0254 for x in doc_idx], 1e-9), "R-C20-5", "annual_network_cost default %s equals the table in its docstring" % var, loc(anc),
                           expected=list(zip(doc_idx, doc_cost))[:4], found=list(zip(idx, cost))[:4])
                chk.expect(close(idx, [x * 0.0254 for x in doc_idx], 1e-9), "R-C20-5", "%s diameters are converted from inches to metres (x 0.0254)" % var, loc(anc), found=idx[:4])
                chk.expect(all(abs(r[0] * 0.0254 - r[1]) < 6e-4 for r in rows), "R-C20-5", "%s docstring metre column = inches * 0.0254" % var, loc(anc))
            else:
                chk.expect(idx == doc_idx and cost == doc_cost, "R-C20-5", "annual_network_cost default %s equals the table in its docstring" % var, loc(anc),
                           expected=list(zip(doc_idx, doc_cost))[:4], found=list(zip(idx, cost))[:4])
        # the PRV table is the second "Annual Cost ($/m/yr)" table
        parts = doc.split("prv_cost :")
        if len(parts) == 2:
            rows = rst_table(parts[1], "Annual Cost ($/m/yr)")
            vals = default_table(repo, ECON, anc, "prv_cost")
            okv = rows is not None and vals is not None and close(vals[0], [r[0] * 0.0254 for r in rows], 1e-9) and vals[1] == [r[-1] for r in rows]
            chk.expect(okv, "R-C20-5", "annual_network_cost default prv_cost equals the table in its docstring", loc(anc))
        rows = rst_table(ast.get_docstring(ghg) or "", "Diameter (mm)")
        vals = default_table(repo, ECON, ghg, "pipe_ghg")
        okg = rows is not None and vals is not None and vals[1] == [r[-1] for r in rows] and close([x * 1000 for x in vals[0]], [r[0] for r in rows], 0.6)
        chk.expect(okg, "R-C20-5", "annual_ghg_emissions default table equals the table in its docstring (inches * 25.4 = mm)", loc(ghg))
        chk.floor("R-C20-5", 6 + 5, count=nsel + 6)


WITNESSES = [
    dict(name="unused-patterns-left-out-of-the-period", file=HYDM, old="    for name, pattern in wn.patterns():\n        if len(pattern.multipliers) > 0:  # an empty", new="    unused = wn.patterns.unused()\n    for name, pattern in wn.patterns():\n        if name in unused:\n            continue\n        if len(pattern.multipliers) > 0:  # an empty", rule="R-C20-2"),
    dict(name="period-comprehension-with-name-filter", file=HYDM, old="    for name, pattern in wn.patterns():\n        if len(pattern.multipliers) > 0:  # an empty pattern is the constant 1.0 and has no period\n            L.append(len(pattern.multipliers)*wn.options.time.pattern_timestep)\n",
         new="    L += [len(pattern.multipliers)*wn.options.time.pattern_timestep for name, pattern in wn.patterns() if len(pattern.multipliers) > 0 and not name.startswith('_')]\n", rule="R-C20-2"),
    dict(name="quiet-period-comprehension", file=HYDM, silent=True, old="    for name, pattern in wn.patterns():\n        if len(pattern.multipliers) > 0:  # an empty pattern is the constant 1.0 and has no period\n            L.append(len(pattern.multipliers)*wn.options.time.pattern_timestep)\n",
         new="    L += [len(pattern.multipliers)*wn.options.time.pattern_timestep for name, pattern in wn.patterns() if len(pattern.multipliers) > 0]\n"),
    dict(name="quiet-period-loop-early-continue", file=HYDM, silent=True, old="        if len(pattern.multipliers) > 0:  # an empty pattern is the constant 1.0 and has no period\n            L.append(len(pattern.multipliers)*wn.options.time.pattern_timestep)\n",
         new="        if len(pattern.multipliers) == 0:\n            continue\n        L.append(len(pattern.multipliers)*wn.options.time.pattern_timestep)\n"),
    dict(name="wsa-inf-for-zero-expected-demand", file=HYDM, old="    wsa = wsa.replace([np.inf, -np.inf], np.nan)  # expected demand 0: NaN, as documented\n", new="", rule="R-C20-4"),
    dict(name="expected-demand-overshoots-end-time", file=HYDM, old="    tsteps = tsteps[tsteps <= end_time]  # the last step does not pass end_time when the span is not a multiple of the timestep\n", new="", rule="R-C20-6"),
    dict(name="empty-pattern-zeroes-the-period", file=HYDM, old="        if len(pattern.multipliers) > 0:  # an empty pattern is the constant 1.0 and has no period\n            L.append(", new="        if True:\n            L.append(", rule="R-C20-6"),
    dict(name="energy-hydraulic-timestep", file=ECON, old="    energy = power * wn.options.time.report_timestep # J = Ws", new="    energy = power * wn.options.time.hydraulic_timestep # J = Ws", rule="R-C20-4"),
    dict(name="power-g", file=ECON, old="    power = 1000.0 * 9.81 * headloss * flowrate / efficiency", new="    power = 1000.0 * 9.8 * headloss * flowrate / efficiency", rule="R-C20-4"),
    dict(name="power-times-efficiency", file=ECON, old="headloss * flowrate / efficiency", new="headloss * flowrate * efficiency", rule="R-C20-4"),
    dict(name="table-entry", file=ECON, old="        cost =  [14020, 30640, 61210, 87460, 122420, 174930]", new="        cost =  [14020, 30640, 61210, 87640, 122420, 174930]", rule="R-C20-5"),
    dict(name="multiplier-dropped", file=HYDM, old="                       multiplier=wn.options.hydraulic.demand_multiplier, category=category))", new="                       category=category))", rule="R-C20-2"),
    dict(name="todini-pump-sign", file=HYDM, old="        (Pin_res.sum(axis=1) + Pin_pump.sum(axis=1) - Pexp.sum(axis=1))", new="        (Pin_res.sum(axis=1) - Pin_pump.sum(axis=1) - Pexp.sum(axis=1))", rule="R-C20-4"),
    dict(name="mri-denominator", file=HYDM, old="        mri = (Pout - Pexp)/Pexp", new="        mri = (Pout - Pexp)/Pout", rule="R-C20-4"),
    dict(name="tank-capacity-min", file=HYDM, old="        max_volume = tank.get_volume(tank.max_level)", new="        max_volume = tank.get_volume(tank.max_level) - tank.get_volume(tank.min_level)", rule="R-C20-4"),
    dict(name="population-no-round", file=MISC, old="    return pop.round()", new="    return pop", rule="R-C20-4"),
    dict(name="gcd-return-inside-loop", file=HYDM, old="    x,y=y,x % y\n  return x", new="    x,y=y,x % y\n    return x", rule="R-C20-1"),
    dict(name="pump-price-or-fallback", file=ECON, old="                price_dict[pump_name] = [pump.energy_price for i in time]",
         new="                price_dict[pump_name] = [pump.energy_price or wn.options.energy.global_price for i in time]", rule="R-C20-4"),
    dict(name="pump-price-global-pattern-ignored", file=ECON,
         old="            if wn.options.energy.global_pattern is None:\n                price_dict[pump_name] = [pump.energy_price for i in time]\n            else:\n"
             "                raise NotImplementedError('WNTR does not support price patterns yet.')\n",
         new="            price_dict[pump_name] = [pump.energy_price for i in time]\n", rule="R-C20-4"),
    dict(name="pmax-exponent", file=ECON, old="(A - B*(np.exp(np.log(A/(B*(C+1)))/C))**C)", new="(A - B*(np.exp(np.log(A/(B*(C+1)))/C))**(C+1))", rule="R-C20-4"),
    dict(name="pipe-cost-not-per-metre", file=ECON, old="pipe_cost.iloc[idx]*link.length", new="pipe_cost.iloc[idx]", rule="R-C20-5"),
    dict(name="prv-looked-up-by-pipe-index", file=ECON, old="np.abs(prv_cost.index - link.diameter)", new="np.abs(pipe_cost.index - link.diameter)", rule="R-C20-5"),
    dict(name="nearest-entry-argmax", file=ECON, old="idx = np.argmin([np.abs(pipe_ghg.index - link.diameter)])", new="idx = np.argmax([np.abs(pipe_ghg.index - link.diameter)])", rule="R-C20-5"),
    dict(name="demand-clock-without-pattern-start", file=HYDM, old="ts + wn.options.time.pattern_start, ", new="ts, ", rule="R-C20-2"),
    dict(name="period-without-24h", file=HYDM, old="    L = [24*3600]", new="    L = [12*3600]", rule="R-C20-2"),
    dict(name="average-over-junctions", file=HYDM, old="exp_demand.mean(axis=0)", new="exp_demand.mean(axis=1)", rule="R-C20-2"),
    dict(name="ghg-inches-conversion", file=ECON, old="# inches\n        diameter = np.array(diameter)*0.0254 # m", new="# inches\n        diameter = np.array(diameter)*0.0245 # m", rule="R-C20-5"),
    dict(name="cut-strictly-before-end-time", file=HYDM, old="tsteps = tsteps[tsteps <= end_time]", new="tsteps = tsteps[tsteps < end_time]", rule="R-C20-6"),
    dict(name="table-indexed-by-uncut-grid", file=HYDM, old="exp_demand = pd.DataFrame(index=tsteps, data=exp_demand)",
         new="exp_demand = pd.DataFrame(index=np.arange(start_time, end_time+timestep, timestep), data=exp_demand)", rule="R-C20-2"),
    dict(name="own-price-ignored", file=ECON, old="                price_dict[pump_name] = [pump.energy_price for i in time]",
         new="                price_dict[pump_name] = [wn.options.energy.global_price for i in time]", rule="R-C20-4"),
    dict(name="empty-pattern-guard-wrong-sense", file=HYDM, old="        if len(pattern.multipliers) > 0:", new="        if len(pattern.multipliers) >= 0:", rule="R-C20-6"),
    dict(name="every-valve-costed-as-prv", file=ECON, old="        if link.valve_type == 'PRV':", new="        if link.valve_type != 'GPV':", rule="R-C20-5"),
    dict(name="pipe-looked-up-by-length", file=ECON, old="np.abs(pipe_cost.index - link.diameter)", new="np.abs(pipe_cost.index - link.length)", rule="R-C20-5"),
    dict(name="gcd-single-step", file=HYDM, old="  while y:\n    if y<0:", new="  if y:\n    if y<0:", rule="R-C20-1"),
    dict(name="percent-through-temporary", file=ECON, old="            efficiency_dict[pump_name] = [wn.options.energy.global_efficiency/100.0 for i in time]",
         new="            e_ = wn.options.energy.global_efficiency\n            efficiency_dict[pump_name] = [e_/1.0 for i in time]", rule="R-C20-3"),
    # ---- behaviour-preserving variants that must stay quiet
    dict(name="quiet-expected-demand-dict-comprehension", file=HYDM, silent=True,
         old="    for name, junc in wn.junctions():\n        dem = []\n        for ts in tsteps:\n            dem.append(junc.demand_timeseries_list.at(ts + wn.options.time.pattern_start, \n"
             "                       multiplier=wn.options.hydraulic.demand_multiplier, category=category))\n        exp_demand[name] = dem \n",
         new="    exp_demand = {name: [junc.demand_timeseries_list.at(wn.options.time.pattern_start + ts, category, wn.options.hydraulic.demand_multiplier) for ts in tsteps] for name, junc in wn.junctions()}\n"),
    dict(name="quiet-lcm-floor-division-renamed", file=HYDM, silent=True, old="def _lcm(x,y):\n  return x*y / _gcd(x,y)", new="def _lcm(a, b):\n  g = _gcd(b, a)\n  return a // g * b"),
    dict(name="quiet-merged-pump-loops-augmented-sum-prv-guard", file=ECON, silent=True,
         old="    for link_name, link in wn.power_pumps():\n        Pmax = link.power\n", new="    for link_name, link in wn.pumps():\n        if not isinstance(link, PowerPump):\n            continue\n        Pmax = link.power\n",
         also=[("        if link.valve_type == 'PRV':\n            idx = np.argmin([np.abs(prv_cost.index - link.diameter)])\n            #print(link_name, link.diameter, prv_cost.iloc[idx])\n            network_cost = network_cost + prv_cost.iloc[idx]  ",
                "        if link.valve_type != 'PRV':\n            continue\n        nearest = np.argmin(np.abs(link.diameter - prv_cost.index))\n        network_cost += prv_cost.iloc[nearest]")]),
    dict(name="quiet-price-list-by-repetition-eq-none", file=ECON, silent=True, old="[pump.energy_price for i in time]", new="[pump.energy_price]*len(time)",
         also=[("        elif pump.energy_pattern is None:", "        elif pump.energy_pattern == None:")]),
    dict(name="quiet-mri-flag-compared-with-true", file=HYDM, silent=True, old="    if per_junction:\n        Pout = (pressure + elevation)", new="    if per_junction == True:\n        Pout = (pressure + elevation)"),
    dict(name="quiet-expected-demand-comprehension-hoisted-locals", file=HYDM, silent=True,
         old="        dem = []\n        for ts in tsteps:\n            dem.append(junc.demand_timeseries_list.at(ts + wn.options.time.pattern_start, \n"
             "                       multiplier=wn.options.hydraulic.demand_multiplier, category=category))\n        exp_demand[name] = dem \n",
         new="        demands = junc.demand_timeseries_list\n        mult = wn.options.hydraulic.demand_multiplier\n        offset = wn.options.time.pattern_start\n"
             "        exp_demand[name] = [demands.at(t + offset, multiplier=mult, category=category) for t in tsteps]\n"),
    dict(name="quiet-expected-demand-guard-clauses-for-defaults", file=HYDM, silent=True,
         old="    if start_time is None:\n        start_time = 0\n    if end_time is None:\n        end_time = wn.options.time.duration\n",
         new="    start_time = 0 if start_time is None else start_time\n    if end_time is not None:\n        pass\n    else:\n        end_time = wn.options.time.duration\n"),
    dict(name="quiet-period-list-renamed-early-continue", file=HYDM, silent=True,
         old="    L = [24*3600] # start with a 24 hour pattern\n    for name, pattern in wn.patterns():\n        if len(pattern.multipliers) > 0:  # an empty pattern is the constant 1.0 and has no period\n"
             "            L.append(len(pattern.multipliers)*wn.options.time.pattern_timestep)\n    lcm = int(_lcml(L))\n",
         new="    periods = [24*3600]\n    for _, pat in wn.patterns():\n        n = len(pat.multipliers)\n        if n == 0:\n            continue\n"
             "        periods.append(n*wn.options.time.pattern_timestep)\n    lcm = int(_lcml(periods))\n"),
    dict(name="quiet-period-list-comprehension", file=HYDM, silent=True,
         old="    L = [24*3600] # start with a 24 hour pattern\n    for name, pattern in wn.patterns():\n        if len(pattern.multipliers) > 0:  # an empty pattern is the constant 1.0 and has no period\n"
             "            L.append(len(pattern.multipliers)*wn.options.time.pattern_timestep)\n    lcm = int(_lcml(L))\n",
         new="    step = wn.options.time.pattern_timestep\n    periods = [24*3600] + [len(p.multipliers)*step for _, p in wn.patterns() if len(p.multipliers) != 0]\n    lcm = int(_lcml(periods))\n"),
    dict(name="quiet-gcd-renamed-and-restructured", file=HYDM, silent=True,
         old="def _gcd(x,y):\n  while y:\n    if y<0:\n      x,y=-x,-y\n    x,y=y,x % y\n  return x\n",
         new="def _gcd(a, b):\n    a, b = abs(a), abs(b)\n    while b != 0:\n        r = a % b\n        a = b\n        b = r\n    return a\n"),
    dict(name="quiet-pump-cost-guard-clauses", file=ECON, silent=True,
         old="        if pump.energy_price is None and pump.energy_pattern is None:\n            if wn.options.energy.global_pattern is None:\n"
             "                price_dict[pump_name] = [wn.options.energy.global_price for i in time]\n            else:\n"
             "                raise NotImplementedError('WNTR does not support price patterns yet.')\n        elif pump.energy_pattern is None:\n"
             "            if wn.options.energy.global_pattern is None:\n                price_dict[pump_name] = [pump.energy_price for i in time]\n            else:\n"
             "                raise NotImplementedError('WNTR does not support price patterns yet.')\n        else:\n"
             "            raise NotImplementedError('WNTR does not support price patterns yet.')\n",
         new="        if pump.energy_pattern is not None or wn.options.energy.global_pattern is not None:\n"
             "            raise NotImplementedError('WNTR does not support price patterns yet.')\n"
             "        if pump.energy_price is None:\n            unit_price = wn.options.energy.global_price\n        else:\n            unit_price = pump.energy_price\n"
             "        price_dict[pump_name] = [unit_price for i in time]\n"),
    dict(name="quiet-pump-cost-conditional-expression", file=ECON, silent=True,
         old="        if pump.energy_price is None and pump.energy_pattern is None:\n            if wn.options.energy.global_pattern is None:\n"
             "                price_dict[pump_name] = [wn.options.energy.global_price for i in time]\n            else:\n"
             "                raise NotImplementedError('WNTR does not support price patterns yet.')\n        elif pump.energy_pattern is None:\n"
             "            if wn.options.energy.global_pattern is None:\n                price_dict[pump_name] = [pump.energy_price for i in time]\n            else:\n"
             "                raise NotImplementedError('WNTR does not support price patterns yet.')\n        else:\n"
             "            raise NotImplementedError('WNTR does not support price patterns yet.')\n",
         new="        if not (pump.energy_pattern is None and wn.options.energy.global_pattern is None):\n"
             "            raise NotImplementedError('WNTR does not support price patterns yet.')\n"
             "        price_dict[pump_name] = [pump.energy_price if pump.energy_price is not None else wn.options.energy.global_price for i in time]\n"),
    dict(name="quiet-pump-power-guard-clause-percent-temporary", file=ECON, silent=True,
         old="        if pump.efficiency is None:\n            efficiency_dict[pump_name] = [wn.options.energy.global_efficiency/100.0 for i in time]\n        else:\n"
             "            raise NotImplementedError('WNTR does not support pump efficiency curves yet.')\n",
         new="        if pump.efficiency is not None:\n            raise NotImplementedError('WNTR does not support pump efficiency curves yet.')\n"
             "        percent = wn.options.energy.global_efficiency\n        efficiency_dict[pump_name] = [percent/100.0 for i in time]\n"),
    dict(name="quiet-todini-pump-loop-renamed-inlined", file=HYDM, silent=True,
         old="    for name, link in wn.pumps():\n        start_node = link.start_node_name\n        end_node = link.end_node_name\n        start_head = head.loc[:,start_node] # (m)\n"
             "        end_head = head.loc[:,end_node] # (m)\n        headloss[name] = end_head - start_head # (m)\n",
         new="    for pump_name, pump in wn.pumps():\n        headloss[pump_name] = head.loc[:,pump.end_node_name] - head.loc[:,pump.start_node_name]\n"),
    dict(name="quiet-tank-capacity-registry-iterator", file=HYDM, silent=True,
         old="    for name in wn.tank_name_list:\n        tank = wn.get_node(name)\n", new="    for tank_name, t in wn.tanks():\n        name = tank_name\n        tank = t\n"),
    dict(name="quiet-closest-entry-helper-extracted", file=ECON, silent=True,
         old="def annual_network_cost(wn, tank_cost=None",
         new="def _closest_entry(table, value):\n    pos = np.argmin([np.abs(table.index - value)])\n    return table.iloc[pos]\n\ndef annual_network_cost(wn, tank_cost=None",
         also=[("        idx = np.argmin([np.abs(tank_cost.index - tank_construction_volume)])\n        #print(node_name, tank_cost.iloc[idx])\n        network_cost = network_cost + tank_cost.iloc[idx]\n",
                "        network_cost = network_cost + _closest_entry(tank_cost, tank_construction_volume)\n"),
               ("        idx = np.argmin([np.abs(pipe_ghg.index - link.diameter)])\n        #print(link_name, link.diameter, pipe_ghg.iloc[idx],link.length)\n        network_ghg = network_ghg + pipe_ghg.iloc[idx]*link.length\n",
                "        network_ghg += link.length*_closest_entry(pipe_ghg, link.diameter)\n")]),
    dict(name="quiet-pmax-flow-hoisted-coefficients-unpacked", file=ECON, silent=True,
         old="        Pmax = 9.81*1000*np.exp(np.log(A/(B*(C+1)))/C)*(A - B*(np.exp(np.log(A/(B*(C+1)))/C))**C)\n",
         new="        Qmax = np.exp(np.log(A/(B*(C+1)))/C)\n        Pmax = 9.81*1000*Qmax*(A - B*Qmax**C)\n",
         also=[("        coeff = link.get_head_curve_coefficients()\n        A = coeff[0]\n        B = coeff[1]\n        C = coeff[2]\n", "        A, B, C = link.get_head_curve_coefficients()\n")]),
    dict(name="quiet-default-tables-module-dicts-series-helper", file=ECON, silent=True,
         old="def annual_network_cost(wn, tank_cost=None", new="_INCH = 0.0254\n_TANK_TABLE = {500: 14020, 1000: 30640, 2000: 61210, 3750: 87460, 5000: 122420, 10000: 174930}\n_PIPE_TABLE = {4: 8.31, 6: 10.1, 8: 12.1, 10: 12.96, 12: 15.22, 14: 16.62, 16: 19.41, 18: 22.2, 20: 24.66, 24: 35.69, 28: 40.08, 30: 42.6}\n_PUMP_TABLE = ((11310, 2850), (22620, 3225), (24880, 3307), (31670, 3563), (38000, 3820), (45240, 4133), (49760, 4339), (54280, 4554), (59710, 4823))\n\ndef _as_series(table, inch=False):\n    index = list(table.keys())\n    if inch:\n        index = np.array(index)*_INCH\n    return pd.Series(data=list(table.values()), index=index)\n\ndef annual_network_cost(wn, tank_cost=None",
         also=[("        volume = [500, 1000, 2000, 3750, 5000, 10000] \n        cost =  [14020, 30640, 61210, 87460, 122420, 174930]\n        tank_cost = pd.Series(cost, volume)\n", "        tank_cost = _as_series(_TANK_TABLE)\n"),
               ("        diameter = [4, 6, 8, 10, 12, 14, 16, 18, 20, 24, 28, 30] # inch\n        diameter = np.array(diameter)*0.0254 # m\n        cost =  [8.31, 10.1, 12.1, 12.96, 15.22, 16.62, 19.41, 22.2, 24.66, 35.69, 40.08, 42.6]\n        pipe_cost = pd.Series(cost, diameter)\n", "        pipe_cost = _as_series(_PIPE_TABLE, inch=True)\n"),
               ("        Pmp = [11310, 22620, 24880, 31670, 38000, 45240, 49760, 54280, 59710]\n        cost =  [2850, 3225, 3307, 3563, 3820, 4133, 4339, 4554, 4823]\n        pump_cost = pd.Series(cost, Pmp)\n", "        pump_cost = pd.Series(dict(_PUMP_TABLE))\n"),
               ("        network_cost = network_cost + tank_cost.iloc[idx]\n", "        network_cost += tank_cost.iloc[idx]\n")]),
    dict(name="quiet-default-tables-series-from-dict-forms", file=ECON, silent=True,
         old="        volume = [500, 1000, 2000, 3750, 5000, 10000] \n        cost =  [14020, 30640, 61210, 87460, 122420, 174930]\n        tank_cost = pd.Series(cost, volume)\n", new="        tank_cost = pd.Series({500: 14020, 1000: 30640, 2000: 61210, 3750: 87460, 5000: 122420, 10000: 174930})\n",
         also=[("        Pmp = [11310, 22620, 24880, 31670, 38000, 45240, 49760, 54280, 59710]\n        cost =  [2850, 3225, 3307, 3563, 3820, 4133, 4339, 4554, 4823]\n        pump_cost = pd.Series(cost, Pmp)\n", "        d = {11310: 2850, 22620: 3225, 24880: 3307, 31670: 3563, 38000: 3820, 45240: 4133, 49760: 4339, 54280: 4554, 59710: 4823}\n"
                "        pump_cost = pd.Series(index=list(d), data=[d[k] for k in d])\n")]),
    dict(name="module-dict-table-entry", file=ECON, rule="R-C20-5",
         old="def annual_network_cost(wn, tank_cost=None", new="_INCH = 0.0254\n_TANK_TABLE = {500: 14020, 1000: 30640, 2000: 61210, 3750: 87640, 5000: 122420, 10000: 174930}\n_PIPE_TABLE = {4: 8.31, 6: 10.1, 8: 12.1, 10: 12.96, 12: 15.22, 14: 16.62, 16: 19.41, 18: 22.2, 20: 24.66, 24: 35.69, 28: 40.08, 30: 42.6}\n_PUMP_TABLE = ((11310, 2850), (22620, 3225), (24880, 3307), (31670, 3563), (38000, 3820), (45240, 4133), (49760, 4339), (54280, 4554), (59710, 4823))\n\ndef _as_series(table, inch=False):\n    index = list(table.keys())\n    if inch:\n        index = np.array(index)*_INCH\n    return pd.Series(data=list(table.values()), index=index)\n\ndef annual_network_cost(wn, tank_cost=None",
         also=[("        volume = [500, 1000, 2000, 3750, 5000, 10000] \n        cost =  [14020, 30640, 61210, 87460, 122420, 174930]\n        tank_cost = pd.Series(cost, volume)\n", "        tank_cost = _as_series(_TANK_TABLE)\n")]),
    dict(name="quiet-default-tables-renamed-locals", file=ECON, silent=True,
         old="        volume = [500, 1000, 2000, 3750, 5000, 10000] \n        cost =  [14020, 30640, 61210, 87460, 122420, 174930]\n        tank_cost = pd.Series(cost, volume)\n",
         new="        tank_cost = pd.Series(index=[500, 1000, 2000, 3750, 5000, 10000], data=[14020, 30640, 61210, 87460, 122420, 174930])\n",
         also=[("        Pmp = [11310, 22620, 24880, 31670, 38000, 45240, 49760, 54280, 59710]\n        cost =  [2850, 3225, 3307, 3563, 3820, 4133, 4339, 4554, 4823]\n        pump_cost = pd.Series(cost, Pmp)\n",
                "        max_power = [11310, 22620, 24880, 31670, 38000, 45240, 49760, 54280, 59710]\n        annual = [2850, 3225, 3307, 3563, 3820, 4133, 4339, 4554, 4823]\n        pump_cost = pd.Series(annual, max_power)\n")]),
]
