"""C17 -- EPANET unit conversions are exact inverses with the right physical constants.

The conversion code is a finite branch tree over (parameter, unit system, flags)
with one multiplicative constant per leaf: it is partially evaluated (sa.peval)
for EVERY configuration, keeping the value as a linear form k*x + c.
"""
import ast
import math

from ..src import walk, calls, call_name, dotted, const, loc, unparse, norm, AnchorError, ExtractError, last_attr
from ..peval import Evaluator, Lin, Obj, Unknown, Raised

UTIL = "wntr/epanet/util.py"

EXPLANATION = (
    "Partial evaluation of HydParam/QualParam._to_si/_from_si in wntr/epanet/util.py for every member x every FlowUnits member x "
    "darcy_weisbach x MassUnits x reaction order, with the value kept as a linear form k*x+c: checks c = 0 (linear), k_to*k_from = 1 "
    "(inverse), and k_to equal to the physical reference constant; FlowUnits/MassUnits tables are constant-folded and compared with the "
    "definitions (ft3, gal, Imp gal, acre-ft; EN ids); is_traditional/is_metric membership lists; container handling (dict/list branches) "
    "is compared across the four sibling methods; to_si/from_si dispatch forwards every flag. The configuration space is enumerated "
    "completely (exhaustive).")
RULE_TEXT = ("one instance = one (method, parameter, flow unit, flags) configuration, or one table entry / container branch; "
             "distinct = distinct (rule, configuration) pairs")
ASSUMPTIONS = ["floating-point rounding of the last ulp is not decided (tolerance 1e-9 relative for inverse pairs, 1e-8 for physical constants)",
               "numpy's sqrt/power on constants equal math.sqrt / **"]

FT = 0.3048
GAL = 3.785411784e-3
IMPGAL = 4.54609e-3
REF_FLOW = {
    "CFS": (0, FT ** 3), "GPM": (1, GAL / 60.0), "MGD": (2, 1e6 * GAL / 86400.0), "IMGD": (3, 1e6 * IMPGAL / 86400.0),
    "AFD": (4, 43560.0 * FT ** 3 / 86400.0), "LPS": (5, 1e-3), "LPM": (6, 1e-3 / 60.0), "MLD": (7, 1e3 / 86400.0),
    "CMH": (8, 1.0 / 3600.0), "CMD": (9, 1.0 / 86400.0), "SI": (11, 1.0)}
TRAD = {"CFS", "GPM", "MGD", "IMGD", "AFD"}
METRIC = {"LPS", "LPM", "MLD", "CMH", "CMD"}
REF_MASS = {"mg": 1e-6, "ug": 1e-9, "g": 1e-3, "kg": 1.0}
PSI = FT / 0.4333


def ref_hyd(param, unit, factor, dw):
    trad, metric = unit in TRAD, unit in METRIC
    if param in ("Demand", "Flow"):
        return factor
    if param == "EmitterCoeff":
        return factor * (math.sqrt(0.4333 / FT) if trad else 1.0)
    if param == "PipeDiameter":
        return 0.0254 if trad else (0.001 if metric else 1.0)
    if param == "RoughnessCoeff":
        if not dw:
            return 1.0
        return 0.001 * FT if trad else (0.001 if metric else 1.0)
    if param in ("TankDiameter", "Elevation", "HydraulicHead", "Length", "Velocity"):
        return FT if trad else 1.0
    if param == "HeadLoss":
        return 1.0 / 1000.0
    if param == "Energy":
        return 3.6e6
    if param == "Power":
        return 745.699872 if trad else (1000.0 if metric else 1.0)
    if param == "Pressure":
        return PSI if trad else 1.0
    if param == "Volume":
        return FT ** 3 if trad else 1.0
    return None


def ref_qual(param, unit, mass, order):
    trad = unit in TRAD
    if param in ("Concentration", "Quality", "LinkQuality"):
        return mass / 0.001
    if param == "ReactionRate":
        return mass / 0.001 / 86400.0
    if param == "SourceMassInject":
        return mass / 60.0
    if param == "BulkReactionCoeff":
        return 1.0 / 86400.0 if order == 1 else 1.0
    if param == "WallReactionCoeff":
        if order == 0:
            # mass per AREA per day: the area unit is in the denominator (ft2 = FT**2 m2).  An earlier version of this table had
            # copied the code's `mass * 0.092903` (area factor upside down, off by 116); references are now written from the dimension.
            return mass / FT ** 2 / 86400.0 if trad else mass / 86400.0
        if order == 1:
            return FT / 86400.0 if trad else 1.0 / 86400.0
        return 1.0
    if param == "WaterAge":
        return 3600.0
    return None


def close(a, b, tol):
    return abs(a - b) <= tol * max(abs(a), abs(b), 1e-300)


def enum_members(cls):
    out = []
    for n in cls.body:
        if isinstance(n, ast.Assign) and len(n.targets) == 1 and isinstance(n.targets[0], ast.Name) and not n.targets[0].id.startswith("_"):
            out.append((n.targets[0].id, n.value, n))
    return out


def fold(node):
    return Evaluator().ev(node)


def membership_list(repo, prop):
    fn = repo.func(UTIL, "FlowUnits.%s" % prop)
    rets = [s for s in walk(fn) if isinstance(s, ast.Return)]
    if len(rets) != 1 or not isinstance(rets[0].value, ast.Compare) or not isinstance(rets[0].value.ops[0], ast.In):
        raise ExtractError("FlowUnits.%s: expected `return self in [...]`" % prop)
    lst = rets[0].value.comparators[0]
    if not isinstance(lst, (ast.List, ast.Tuple, ast.Set)):
        raise ExtractError("FlowUnits.%s: membership list not a literal" % prop)
    names = set()
    for e in lst.elts:
        d = dotted(e)
        if not d or not d.startswith("FlowUnits."):
            raise ExtractError("FlowUnits.%s: element %s" % (prop, unparse(e)))
        names.add(d.split(".")[1])
    return names, fn


def run(repo, chk):
    fu = repo.cls(UTIL, "FlowUnits")
    mu = repo.cls(UTIL, "MassUnits")
    hp = repo.cls(UTIL, "HydParam")
    qp = repo.cls(UTIL, "QualParam")

    # ---------------------------------------------------------------- R-C17-2
    flow = {}
    for name, val, node in enum_members(fu):
        v = fold(val)
        if not (isinstance(v, list) and len(v) == 2):
            raise ExtractError("FlowUnits.%s value %s" % (name, unparse(val)))
        flow[name] = (v[0], float(v[1]))
        ref = REF_FLOW.get(name)
        if ref is None:
            chk.note("FlowUnits.%s has no reference definition (not checked)" % name)
            continue
        chk.expect(v[0] == ref[0], "R-C17-2", "FlowUnits.%s EN id" % name, loc(UTIL, node), expected=ref[0], found=v[0])
        chk.expect(close(v[1], ref[1], 1e-8), "R-C17-2", "FlowUnits.%s factor equals its physical definition" % name, loc(UTIL, node),
                   "flow factor to m3/s", expected=repr(ref[1]), found=repr(v[1]))
    for name in REF_FLOW:
        if name not in flow:
            chk.bad("R-C17-2", "FlowUnits.%s exists" % name, loc(UTIL, fu), "member missing")
    trad, f1 = membership_list(repo, "is_traditional")
    metric, f2 = membership_list(repo, "is_metric")
    chk.fn(f1, f2)
    chk.expect(trad == TRAD, "R-C17-2", "FlowUnits.is_traditional members", loc(f1), "US units apply exactly to CFS, GPM, MGD, IMGD, AFD",
               expected=sorted(TRAD), found=sorted(trad))
    chk.expect(metric == METRIC, "R-C17-2", "FlowUnits.is_metric members", loc(f2), expected=sorted(METRIC), found=sorted(metric))
    fac = repo.func(UTIL, "FlowUnits.factor")
    s = unparse(fac)
    chk.expect("value[1]" in s or "[1]" in s, "R-C17-2", "FlowUnits.factor returns the second tuple element", loc(fac))
    mass = {}
    for name, val, node in enum_members(mu):
        v = fold(val)
        mass[name] = float(v[1])
        if name in REF_MASS:
            chk.expect(close(v[1], REF_MASS[name], 1e-12), "R-C17-2", "MassUnits.%s factor to kg" % name, loc(UTIL, node), expected=REF_MASS[name], found=v[1])
    mfac = repo.func(UTIL, "MassUnits.factor")
    chk.expect("[1]" in unparse(mfac), "R-C17-2", "MassUnits.factor returns the second tuple element", loc(mfac))
    chk.floor("R-C17-2", 11 * 2 + 2 + 4 + 2)

    # ---------------------------------------------------------------- R-C17-1
    def unit_obj(name):
        return Obj("FlowUnits." + name, {"factor": flow[name][1], "is_traditional": name in trad, "is_metric": name in metric, "name": name}, "FlowUnits")

    def mass_obj(name):
        return Obj("MassUnits." + name, {"factor": mass[name], "name": name}, "MassUnits")

    hyd_members = [m[0] for m in enum_members(hp)]
    qual_members = [m[0] for m in enum_members(qp)]
    if len(hyd_members) < 15 or len(qual_members) < 8:
        raise AnchorError("HydParam/QualParam members not found (%d, %d)" % (len(hyd_members), len(qual_members)))

    def class_attr(d):
        parts = d.split(".")
        if len(parts) == 2:
            c, m = parts
            if c == "HydParam" and m in hyd_members:
                return Obj(d, {}, c)
            if c == "QualParam" and m in qual_members:
                return Obj(d, {}, c)
            if c == "FlowUnits" and m in flow:
                return unit_obj(m)
            if c == "MassUnits" and m in mass:
                return mass_obj(m)
        raise Unknown("unresolved name %s" % d)

    def call_hook(name, n, ev):
        if name == "isinstance":
            v = ev.ev(n.args[0])
            if isinstance(v, Lin):
                return False          # the symbolic input is a scalar
            return NotImplemented
        return NotImplemented

    def evaluate(fn, selfobj, unit, **kw):
        env = {"self": selfobj, "flow_units": unit, "data": Lin(1.0, 0.0)}
        env.update(kw)
        ev = Evaluator(env, class_attr, call_hook)
        body = fn.body
        r = ev.run(body)
        if not isinstance(r, Lin):
            raise ExtractError("%s did not return a linear form for %s/%s (%r)" % (fn._qual, selfobj.name, unit.name, r))
        return r

    fns = {k: repo.func(UTIL, k) for k in ("HydParam._to_si", "HydParam._from_si", "QualParam._to_si", "QualParam._from_si")}
    chk.fn(*fns.values())
    nconf = 0
    for p in hyd_members:
        for u in sorted(flow):
            for dw in (False, True):
                a = evaluate(fns["HydParam._to_si"], Obj("HydParam." + p, {}, "HydParam"), unit_obj(u), darcy_weisbach=dw)
                b = evaluate(fns["HydParam._from_si"], Obj("HydParam." + p, {}, "HydParam"), unit_obj(u), darcy_weisbach=dw)
                nconf += 1
                cfg = "HydParam.%s/%s%s" % (p, u, "/darcy_weisbach" if dw else "")
                chk.expect(a.c == 0 and b.c == 0 and a.k != 0 and b.k != 0, "R-C17-1a", "%s is linear (no additive term, non-zero factor)" % cfg, loc(fns["HydParam._to_si"]), found=(a, b))
                chk.expect(close(a.k * b.k, 1.0, 1e-9), "R-C17-1b", "%s: from_si is the inverse of to_si" % cfg, loc(fns["HydParam._from_si"]),
                           "k_to * k_from must be 1", expected="k_from = %r" % (1.0 / a.k if a.k else None), found="k_to=%r k_from=%r" % (a.k, b.k))
                ref = ref_hyd(p, u, REF_FLOW[u][1] if u in REF_FLOW else flow[u][1], dw)
                if ref is None:
                    chk.note("HydParam.%s has no reference constant (only linearity/inverse checked)" % p)
                else:
                    chk.expect(close(a.k, ref, 1e-8), "R-C17-1c", "%s: to_si factor equals the physical constant" % cfg, loc(fns["HydParam._to_si"]),
                               expected=repr(ref), found=repr(a.k))
                if p in ("Pressure", "Power", "Flow", "Length") and u in ("GPM", "LPS") and not dw:
                    chk.sample({"config": cfg, "k_to_si": a.k, "k_from_si": b.k, "reference": ref})
    orders = (0, 1, 2)
    for p in qual_members:
        for u in sorted(flow):
            for mname in sorted(mass):
                for o in orders:
                    kw = dict(mass_units=mass_obj(mname), reaction_order=o)
                    a = evaluate(fns["QualParam._to_si"], Obj("QualParam." + p, {}, "QualParam"), unit_obj(u), **kw)
                    b = evaluate(fns["QualParam._from_si"], Obj("QualParam." + p, {}, "QualParam"), unit_obj(u), **kw)
                    nconf += 1
                    cfg = "QualParam.%s/%s/%s/order%d" % (p, u, mname, o)
                    chk.expect(a.c == 0 and b.c == 0 and a.k != 0 and b.k != 0, "R-C17-1a", "%s is linear" % cfg, loc(fns["QualParam._to_si"]), found=(a, b))
                    chk.expect(close(a.k * b.k, 1.0, 1e-9), "R-C17-1b", "%s: from_si is the inverse of to_si" % cfg, loc(fns["QualParam._from_si"]),
                               "k_to * k_from must be 1", found="k_to=%r k_from=%r" % (a.k, b.k))
                    ref = ref_qual(p, u, REF_MASS.get(mname, mass[mname]), o)
                    if ref is not None:
                        chk.expect(close(a.k, ref, 1e-8), "R-C17-1c", "%s: to_si factor equals the physical constant" % cfg, loc(fns["QualParam._to_si"]),
                                   expected=repr(ref), found=repr(a.k))
                    if p in ("WallReactionCoeff",) and u in ("GPM", "LPS") and mname == "mg":
                        chk.sample({"config": cfg, "k_to_si": a.k, "k_from_si": b.k, "reference": ref})
    # mass_units=None: whatever the forward function accepts, its inverse must accept (sibling agreement), and be its inverse
    n_none = 0
    for p in qual_members:
        for u in ("GPM", "LPS"):
            for o in orders:
                cfg = "QualParam.%s/%s/mass_units=None/order%d" % (p, u, o)
                try:
                    a = evaluate(fns["QualParam._to_si"], Obj("QualParam." + p, {}, "QualParam"), unit_obj(u), mass_units=None, reaction_order=o)
                except (Unknown, Raised) as e:
                    chk.note("QualParam._to_si with mass_units=None is not defined for %s (%s)" % (cfg, e))
                    continue
                n_none += 1
                try:
                    b = evaluate(fns["QualParam._from_si"], Obj("QualParam." + p, {}, "QualParam"), unit_obj(u), mass_units=None, reaction_order=o)
                except (Unknown, Raised) as e:
                    chk.bad("R-C17-1d", "%s: from_si accepts what to_si accepts" % cfg, loc(fns["QualParam._from_si"]),
                            "to_si maps mass_units=None to a default unit; from_si fails on the same arguments (%s)" % e)
                    continue
                chk.expect(close(a.k * b.k, 1.0, 1e-9), "R-C17-1d", "%s: from_si is the inverse of to_si" % cfg, loc(fns["QualParam._from_si"]),
                           found="k_to=%r k_from=%r" % (a.k, b.k))
    chk.extra["configurations"] = nconf
    chk.extra["exhaustive"] = True
    chk.floor("R-C17-1b", 15 * 11 * 2 + 8 * 11 * 4 * 3)

    # ---------------------------------------------------------------- R-C17-3 containers
    shapes = {}
    for key, fn in fns.items():
        kinds = {}
        for n in walk(fn):
            if isinstance(n, ast.If) and isinstance(n.test, ast.Call) and call_name(n.test) == "isinstance" and dotted(n.test.args[0]) == "data":
                t = unparse(n.test.args[1])
                kind = "dict" if t == "dict" else ("list" if t == "list" else ("dataframe" if "DataFrame" in t else t))
                arr = [c for s in n.body for c in calls(s) if call_name(c) in ("np.array", "numpy.array", "np.asarray")]
                kinds[kind] = (n, arr)
        shapes[key] = set(kinds)
        if "dict" in kinds:
            n, arr = kinds["dict"]
            okd = bool(arr) and not (isinstance(arr[0].args[0], ast.Call) and last_attr(arr[0].args[0]) == "values")
            chk.expect(okd, "R-C17-3", "%s: dict values are materialised as a list before np.array" % key, loc(fn, n),
                       "np.array(data.values()) builds a 0-d object array: every arithmetic on it raises TypeError, so dictionaries are not accepted",
                       expected="np.array(list(data.values()))", found=norm(arr[0]) if arr else "no np.array in the dict branch")
            keys_saved = any(isinstance(s, ast.Assign) and "data.keys()" in unparse(s.value) for s in n.body)
            back = [s for s in walk(fn) if isinstance(s, ast.Assign) and isinstance(s.value, ast.Call) and call_name(s.value) == "dict" and "zip" in unparse(s.value)]
            chk.expect(keys_saved and bool(back), "R-C17-3", "%s: dict result is rebuilt with the original keys" % key, loc(fn, n))
        else:
            chk.bad("R-C17-3", "%s handles dictionaries" % key, loc(fn), "no isinstance(data, dict) branch")
        if "list" in kinds:
            back = [s for s in walk(fn) if isinstance(s, ast.Assign) and isinstance(s.value, ast.Call) and call_name(s.value) == "list" and dotted(s.value.args[0]) == "data"]
            chk.expect(bool(back), "R-C17-3", "%s: list input is returned as a list" % key, loc(fn))
        else:
            chk.bad("R-C17-3", "%s handles lists" % key, loc(fn), "no isinstance(data, list) branch")
    base = shapes["HydParam._from_si"] - {"dataframe"}
    for key, sset in shapes.items():
        chk.expect(sset - {"dataframe"} == base, "R-C17-3", "%s handles the same container kinds as its siblings" % key, loc(fns[key]), expected=sorted(base), found=sorted(sset))
    chk.floor("R-C17-3", 4 * 4)

    # ---------------------------------------------------------------- R-C17-4 dispatch
    for fname, meth, unitarg in (("to_si", "_to_si", "from_units"), ("from_si", "_from_si", "to_units")):
        fn = repo.func(UTIL, fname)
        chk.fn(fn)
        got = {}
        for n in walk(fn):
            if isinstance(n, ast.If) and isinstance(n.test, ast.Call) and call_name(n.test) == "isinstance":
                cls = unparse(n.test.args[1])
                rets = [s for s in n.body if isinstance(s, ast.Return) and isinstance(s.value, ast.Call)]
                if rets:
                    c = rets[0].value
                    got[cls] = (call_name(c), [unparse(a) for a in c.args] + ["%s=%s" % (k.arg, unparse(k.value)) for k in c.keywords])
        want = {"HydParam": ("param." + meth, [unitarg, "data", "darcy_weisbach"]),
                "QualParam": ("param." + meth, [unitarg, "data", "mass_units", "reaction_order"])}
        for cls, (cn, args) in want.items():
            g = got.get(cls)
            okk = g is not None and g[0] == cn
            if okk:
                # positional order must match the callee's signature; keywords are accepted too
                callee = fns["%s.%s" % (cls, meth)]
                params = [a.arg for a in callee.args.args][1:]
                bound = {}
                pos = [a for a in g[1] if "=" not in a]
                for pn, a in zip(params, pos):
                    bound[pn] = a
                for a in g[1]:
                    if "=" in a:
                        k, v = a.split("=", 1)
                        bound[k] = v
                wantb = dict(zip(params, args))
                okk = all(bound.get(k) == v for k, v in wantb.items())
            chk.expect(okk, "R-C17-4", "%s dispatches %s to %s with every flag forwarded" % (fname, cls, meth), loc(fn),
                       expected=(cn, args), found=g)
    chk.floor("R-C17-4", 4)


WITNESSES = [
    dict(name="wall-coefficient-area-factor-upside-down-both-directions", file=UTIL,
         old="data = data * (mass_units.factor / 0.09290304 / 86400.0)  # M/ft2/d to SI", new="data = data * (mass_units.factor * 0.092903 / 86400.0)  # M/ft2/d to SI",
         also=[("data = data / (mass_units.factor / 0.09290304 / 86400.0)  # M/ft2/d fr SI", "data = data / (mass_units.factor * 0.092903 / 86400.0)  # M/ft2/d fr SI")], rule="R-C17-1c"),
    dict(name="from-si-without-the-None-default", file=UTIL,
         old="        if mass_units is None:\n            mass_units = MassUnits.mg\n\n        # Do conversions\n        if self in [QualParam.Concentration, QualParam.Quality,\n                    QualParam.LinkQuality, QualParam.ReactionRate]:\n            data = data / (",
         new="        # Do conversions\n        if self in [QualParam.Concentration, QualParam.Quality,\n                    QualParam.LinkQuality, QualParam.ReactionRate]:\n            data = data / (", rule="R-C17-1d"),
    dict(name="psi-constant", file=UTIL, old="                data = data * (0.3048 / 0.4333)", new="                data = data * (0.3048 / 0.4335)", rule="R-C17-1"),
    dict(name="hp-constant-one-side", file=UTIL, old="                data = data / 745.699872  # hp from W", new="                data = data / 745.7  # hp from W", rule="R-C17-1b"),
    dict(name="imgd-moved-to-metric", file=UTIL, old="            FlowUnits.IMGD,\n            FlowUnits.AFD,\n        ]", new="            FlowUnits.AFD,\n        ]", rule="R-C17-2"),
    dict(name="gallon", file=UTIL, old="GPM = (1, (0.003785411784 / 60.0))", new="GPM = (1, (0.003785411 / 60.0))", rule="R-C17-2"),
    dict(name="wall-order-branch", file=UTIL, old="                data = data / (0.3048 / 86400.0)  # ft/d fr m/s", new="                data = data / (0.3048 / 8640.0)  # ft/d fr m/s", rule="R-C17-1b"),
    dict(name="additive-term", file=UTIL, old="            data = data * 3600000.0  # kW*hr to J", new="            data = data * 3600000.0 + 1.0  # kW*hr to J", rule="R-C17-1a"),
    dict(name="flag-not-forwarded", file=UTIL, old="        return param._from_si(to_units, data, mass_units, reaction_order)", new="        return param._from_si(to_units, data, mass_units)", rule="R-C17-4"),
    dict(name="hyd-dict-values", file=UTIL, old="            data = np.array(list(data.values()))\n        elif isinstance(data, list):\n            original_data_type = 'list'\n            data = np.array(data)\n\n        # Do onversions",
         new="            data = np.array(data.values())\n        elif isinstance(data, list):\n            original_data_type = 'list'\n            data = np.array(data)\n\n        # Do onversions", rule="R-C17-3"),
    dict(name="reorder-preserving", file=UTIL, old="                data = data * (0.001 * 0.3048)  # 1e-3 ft to m", new="                data = data * (0.3048 * 0.001)  # 1e-3 ft to m", silent=True),
    dict(name="length-via-temp-preserving", file=UTIL, old="                data = data * 0.3048  # ft to m\n\n        elif self in [HydParam.HeadLoss]:",
         new="                ft = 0.3048\n                data = ft * data  # ft to m\n\n        elif self in [HydParam.HeadLoss]:", silent=True),
]
