"""C17 -- EPANET unit conversions are exact inverses with the right physical constants.

The conversion code is a finite branch tree over (parameter, unit system, flags)
with one multiplicative constant per leaf: it is partially evaluated (sa.peval)
for EVERY configuration, keeping the value as a linear form k*x + c.
"""
import ast
import math

from ..src import walk, call_name, dotted, loc, unparse, AnchorError, ExtractError
from ..peval import Evaluator, Lin, Obj, Unknown, Raised

UTIL = "wntr/epanet/util.py"

EXPLANATION = (
    "Partial evaluation of HydParam/QualParam._to_si/_from_si in wntr/epanet/util.py for every member x every FlowUnits member x "
    "darcy_weisbach x MassUnits x reaction order, with the value kept as a linear form k*x+c: checks c = 0 (linear), k_to*k_from = 1 "
    "(inverse), and k_to equal to the physical reference constant; FlowUnits/MassUnits tables are constant-folded and compared with the "
    "definitions (ft3, gal, Imp gal, acre-ft; EN ids); is_traditional/is_metric membership lists; container handling is decided by interpreting "
    "each of the four methods on a concrete dict / list / array / DataFrame of distinctly scaled symbolic values (dict in -> dict out with the same keys, "
    "list in -> list out, every element converted with the scalar factor, no TypeError from a 0-d object array) and comparing the four siblings; "
    "to_si/from_si dispatch forwards every flag. The configuration space is enumerated "
    "completely (exhaustive).")
RULE_TEXT = ("one instance = one (method, parameter, flow unit, flags) configuration, or one table entry / container branch; "
             "distinct = distinct (rule, configuration) pairs")
ASSUMPTIONS = ["floating-point rounding of the last ulp is not decided (tolerance 1e-9 relative for inverse pairs, 1e-8 for physical constants)",
               "numpy's sqrt/power on constants equal math.sqrt / **"]

FT = 0.3048
GAL = 3.785411784e-3
IMPGAL = 4.54609e-3
REF_FLOW = {
    "CFS": (0, FT ** 3), "GPM": (1, GAL / 60.0), "MGD": (2, 1e6 * GAL / 86400.0), "IMGD": (3, 1e6 * IMPGAL / 86400.0),
    "AFD": (4, 43560.0 * FT ** 3 / 86400.0), "LPS": (5, 1e-3), "LPM": (6, 1e-3 / 60.0), "MLD": (7, 1e3 / 86400.0),
    "CMH": (8, 1.0 / 3600.0), "CMD": (9, 1.0 / 86400.0), "SI": (11, 1.0)}
TRAD = {"CFS", "GPM", "MGD", "IMGD", "AFD"}
METRIC = {"LPS", "LPM", "MLD", "CMH", "CMD"}
REF_MASS = {"mg": 1e-6, "ug": 1e-9, "g": 1e-3, "kg": 1.0}
PSI = FT / 0.4333


def ref_hyd(param, unit, factor, dw):
    trad, metric = unit in TRAD, unit in METRIC
    if param in ("Demand", "Flow"):
        return factor
    if param == "EmitterCoeff":
        return factor * (math.sqrt(0.4333 / FT) if trad else 1.0)
    if param == "PipeDiameter":
        return 0.0254 if trad else (0.001 if metric else 1.0)
    if param == "RoughnessCoeff":
        if not dw:
            return 1.0
        return 0.001 * FT if trad else (0.001 if metric else 1.0)
    if param in ("TankDiameter", "Elevation", "HydraulicHead", "Length", "Velocity"):
        return FT if trad else 1.0
    if param == "HeadLoss":
        return 1.0 / 1000.0
    if param == "Energy":
        return 3.6e6
    if param == "Power":
        return 745.699872 if trad else (1000.0 if metric else 1.0)
    if param == "Pressure":
        return PSI if trad else 1.0
    if param == "Volume":
        return FT ** 3 if trad else 1.0
    return None


def ref_qual(param, unit, mass, order):
    trad = unit in TRAD
    if param in ("Concentration", "Quality", "LinkQuality"):
        return mass / 0.001
    if param == "ReactionRate":
        return mass / 0.001 / 86400.0
    if param == "SourceMassInject":
        return mass / 60.0
    if param == "BulkReactionCoeff":
        return 1.0 / 86400.0 if order == 1 else 1.0
    if param == "WallReactionCoeff":
        if order == 0:
            # mass per AREA per day: the area unit is in the denominator (ft2 = FT**2 m2).  An earlier version of this table had
            # copied the code's `mass * 0.092903` (area factor upside down, off by 116); references are now written from the dimension.
            return mass / FT ** 2 / 86400.0 if trad else mass / 86400.0
        if order == 1:
            return FT / 86400.0 if trad else 1.0 / 86400.0
        return 1.0
    if param == "WaterAge":
        return 3600.0
    return None


def close(a, b, tol):
    return abs(a - b) <= tol * max(abs(a), abs(b), 1e-300)


def enum_members(cls):
    out = []
    for n in cls.body:
        if isinstance(n, ast.Assign) and len(n.targets) == 1 and isinstance(n.targets[0], ast.Name) and not n.targets[0].id.startswith("_"):
            out.append((n.targets[0].id, n.value, n))
    return out


def fold(node):
    return Evaluator().ev(node)


def membership_list(repo, prop):
    """the FlowUnits members for which the property is True: the getter is EVALUATED (CEval, defined below) once per member with `self` bound to that
    member's token -- `self in [...]`, `any(self is u for u in (...))`, a chain of `==`, a set, a local table: all the same"""
    fn = repo.func(UTIL, "FlowUnits.%s" % prop)
    cls = repo.cls(UTIL, "FlowUnits")
    names = [nm for nm, _v, _n in enum_members(cls)]
    if len(names) < 10:
        raise ExtractError("FlowUnits members not found")
    tokens = {nm: Obj("FlowUnits." + nm, {"name": nm}, "FlowUnits") for nm in names}

    def cattr(d):
        parts = d.split(".")
        if len(parts) == 2 and parts[0] == "FlowUnits" and parts[1] in tokens:
            return tokens[parts[1]]
        raise Unknown("unbound name %s" % d)
    out = set()
    for nm in names:
        try:
            v = CEval({"self": tokens[nm]}, cattr, lambda q: None).run(fn.body)
        except (Unknown, ProgError) as e:
            raise ExtractError("FlowUnits.%s not evaluable for %s: %s" % (prop, nm, e))
        if not isinstance(v, bool):
            raise ExtractError("FlowUnits.%s returns %r for %s, not a bool" % (prop, v, nm))
        if v:
            out.add(nm)
    return out, fn


# --------------------------------------------------------------------------------------------- container-aware evaluation (R-C17-3)
class ProgError(Exception):
    """the interpreted method itself raises on this input (a faithfully modelled TypeError / KeyError ...)."""


class TypeTok(object):
    """a class used as the second argument of isinstance()."""

    def __init__(self, name):
        self.name = name

    def __repr__(self):
        return "<type %s>" % self.name


class Arr(object):
    """1-d numpy array of scalars (numbers or linear forms)."""

    def __init__(self, elts):
        self.elts = list(elts)

    def __iter__(self):
        return iter(list(self.elts))

    def __len__(self):
        return len(self.elts)

    def __repr__(self):
        return "array(%r)" % (self.elts,)


class Arr0(object):
    """what np.array() makes of something that is not a sequence (a dict view, a dict, an iterator): a 0-d object array.
    Arithmetic with a number is delegated to the wrapped object (TypeError), it cannot be iterated and has no len()."""

    def __init__(self, obj):
        self.obj = obj

    def __repr__(self):
        return "array(%s, dtype=object)" % type(self.obj).__name__


class Frame(object):
    """pandas.DataFrame: labels + values; arithmetic with a scalar is elementwise and keeps the labels."""

    def __init__(self, values, index, columns):
        self.values, self.index, self.columns = values, index, columns

    def __repr__(self):
        return "DataFrame(%r)" % (self.values,)


_BUILTIN_TYPES = ("dict", "list", "tuple", "set", "str", "bool", "int", "float")
_LIB_TYPES = {"DataFrame": ("pd", "pandas"), "Series": ("pd", "pandas"), "ndarray": ("np", "numpy"),
              "Mapping": ("collections", "typing", "abc"), "MutableMapping": ("collections", "typing", "abc"),
              "Sequence": ("collections", "typing", "abc"), "MutableSequence": ("collections", "typing", "abc"),
              "Number": ("numbers",), "Real": ("numbers",)}
_NP_ARRAY = ("array", "asarray", "asanyarray", "ascontiguousarray")


def type_token(d):
    """TypeTok for the dotted name of a class the container code may test against, else None."""
    parts = d.split(".")
    if len(parts) == 1 and d in _BUILTIN_TYPES:
        return TypeTok(d)
    roots = _LIB_TYPES.get(parts[-1])
    if roots and (len(parts) == 1 or parts[0] in roots):
        return TypeTok(parts[-1])
    return None


def _scalar(v):
    return isinstance(v, Lin) or (isinstance(v, (int, float)) and not isinstance(v, bool))


def is_instance(v, tok):
    if isinstance(tok, (list, tuple)):
        return any(is_instance(v, t) for t in tok)
    if not isinstance(tok, TypeTok):
        raise Unknown("isinstance against %r" % (tok,))
    t = tok.name
    if t in ("dict", "Mapping", "MutableMapping"):
        return isinstance(v, dict)
    if t in ("list", "MutableSequence"):
        return isinstance(v, list)
    if t == "tuple":
        return isinstance(v, tuple)
    if t == "Sequence":
        return isinstance(v, (list, tuple, str))
    if t == "set":
        return isinstance(v, (set, frozenset))
    if t == "str":
        return isinstance(v, str)
    if t == "bool":
        return isinstance(v, bool)
    if t == "int":
        return isinstance(v, int)
    if t in ("float", "Real", "Number"):
        return isinstance(v, (float, Lin)) or (t != "float" and isinstance(v, int))   # the symbolic scalar is a Python float
    if t == "ndarray":
        return isinstance(v, (Arr, Arr0))
    if t == "DataFrame":
        return isinstance(v, Frame)
    if t == "Series":
        return False            # no Series is ever handed in
    raise Unknown("isinstance against %s not modelled" % t)


class CEval(Evaluator):
    """peval.Evaluator + the container vocabulary of the conversion methods: real dicts / lists / tuples (and dict views), 1-d arrays,
    the 0-d object array numpy builds from a non-sequence, a DataFrame stand-in, isinstance against the usual classes, loops and
    comprehensions over those, and calls to functions / methods of the analysed module (interpreted, so a helper that the normaliser
    did not inline is followed all the same).  Whatever is outside raises Unknown (-> could not analyse); an operation that raises in
    Python raises ProgError (-> the rule decides)."""

    def __init__(self, env, class_attr, resolve_fn, depth=0):
        def cattr(d):
            t = type_token(d)
            if t is not None:
                return t
            return class_attr(d)
        Evaluator.__init__(self, env, cattr, None, self._attr)
        self.user_class_attr = class_attr
        self.resolve_fn = resolve_fn        # f(qualname) -> FunctionDef of the analysed module or None
        self.depth = depth

    # ---- values
    def _attr(self, base, attr):
        if isinstance(base, Frame) and attr in ("values", "index", "columns"):
            return getattr(base, attr)
        return NotImplemented

    def e_Tuple(self, n):
        return tuple(self.ev(e) for e in n.elts)

    def e_Dict(self, n):
        if any(k is None for k in n.keys):
            raise Unknown("dict unpacking")
        return {self.ev(k): self.ev(v) for k, v in zip(n.keys, n.values)}

    def iterate(self, v, what="iteration"):
        if isinstance(v, (list, tuple, dict, Arr, set, frozenset, str)) or type(v).__name__ in ("dict_keys", "dict_values", "dict_items"):
            return list(v)
        if isinstance(v, Frame):
            return list(v.columns)
        if isinstance(v, Arr0):
            raise ProgError("TypeError: iteration over a 0-d array (%s of %r)" % (what, v))
        if _scalar(v) or v is None or isinstance(v, bool):
            raise ProgError("TypeError: %s of a non-iterable %s" % (what, "float" if isinstance(v, Lin) else type(v).__name__))
        raise Unknown("%s of %r" % (what, v))

    def truth(self, v):
        if isinstance(v, Arr):
            if len(v) > 1:
                raise ProgError("ValueError: truth value of an array with more than one element")
            raise Unknown("truth value of a short array")
        if isinstance(v, (Arr0, Frame)):
            raise Unknown("truth value of %r" % (v,))
        return Evaluator.truth(self, v)

    def e_Subscript(self, n):
        base = self.ev(n.value)
        if isinstance(n.slice, ast.Slice):
            key = slice(*[None if x is None else self.ev(x) for x in (n.slice.lower, n.slice.upper, n.slice.step)])
            if not all(x is None or (isinstance(x, int) and not isinstance(x, bool)) for x in (key.start, key.stop, key.step)):
                raise Unknown("slice bounds: %s" % unparse(n))
            if isinstance(base, Arr):
                return Arr(base.elts[key])
            if isinstance(base, dict):
                raise ProgError("TypeError: unhashable type: 'slice'")
        else:
            key = self.ev(n.slice)
        if isinstance(base, Arr):
            base = base.elts
        if isinstance(base, (list, tuple, dict)):
            try:
                return base[key]
            except (KeyError, IndexError, TypeError) as e:
                raise ProgError("%s: %s" % (type(e).__name__, e))
        raise Unknown("subscript of %r" % (base,))

    def assign(self, t, v):
        if isinstance(t, ast.Subscript) and not isinstance(t.slice, ast.Slice):
            base, key = self.ev(t.value), self.ev(t.slice)
            if isinstance(base, Arr):
                base = base.elts
            if isinstance(base, (list, dict)):
                try:
                    base[key] = v
                except (IndexError, TypeError) as e:
                    raise ProgError("%s: %s" % (type(e).__name__, e))
                return
            raise Unknown("item store on %r" % (base,))
        if isinstance(t, (ast.Tuple, ast.List)) and not isinstance(v, (list, tuple)):
            v = self.iterate(v, "unpacking")
        Evaluator.assign(self, t, v)

    def _comp(self, gens, emit):
        saved = dict(self.env)

        def rec(i):
            if i == len(gens):
                emit()
                return
            g = gens[i]
            if g.is_async:
                raise Unknown("async comprehension")
            for x in self.iterate(self.ev(g.iter)):
                self.assign(g.target, x)
                if all(self.truth(self.ev(c)) for c in g.ifs):
                    rec(i + 1)
        try:
            rec(0)
        finally:
            self.env = saved

    def e_ListComp(self, n):
        out = []
        self._comp(n.generators, lambda: out.append(self.ev(n.elt)))
        return out

    e_GeneratorExp = e_ListComp

    def e_DictComp(self, n):
        out = {}

        def emit():
            k = self.ev(n.key)
            out[k] = self.ev(n.value)
        self._comp(n.generators, emit)
        return out

    # ---- arithmetic
    def binop(self, op, a, b, n):
        for x, y in ((a, b), (b, a)):
            if isinstance(x, Arr0):
                raise ProgError("TypeError: unsupported operand type(s) for %s: '%s' and '%s' (%r is a 0-d object array)"
                                % (type(op).__name__, type(x.obj).__name__, "float" if isinstance(y, Lin) else type(y).__name__, x))
        if isinstance(a, Frame) or isinstance(b, Frame):
            if isinstance(a, Frame) and isinstance(b, Frame):
                raise Unknown("DataFrame op DataFrame")
            f = a if isinstance(a, Frame) else b
            vals = self.binop(op, a.values if f is a else a, b.values if f is b else b, n)
            return Frame(vals, f.index, f.columns)
        if isinstance(a, Arr) or isinstance(b, Arr):
            if isinstance(a, Arr) and isinstance(b, Arr):
                if len(a) != len(b):
                    raise ProgError("ValueError: operands could not be broadcast together")
                return Arr([self.binop(op, x, y, n) for x, y in zip(a.elts, b.elts)])
            arr, other = (a, b) if isinstance(a, Arr) else (b, a)
            if isinstance(other, (list, tuple)):
                return self.binop(op, Arr(a) if other is a else a, Arr(b) if other is b else b, n)
            if not _scalar(other):
                raise Unknown("array arithmetic with %r" % (other,))
            return Arr([self.binop(op, x, b, n) for x in a.elts] if arr is a else [self.binop(op, a, y, n) for y in b.elts])
        if isinstance(a, (list, tuple, dict)) or isinstance(b, (list, tuple, dict)):
            seq, other = (a, b) if isinstance(a, (list, tuple, dict)) else (b, a)
            if isinstance(op, ast.Mult) and isinstance(seq, (list, tuple)) and isinstance(other, int) and not isinstance(other, bool):
                return seq * other
            if isinstance(op, ast.Add) and type(a) is type(b) and isinstance(a, (list, tuple)):
                return a + b
            raise ProgError("TypeError: unsupported operand type(s) for %s: '%s' and '%s'" % (
                type(op).__name__, "float" if isinstance(a, Lin) else type(a).__name__, "float" if isinstance(b, Lin) else type(b).__name__))
        return Evaluator.binop(self, op, a, b, n)

    # ---- calls
    def np_array(self, x):
        if isinstance(x, (list, tuple, Arr)):
            elts = list(x)
            if not all(_scalar(e) for e in elts):
                raise Unknown("np.array of a nested / non-numeric sequence")
            return Arr(elts)
        if isinstance(x, Frame):
            return x.values
        if _scalar(x):
            return x                # a 0-d numeric array behaves like the number
        if isinstance(x, (dict, set, frozenset)) or type(x).__name__ in ("dict_keys", "dict_values", "dict_items"):
            return Arr0(x)
        raise Unknown("np.array(%r)" % (x,))

    def builtin(self, name, args, kw, n):
        if name == "isinstance" and len(args) == 2 and not kw:
            return is_instance(args[0], args[1])
        if name in ("list", "tuple") and len(args) <= 1 and not kw:
            return (list if name == "list" else tuple)(self.iterate(args[0], name + "()") if args else [])
        if name == "dict" and len(args) <= 1:
            out = {}
            if args:
                src = args[0]
                for pair in (list(src.items()) if isinstance(src, dict) else self.iterate(src, "dict()")):
                    pair = self.iterate(pair, "dict() element")
                    if len(pair) != 2:
                        raise ProgError("ValueError: dictionary update sequence element has length %d; 2 is required" % len(pair))
                    out[pair[0]] = pair[1]
            out.update(kw)
            return out
        if name == "zip" and not kw:
            return list(zip(*[self.iterate(a, "zip()") for a in args]))
        if name == "enumerate" and len(args) == 1 and not kw:
            return list(enumerate(self.iterate(args[0], "enumerate()")))
        if name == "len" and len(args) == 1 and not kw:
            if isinstance(args[0], Arr0) or _scalar(args[0]):
                raise ProgError("TypeError: len() of unsized object")
            if isinstance(args[0], Frame):
                return len(self.iterate(args[0].index))
            return len(self.iterate(args[0], "len()"))
        if name == "range" and not kw and all(isinstance(a, int) for a in args):
            return list(range(*args))
        if name in ("any", "all") and len(args) == 1 and not kw:
            vals = [self.truth(x) for x in self.iterate(args[0], name + "()")]
            return any(vals) if name == "any" else all(vals)
        if name in ("sorted", "reversed") and len(args) == 1 and (not kw or (name == "sorted" and set(kw) <= {"reverse"} and isinstance(kw.get("reverse", False), bool))):
            items = list(self.iterate(args[0], name + "()"))
            if name == "reversed":
                return items[::-1]
            if not all(isinstance(x, (str, int, float)) and not isinstance(x, bool) for x in items) or len({type(x) is str for x in items}) > 1:
                raise Unknown("sorted() of values that are not plain numbers / strings")
            return sorted(items, reverse=kw.get("reverse", False))
        return NotImplemented

    def method(self, recv, attr, args, kw, n):
        if isinstance(recv, dict) and attr in ("keys", "values", "items", "copy") and not args and not kw:
            return getattr(recv, attr)()
        if isinstance(recv, dict) and attr == "get" and 1 <= len(args) <= 2 and not kw:
            return recv.get(*args)
        if isinstance(recv, list) and attr == "append" and len(args) == 1 and not kw:
            recv.append(args[0])
            return None
        if isinstance(recv, (list, Arr)) and attr == "copy" and not args:
            return list(recv) if isinstance(recv, list) else Arr(recv.elts)
        if isinstance(recv, Arr) and attr == "tolist" and not args:
            return list(recv.elts)
        if isinstance(recv, Obj) and recv.cls:
            fn = self.resolve_fn("%s.%s" % (recv.cls, attr))
            if fn is not None:
                return self.call_fn(fn, [recv] + args, kw)
        raise Unknown("call %s not modelled" % unparse(n))

    def call_fn(self, fn, args, kw):
        if self.depth > 12:
            raise Unknown("helper calls nested too deep at %s" % fn.name)
        a = fn.args
        if a.vararg or a.kwarg or fn.decorator_list:
            raise Unknown("helper %s: *args / **kwargs / decorators" % fn.name)
        params = [p.arg for p in a.posonlyargs + a.args]
        if len(args) > len(params):
            raise ProgError("TypeError: %s() takes %d positional arguments but %d were given" % (fn.name, len(params), len(args)))
        env = dict(zip(params, args))
        names = params + [p.arg for p in a.kwonlyargs]
        for k, v in kw.items():
            if k not in names or k in env:
                raise ProgError("TypeError: %s() got an unexpected / repeated keyword argument %r" % (fn.name, k))
            env[k] = v
        dev = CEval({}, self.user_class_attr, self.resolve_fn, self.depth + 1)
        for p, d in list(zip(params[len(params) - len(a.defaults):], a.defaults)) + [(p.arg, d) for p, d in zip(a.kwonlyargs, a.kw_defaults) if d is not None]:
            if p not in env:
                env[p] = dev.ev(d)
        for p in names:
            if p not in env:
                raise ProgError("TypeError: %s() missing required argument %r" % (fn.name, p))
        return CEval(env, self.user_class_attr, self.resolve_fn, self.depth + 1).run(fn.body)

    def e_Call(self, n):
        f = n.func
        if any(isinstance(x, ast.Starred) for x in n.args) or any(k.arg is None for k in n.keywords):
            raise Unknown("star arguments: %s" % unparse(n))

        def argv():
            return [self.ev(x) for x in n.args], {k.arg: self.ev(k.value) for k in n.keywords}
        if isinstance(f, ast.Name) and f.id not in self.env:
            args, kw = argv()
            r = self.builtin(f.id, args, kw, n)
            if r is not NotImplemented:
                return r
            fn = self.resolve_fn(f.id)
            if fn is not None:
                return self.call_fn(fn, args, kw)
        elif isinstance(f, ast.Attribute):
            d = dotted(f)
            root = d.split(".")[0] if d else None
            if d and root not in self.env:
                parts = d.split(".")
                if parts[0] in ("np", "numpy") and len(parts) == 2 and parts[1] in _NP_ARRAY and len(n.args) == 1:
                    return self.np_array(self.ev(n.args[0]))
                if parts[0] in ("pd", "pandas") and parts[-1] == "DataFrame":
                    args, kw = argv()
                    if len(args) == 1 and set(kw) <= {"index", "columns"}:
                        return Frame(args[0], kw.get("index"), kw.get("columns"))
                    raise Unknown("DataFrame constructor form: %s" % unparse(n))
            else:
                recv = self.ev(f.value)
                args, kw = argv()
                return self.method(recv, f.attr, args, kw, n)
        return Evaluator.e_Call(self, n)

    # ---- statements
    def stmt(self, s):
        if isinstance(s, ast.For):
            for x in self.iterate(self.ev(s.iter)):
                self.assign(s.target, x)
                self.block(s.body)
            self.block(s.orelse)
            return
        Evaluator.stmt(self, s)


def run(repo, chk):
    fu = repo.cls(UTIL, "FlowUnits")
    mu = repo.cls(UTIL, "MassUnits")
    hp = repo.cls(UTIL, "HydParam")
    qp = repo.cls(UTIL, "QualParam")

    # ---------------------------------------------------------------- R-C17-2
    with chk.part("R-C17-2"):
        flow = {}
        for name, val, node in enum_members(fu):
            v = fold(val)
            if not (isinstance(v, list) and len(v) == 2):
                raise ExtractError("FlowUnits.%s value %s" % (name, unparse(val)))
            flow[name] = (v[0], float(v[1]))
            ref = REF_FLOW.get(name)
            if ref is None:
                chk.note("FlowUnits.%s has no reference definition (not checked)" % name)
                continue
            chk.expect(v[0] == ref[0], "R-C17-2", "FlowUnits.%s EN id" % name, loc(UTIL, node), expected=ref[0], found=v[0])
            chk.expect(close(v[1], ref[1], 1e-8), "R-C17-2", "FlowUnits.%s factor equals its physical definition" % name, loc(UTIL, node),
                       "flow factor to m3/s", expected=repr(ref[1]), found=repr(v[1]))
        for name in REF_FLOW:
            if name not in flow:
                chk.bad("R-C17-2", "FlowUnits.%s exists" % name, loc(UTIL, fu), "member missing")
        trad, f1 = membership_list(repo, "is_traditional")
        metric, f2 = membership_list(repo, "is_metric")
        chk.fn(f1, f2)
        chk.expect(trad == TRAD, "R-C17-2", "FlowUnits.is_traditional members", loc(f1), "US units apply exactly to CFS, GPM, MGD, IMGD, AFD",
                   expected=sorted(TRAD), found=sorted(trad))
        chk.expect(metric == METRIC, "R-C17-2", "FlowUnits.is_metric members", loc(f2), expected=sorted(METRIC), found=sorted(metric))
        fac = repo.func(UTIL, "FlowUnits.factor")
        s = unparse(fac)
        chk.expect("value[1]" in s or "[1]" in s, "R-C17-2", "FlowUnits.factor returns the second tuple element", loc(fac))
        mass = {}
        for name, val, node in enum_members(mu):
            v = fold(val)
            mass[name] = float(v[1])
            if name in REF_MASS:
                chk.expect(close(v[1], REF_MASS[name], 1e-12), "R-C17-2", "MassUnits.%s factor to kg" % name, loc(UTIL, node), expected=REF_MASS[name], found=v[1])
        mfac = repo.func(UTIL, "MassUnits.factor")
        chk.expect("[1]" in unparse(mfac), "R-C17-2", "MassUnits.factor returns the second tuple element", loc(mfac))
        chk.floor("R-C17-2", 11 * 2 + 2 + 4 + 2)

    # ---------------------------------------------------------------- R-C17-1
    with chk.part("R-C17-1"):
        def unit_obj(name):
            return Obj("FlowUnits." + name, {"factor": flow[name][1], "is_traditional": name in trad, "is_metric": name in metric, "name": name}, "FlowUnits")

        def mass_obj(name):
            return Obj("MassUnits." + name, {"factor": mass[name], "name": name}, "MassUnits")

        hyd_members = [m[0] for m in enum_members(hp)]
        qual_members = [m[0] for m in enum_members(qp)]
        if len(hyd_members) < 15 or len(qual_members) < 8:
            raise AnchorError("HydParam/QualParam members not found (%d, %d)" % (len(hyd_members), len(qual_members)))

        def class_attr(d):
            parts = d.split(".")
            if len(parts) == 2:
                c, m = parts
                if c == "HydParam" and m in hyd_members:
                    return Obj(d, {}, c)
                if c == "QualParam" and m in qual_members:
                    return Obj(d, {}, c)
                if c == "FlowUnits" and m in flow:
                    return unit_obj(m)
                if c == "MassUnits" and m in mass:
                    return mass_obj(m)
            raise Unknown("unresolved name %s" % d)

        def resolve_fn(qual):
            return repo.func(UTIL, qual) if repo.has_func(UTIL, qual) else None

        def interpret(fn, selfobj, unit, data, **kw):
            """the value `fn` returns for this configuration and this `data` (CEval: nothing of /repo is executed)."""
            env = {"self": selfobj, "flow_units": unit, "data": data}
            env.update(kw)
            return CEval(env, class_attr, resolve_fn).run(fn.body)

        def evaluate(fn, selfobj, unit, **kw):
            try:
                r = interpret(fn, selfobj, unit, Lin(1.0, 0.0), **kw)
            except ProgError as e:
                raise Raised(e)
            if not isinstance(r, Lin):
                raise ExtractError("%s did not return a linear form for %s/%s (%r)" % (fn._qual, selfobj.name, unit.name, r))
            return r

        fns = {k: repo.func(UTIL, k) for k in ("HydParam._to_si", "HydParam._from_si", "QualParam._to_si", "QualParam._from_si")}
        chk.fn(*fns.values())
        nconf = 0
        for p in hyd_members:
            for u in sorted(flow):
                for dw in (False, True):
                    a = evaluate(fns["HydParam._to_si"], Obj("HydParam." + p, {}, "HydParam"), unit_obj(u), darcy_weisbach=dw)
                    b = evaluate(fns["HydParam._from_si"], Obj("HydParam." + p, {}, "HydParam"), unit_obj(u), darcy_weisbach=dw)
                    nconf += 1
                    cfg = "HydParam.%s/%s%s" % (p, u, "/darcy_weisbach" if dw else "")
                    chk.expect(a.c == 0 and b.c == 0 and a.k != 0 and b.k != 0, "R-C17-1a", "%s is linear (no additive term, non-zero factor)" % cfg, loc(fns["HydParam._to_si"]), found=(a, b))
                    chk.expect(close(a.k * b.k, 1.0, 1e-9), "R-C17-1b", "%s: from_si is the inverse of to_si" % cfg, loc(fns["HydParam._from_si"]),
                               "k_to * k_from must be 1", expected="k_from = %r" % (1.0 / a.k if a.k else None), found="k_to=%r k_from=%r" % (a.k, b.k))
                    ref = ref_hyd(p, u, REF_FLOW[u][1] if u in REF_FLOW else flow[u][1], dw)
                    if ref is None:
                        chk.note("HydParam.%s has no reference constant (only linearity/inverse checked)" % p)
                    else:
                        chk.expect(close(a.k, ref, 1e-8), "R-C17-1c", "%s: to_si factor equals the physical constant" % cfg, loc(fns["HydParam._to_si"]),
                                   expected=repr(ref), found=repr(a.k))
                    if p in ("Pressure", "Power", "Flow", "Length") and u in ("GPM", "LPS") and not dw:
                        chk.sample({"config": cfg, "k_to_si": a.k, "k_from_si": b.k, "reference": ref})
        orders = (0, 1, 2)
        for p in qual_members:
            for u in sorted(flow):
                for mname in sorted(mass):
                    for o in orders:
                        kw = dict(mass_units=mass_obj(mname), reaction_order=o)
                        a = evaluate(fns["QualParam._to_si"], Obj("QualParam." + p, {}, "QualParam"), unit_obj(u), **kw)
                        b = evaluate(fns["QualParam._from_si"], Obj("QualParam." + p, {}, "QualParam"), unit_obj(u), **kw)
                        nconf += 1
                        cfg = "QualParam.%s/%s/%s/order%d" % (p, u, mname, o)
                        chk.expect(a.c == 0 and b.c == 0 and a.k != 0 and b.k != 0, "R-C17-1a", "%s is linear" % cfg, loc(fns["QualParam._to_si"]), found=(a, b))
                        chk.expect(close(a.k * b.k, 1.0, 1e-9), "R-C17-1b", "%s: from_si is the inverse of to_si" % cfg, loc(fns["QualParam._from_si"]),
                                   "k_to * k_from must be 1", found="k_to=%r k_from=%r" % (a.k, b.k))
                        ref = ref_qual(p, u, REF_MASS.get(mname, mass[mname]), o)
                        if ref is not None:
                            chk.expect(close(a.k, ref, 1e-8), "R-C17-1c", "%s: to_si factor equals the physical constant" % cfg, loc(fns["QualParam._to_si"]),
                                       expected=repr(ref), found=repr(a.k))
                        if p in ("WallReactionCoeff",) and u in ("GPM", "LPS") and mname == "mg":
                            chk.sample({"config": cfg, "k_to_si": a.k, "k_from_si": b.k, "reference": ref})
        # mass_units=None: whatever the forward function accepts, its inverse must accept (sibling agreement), and be its inverse
        n_none = 0
        for p in qual_members:
            for u in ("GPM", "LPS"):
                for o in orders:
                    cfg = "QualParam.%s/%s/mass_units=None/order%d" % (p, u, o)
                    try:
                        a = evaluate(fns["QualParam._to_si"], Obj("QualParam." + p, {}, "QualParam"), unit_obj(u), mass_units=None, reaction_order=o)
                    except (Unknown, Raised) as e:
                        chk.note("QualParam._to_si with mass_units=None is not defined for %s (%s)" % (cfg, e))
                        continue
                    n_none += 1
                    try:
                        b = evaluate(fns["QualParam._from_si"], Obj("QualParam." + p, {}, "QualParam"), unit_obj(u), mass_units=None, reaction_order=o)
                    except (Unknown, Raised) as e:
                        chk.bad("R-C17-1d", "%s: from_si accepts what to_si accepts" % cfg, loc(fns["QualParam._from_si"]),
                                "to_si maps mass_units=None to a default unit; from_si fails on the same arguments (%s)" % e)
                        continue
                    chk.expect(close(a.k * b.k, 1.0, 1e-9), "R-C17-1d", "%s: from_si is the inverse of to_si" % cfg, loc(fns["QualParam._from_si"]),
                               found="k_to=%r k_from=%r" % (a.k, b.k))
        chk.extra["configurations"] = nconf
        chk.extra["exhaustive"] = True
        chk.floor("R-C17-1b", 15 * 11 * 2 + 8 * 11 * 4 * 3)

    # ---------------------------------------------------------------- R-C17-3 containers
    with chk.part("R-C17-3 containers"):
        # Each of the four methods is interpreted on a concrete dict / list / array / DataFrame whose elements are the symbolic
        # value scaled by distinct primes (so a permuted, dropped or unconverted element is visible), for every parameter x {US, metric}
        # unit x flag.  The scalar factor of the same configuration (R-C17-1) says what every element must have become.
        PRIMES = (2.0, 3.0, 5.0)
        KEYS = ("n2", "n3", "n1")        # insertion order differs from sorted order: a result assembled from re-ordered keys is visible
        IDX, COLS = ("row-labels",), ("column-labels",)

        def make_input(kind):
            elts = [Lin(p, 0.0) for p in PRIMES]
            if kind == "dict":
                return dict(zip(KEYS, elts))
            if kind == "list":
                return elts
            if kind == "ndarray":
                return Arr(elts)
            return Frame(Arr(elts), IDX, COLS)

        def converted(vals, k):
            vals = list(vals)
            return len(vals) == len(PRIMES) and all(isinstance(v, Lin) and v.c == 0 and close(v.k, p * k, 1e-12) for v, p in zip(vals, PRIMES))

        def tname(r):
            return {"Arr": "ndarray", "Arr0": "ndarray(0-d object)", "Frame": "DataFrame", "Lin": "float"}.get(type(r).__name__, type(r).__name__)

        def outcome(kind, r, k):
            """(type of the result, None) or (type, what is wrong with it)"""
            if kind == "dict":
                if type(r) is not dict:
                    return tname(r), "a dictionary goes in, %r comes out" % (r,)
                if set(r) != set(KEYS):
                    return "dict", "keys %s instead of the original %s" % (sorted(r, key=repr), list(KEYS))
                if not converted([r[x] for x in KEYS], k):
                    return "dict", "values are not the converted values of their keys: %r" % (r,)
                return "dict", None
            if kind in ("list", "ndarray"):
                want = {"list": list, "ndarray": Arr}[kind]
                if type(r) is not want:
                    return tname(r), "a %s goes in, %r comes out" % (kind, r)
                if not converted(r, k):
                    return kind, "elements are not converted one by one in order: %r" % (r,)
                return kind, None
            if not isinstance(r, Frame):
                return tname(r), "a DataFrame goes in, %r comes out" % (r,)
            if r.index is not IDX or r.columns is not COLS:
                return "DataFrame", "labels are not those of the input"
            if not (isinstance(r.values, Arr) and converted(r.values, k)):
                return "DataFrame", "values are not converted: %r" % (r.values,)
            return "DataFrame", None

        def configs(key):
            cls = key.split(".")[0]
            for p in (hyd_members if cls == "HydParam" else qual_members):
                for u in ("GPM", "LPS"):
                    for flag in ((False, True) if cls == "HydParam" else (0, 1)):
                        kw = dict(darcy_weisbach=flag) if cls == "HydParam" else dict(mass_units=mass_obj("mg"), reaction_order=flag)
                        yield "%s.%s/%s/%s" % (cls, p, u, flag), Obj("%s.%s" % (cls, p), {}, cls), unit_obj(u), kw

        KINDS = ("dict", "list", "ndarray", "dataframe")     # tuples are not documented inputs: tuple * int repeats, tuple * float raises
        behaviour = {}
        for key, fn in fns.items():
            res = {kind: {"types": set(), "raised": [], "wrong": []} for kind in KINDS}
            for cfg, selfobj, unit, kw in configs(key):
                k = evaluate(fn, selfobj, unit, **kw).k
                for kind in KINDS:
                    try:
                        r = interpret(fn, selfobj, unit, make_input(kind), **kw)
                    except ProgError as e:
                        res[kind]["types"].add("raises")
                        res[kind]["raised"].append("%s: %s" % (cfg, e))
                        continue
                    t, wrong = outcome(kind, r, k)
                    res[kind]["types"].add(t)
                    if wrong:
                        res[kind]["wrong"].append("%s: %s" % (cfg, wrong))
            behaviour[key] = {kind: "/".join(sorted(res[kind]["types"])) + ("(wrong values)" if res[kind]["wrong"] else "") for kind in KINDS}
            d, l = res["dict"], res["list"]
            chk.expect(not d["raised"], "R-C17-3", "%s: dict values are materialised as a list before np.array" % key, loc(fn),
                       "a dictionary must be accepted: np.array(data.values()) builds a 0-d object array, every arithmetic on it raises TypeError",
                       expected="no exception for any parameter / unit", found=d["raised"][:2] or None)
            chk.expect(not d["raised"] and not d["wrong"], "R-C17-3", "%s: dict result is rebuilt with the original keys" % key, loc(fn),
                       "dict in -> dict out, same keys, every value converted with the factor of the scalar case", found=(d["wrong"] or d["raised"])[:2] or None)
            chk.expect(not l["raised"] and not l["wrong"], "R-C17-3", "%s: list input is returned as a list" % key, loc(fn),
                       "list in -> list out, every element converted in order", found=(l["wrong"] or l["raised"])[:2] or None)
            f = res["dataframe"]
            chk.expect(not f["raised"] and not f["wrong"], "R-C17-3", "%s: DataFrame input is returned as a DataFrame with its labels" % key, loc(fn),
                       found=(f["wrong"] or f["raised"])[:2] or None)
        votes = {}
        for key in fns:
            votes.setdefault(tuple(sorted(behaviour[key].items())), []).append(key)
        base = dict(max(votes, key=lambda b: (len(votes[b]), "HydParam._from_si" in votes[b])))      # what most of the four do
        for key in fns:
            chk.expect(behaviour[key] == base, "R-C17-3", "%s handles the same container kinds as its siblings" % key, loc(fns[key]),
                       "result type per input kind (dict, list, ndarray, DataFrame), compared with what most of the four methods do", expected=base, found=behaviour[key])
        chk.floor("R-C17-3", 4 * 5)

    # ---------------------------------------------------------------- R-C17-4 dispatch
    with chk.part("R-C17-4 dispatch"):
        for fname, meth, unitarg in (("to_si", "_to_si", "from_units"), ("from_si", "_from_si", "to_units")):
            fn = repo.func(UTIL, fname)
            chk.fn(fn)
            got = {}
            for n in walk(fn):
                if isinstance(n, ast.If) and isinstance(n.test, ast.Call) and call_name(n.test) == "isinstance":
                    cls = unparse(n.test.args[1])
                    rets = [s for s in n.body if isinstance(s, ast.Return) and isinstance(s.value, ast.Call)]
                    if rets:
                        c = rets[0].value
                        got[cls] = (call_name(c), [unparse(a) for a in c.args] + ["%s=%s" % (k.arg, unparse(k.value)) for k in c.keywords])
            want = {"HydParam": ("param." + meth, [unitarg, "data", "darcy_weisbach"]),
                    "QualParam": ("param." + meth, [unitarg, "data", "mass_units", "reaction_order"])}
            for cls, (cn, args) in want.items():
                g = got.get(cls)
                okk = g is not None and g[0] == cn
                if okk:
                    # positional order must match the callee's signature; keywords are accepted too
                    callee = fns["%s.%s" % (cls, meth)]
                    params = [a.arg for a in callee.args.args][1:]
                    bound = {}
                    pos = [a for a in g[1] if "=" not in a]
                    for pn, a in zip(params, pos):
                        bound[pn] = a
                    for a in g[1]:
                        if "=" in a:
                            k, v = a.split("=", 1)
                            bound[k] = v
                    wantb = dict(zip(params, args))
                    okk = all(bound.get(k) == v for k, v in wantb.items())
                chk.expect(okk, "R-C17-4", "%s dispatches %s to %s with every flag forwarded" % (fname, cls, meth), loc(fn),
                           expected=(cn, args), found=g)
        chk.floor("R-C17-4", 4)

    # ---------------------------------------------------------------- R-C17-5 the two directions default every option alike
    with chk.part("R-C17-5 the two directions default every option alike"):
        # from_si(u, to_si(u, x, p), p) must be x when the optional arguments are OMITTED too: a default that differs between the forward
        # function and its inverse (reaction_order 1 one way, 0 the other) makes the round trip wrong by the conversion factor.
        def defaults(fn, skip):
            a = fn.args
            names = [x.arg for x in a.args]
            out = {}
            for nm, dv in zip(names[len(names) - len(a.defaults):], a.defaults):
                out[nm] = unparse(dv)
            for x, dv in zip(a.kwonlyargs, a.kw_defaults):
                if dv is not None:
                    out[x.arg] = unparse(dv)
            for nm in names[skip:]:
                out.setdefault(nm, "<required>")
            return out
        pairs = [("to_si", "from_si", repo.func(UTIL, "to_si"), repo.func(UTIL, "from_si"), 1),
                 ("HydParam._to_si", "HydParam._from_si", fns["HydParam._to_si"], fns["HydParam._from_si"], 2),
                 ("QualParam._to_si", "QualParam._from_si", fns["QualParam._to_si"], fns["QualParam._from_si"], 2)]
        for an, bn, fa, fb, skip in pairs:
            da, db = defaults(fa, skip), defaults(fb, skip)
            for opt in sorted(set(da) | set(db)):
                if opt in ("data", "param"):
                    continue
                chk.expect(da.get(opt) == db.get(opt), "R-C17-5", "%s and %s give the option %r the same default" % (an, bn, opt), loc(fb),
                           "with the option omitted on both sides the inverse must undo the forward conversion", expected="%s=%s (as %s)" % (opt, da.get(opt), an),
                           found="%s=%s" % (opt, db.get(opt)))
        chk.floor("R-C17-5", 6)


WITNESSES = [
    dict(name="forward-function-defaults-first-order", file=UTIL, old="        darcy_weisbach: bool = False,\n        reaction_order: int = 0,\n):\n    \"\"\"Convert an EPANET parameter from internal to SI standard units.",
         new="        darcy_weisbach: bool = False,\n        reaction_order: int = 1,\n):\n    \"\"\"Convert an EPANET parameter from internal to SI standard units.", rule="R-C17-5"),
    dict(name="wall-coefficient-area-factor-upside-down-both-directions", file=UTIL,
         old="data = data * (mass_units.factor / 0.09290304 / 86400.0)  # M/ft2/d to SI", new="data = data * (mass_units.factor * 0.092903 / 86400.0)  # M/ft2/d to SI",
         also=[("data = data / (mass_units.factor / 0.09290304 / 86400.0)  # M/ft2/d fr SI", "data = data / (mass_units.factor * 0.092903 / 86400.0)  # M/ft2/d fr SI")], rule="R-C17-1c"),
    dict(name="from-si-without-the-None-default", file=UTIL,
         old="        if mass_units is None:\n            mass_units = MassUnits.mg\n\n        # Do conversions\n        if self in [QualParam.Concentration, QualParam.Quality,\n                    QualParam.LinkQuality, QualParam.ReactionRate]:\n            data = data / (",
         new="        # Do conversions\n        if self in [QualParam.Concentration, QualParam.Quality,\n                    QualParam.LinkQuality, QualParam.ReactionRate]:\n            data = data / (", rule="R-C17-1d"),
    dict(name="psi-constant", file=UTIL, old="                data = data * (0.3048 / 0.4333)", new="                data = data * (0.3048 / 0.4335)", rule="R-C17-1"),
    dict(name="hp-constant-one-side", file=UTIL, old="                data = data / 745.699872  # hp from W", new="                data = data / 745.7  # hp from W", rule="R-C17-1b"),
    dict(name="imgd-moved-to-metric", file=UTIL, old="            FlowUnits.IMGD,\n            FlowUnits.AFD,\n        ]", new="            FlowUnits.AFD,\n        ]", rule="R-C17-2"),
    dict(name="gallon", file=UTIL, old="GPM = (1, (0.003785411784 / 60.0))", new="GPM = (1, (0.003785411 / 60.0))", rule="R-C17-2"),
    dict(name="wall-order-branch", file=UTIL, old="                data = data / (0.3048 / 86400.0)  # ft/d fr m/s", new="                data = data / (0.3048 / 8640.0)  # ft/d fr m/s", rule="R-C17-1b"),
    dict(name="additive-term", file=UTIL, old="            data = data * 3600000.0  # kW*hr to J", new="            data = data * 3600000.0 + 1.0  # kW*hr to J", rule="R-C17-1a"),
    dict(name="flag-not-forwarded", file=UTIL, old="        return param._from_si(to_units, data, mass_units, reaction_order)", new="        return param._from_si(to_units, data, mass_units)", rule="R-C17-4"),
    dict(name="hyd-dict-values", file=UTIL, old="            data = np.array(list(data.values()))\n        elif isinstance(data, list):\n            original_data_type = 'list'\n            data = np.array(data)\n\n        # Do onversions",
         new="            data = np.array(data.values())\n        elif isinstance(data, list):\n            original_data_type = 'list'\n            data = np.array(data)\n\n        # Do onversions", rule="R-C17-3"),
    dict(name="reorder-preserving", file=UTIL, old="                data = data * (0.001 * 0.3048)  # 1e-3 ft to m", new="                data = data * (0.3048 * 0.001)  # 1e-3 ft to m", silent=True),
    dict(name="length-via-temp-preserving", file=UTIL, old="                data = data * 0.3048  # ft to m\n\n        elif self in [HydParam.HeadLoss]:",
         new="                ft = 0.3048\n                data = ft * data  # ft to m\n\n        elif self in [HydParam.HeadLoss]:", silent=True),
    # ---- R-C17-3 (containers): mutations
    dict(name="list-result-left-as-array", file=UTIL,
         old="        if original_data_type  == 'dict':\n            data = dict(zip(data_keys, data))\n        elif original_data_type == 'list':\n            data = list(data)\n",
         new="        if original_data_type  == 'dict':\n            data = dict(zip(data_keys, data))\n", rule="R-C17-3"),
    dict(name="dict-rebuilt-with-positions-instead-of-keys", file=UTIL,
         old="            data = pd.DataFrame(data, columns=data_columns, index=data_index)\n        elif original_data_type == 'dict':\n            data = dict(zip(data_keys, data))",
         new="            data = pd.DataFrame(data, columns=data_columns, index=data_index)\n        elif original_data_type == 'dict':\n            data = dict(enumerate(data))", rule="R-C17-3"),
    dict(name="list-branch-missing-in-one-sibling", file=UTIL,
         old="        # Convert to array for conversion\n        original_data_type = None\n        if isinstance(data, dict):\n            original_data_type = 'dict'\n            data_keys = data.keys()\n"
             "            data = np.array(list(data.values()))\n        elif isinstance(data, list):\n            original_data_type = 'list'\n            data = np.array(data)\n",
         new="        # Convert to array for conversion\n        original_data_type = None\n        if isinstance(data, dict):\n            original_data_type = 'dict'\n            data_keys = data.keys()\n"
             "            data = np.array(list(data.values()))\n", rule="R-C17-3"),
    dict(name="dataframe-index-dropped", file=UTIL, old="            data = pd.DataFrame(data, columns=data_columns, index=data_index)",
         new="            data = pd.DataFrame(data, columns=data_columns)", rule="R-C17-3"),
    dict(name="dict-values-attached-to-the-wrong-keys", file=UTIL,
         old="        elif original_data_type == 'list': \n            data = list(data)",
         new="        elif original_data_type == 'list': \n            data = list(data)\n        if original_data_type == 'dict':\n            data = dict(zip(data_keys, list(data.values())[::-1]))", rule="R-C17-3"),
    # ---- R-C17-3: behaviour-preserving reshapes of the container prologue / epilogue
    dict(name="containers-extracted-into-helpers-preserving", file=UTIL,
         old="        # Convert to array for conversion\n        original_data_type = None\n        if isinstance(data, dict):\n            original_data_type = 'dict'\n            data_keys = data.keys()\n"
             "            data = np.array(list(data.values()))\n        elif isinstance(data, list):\n            original_data_type = 'list'\n            data = np.array(data)\n",
         new="        data, original_data_type, data_keys = _w_flatten(data)\n",
         also=[("        if original_data_type  == 'dict':\n            data = dict(zip(data_keys, data))\n        elif original_data_type == 'list':\n            data = list(data)\n            \n        return data\n\n\nclass StatisticsType(enum.Enum):",
                "        return _w_restore(data, original_data_type, data_keys)\n\n\n"
                "def _w_flatten(data):\n    if isinstance(data, dict):\n        return np.array(list(data.values())), 'dict', data.keys()\n    if isinstance(data, list):\n        return np.array(data), 'list', None\n    return data, None, None\n\n\n"
                "def _w_restore(data, kind, keys):\n    if kind == 'dict':\n        return dict(zip(keys, data))\n    if kind == 'list':\n        return list(data)\n    return data\n\n\nclass StatisticsType(enum.Enum):")],
         silent=True),
    dict(name="restore-helper-returning-from-a-loop-preserving", file=UTIL,      # not inlinable by the normaliser: the evaluator follows the call
         old="        if original_data_type  == 'dict':\n            data = dict(zip(data_keys, data))\n        elif original_data_type == 'list':\n            data = list(data)\n            \n        return data\n\n\nclass StatisticsType(enum.Enum):",
         new="        return _w_restore(data, original_data_type, data_keys if original_data_type == 'dict' else None)\n\n\n"
             "def _w_restore(data, kind, keys):\n    for name in ('dict', 'list'):\n        if kind == name:\n            if name == 'dict':\n                return {k: v for k, v in zip(keys, data)}\n            return [v for v in data]\n    return data\n\n\nclass StatisticsType(enum.Enum):",
         silent=True),
    dict(name="epilogue-comprehensions-and-early-returns-preserving", file=UTIL,
         old="            data = pd.DataFrame(data, columns=data_columns, index=data_index)\n        elif original_data_type == 'dict':\n            data = dict(zip(data_keys, data))\n        elif original_data_type == 'list':\n            data = list(data)\n",
         new="            return pd.DataFrame(data, columns=data_columns, index=data_index)\n        if original_data_type == 'dict':\n            out = {}\n            for key, value in zip(data_keys, data):\n                out[key] = value\n            return out\n"
             "        if original_data_type == 'list':\n            return [value for value in data]\n",
         silent=True),
    dict(name="prologue-tuple-isinstance-preserving", file=UTIL,
         old="        # Convert to array for conversion\n        original_data_type = None\n        if isinstance(data, dict):\n            original_data_type = 'dict'\n            data_keys = data.keys()\n"
             "            data = np.array(list(data.values()))\n        elif isinstance(data, list):\n            original_data_type = 'list'\n            data = np.array(data)\n",
         new="        original_data_type = None\n        if isinstance(data, (dict, list)):\n            original_data_type = 'dict' if isinstance(data, dict) else 'list'\n            if original_data_type == 'dict':\n                data_keys = list(data)\n"
             "            data = np.asarray([data[k] for k in data_keys] if original_data_type == 'dict' else data)\n",
         silent=True),
]
