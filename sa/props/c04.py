"""C04 -- time-based controls and rules act exactly at their configured instants."""
import ast
import math
import re

from ..src import loc, unparse, AnchorError, ExtractError
from ..symx import SymExec, Opaque, State

CTRL = "wntr/network/controls.py"
CORE = "wntr/sim/core.py"
MODEL = "wntr/network/model.py"
IO = "wntr/epanet/io.py"

EXPLANATION = (
    "Mostly T3: finite evaluation of the repository's parsed code by the in-house interpreter (sa/concrete.py; nothing is imported or executed natively) on "
    "fixtures, bounded to them. R-C04-1: SimTimeCondition.evaluate and TimeOfDayCondition.evaluate are run on a half-hour lattice of (previous, current) "
    "times against 3-4 thresholds, per relation and repeat mode; truth value and back-track must follow the instant / interval semantics (`=` exactly at the "
    "instant; `>` / `<` strict, `>=` / `<=` inclusive at the current time, both classes alike). R-C04-2: the model's shifted-time properties on 5 fixtures. "
    "R-C04-3, -4, -6: the pre-solve scheduler and the feasibility / post-solve runners are run on stand-in controls, rules and change tracker over 16 "
    "scenarios (ties, several instants, first step, continued run) and compared with an "
    "independently written oracle: order of the actions (-3), rule instants, rule clock and the (previous, current) window the conditions see, incl. real "
    "SimTimeCondition rules (-4), sim_time on return (-6). T2, symbolic path enumeration of run_sim: the rule clock stored before the loop is an integer "
    "literal >= 1 on a first step (-4, one numeric test, no normal form); the time advance is extracted as a sympy expression and then checked on 7 sample "
    "(t, h) pairs only (-6). R-C04-5 (T2, DecidedExec: symbolic execution with the tests decided for one concrete case at a time, exhaustive over every "
    "condition class and _ControlType member): the control type stored by Control / Rule and which checker receives which type. R-C04-7 (T2, call events "
    "bound by the callee's signature, compared as text): the arguments with which Control._time_control and the INP reader build time conditions. Decides "
    "the truth tables on the lattice and the scheduler on the scenarios, not EPANET's own timeline.")
RULE_TEXT = ("one instance = one (condition class, relation, repeat mode) truth table, one (scenario, aspect) of the simulated scheduler, one classification or "
             "construction fact")
ASSUMPTIONS = ["previous solved time < current time; thresholds and times are whole seconds", "`ne` conditions are not required by the statement",
               "a control's effect on the scheduler is whether the change tracker reports a change; priorities are integers (ControlPriority is an IntEnum)",
               "at one instant the rules act before the simple controls (WNTR's documented choice to match EPANET)"]

H = 3600.0
DAY = 86400.0
RELS = {"eq": lambda a, b: a == b, "gt": lambda a, b: a > b, "ge": lambda a, b: a >= b, "lt": lambda a, b: a < b, "le": lambda a, b: a <= b}


# ------------------------------------------------------------------ concrete evaluation of repository code on mock objects (sa/concrete.py)
class Mock(object):
    """plain attribute bag handed to the interpreted code (a read of an attribute it does not have is `could not analyse`)."""
    _sa_mock = True

    def __init__(self, label="mock", **kw):
        self._label = label
        self.__dict__.update(kw)

    def __repr__(self):
        return "<%s>" % self._label


class _Cmp(object):
    """member of the stand-in for the enum Comparison (identity semantics, the attributes the enum offers)."""
    _sa_mock = True

    def __init__(self, idx, name, func, symbol, text):
        self.name, self.func, self.symbol, self.text = name, func, symbol, text
        self.value = self._value_ = (idx, func)

    def __call__(self, a, b):
        return self.func(a, b)

    def __repr__(self):
        return "Comparison." + self.name


def comparison_enum():
    import operator
    ns = Mock("Comparison")
    for i, (nm, f, sym, txt) in enumerate((("gt", operator.gt, ">", "After"), ("ge", operator.ge, ">=", "Above"), ("lt", operator.lt, "<", "Before"),
                                           ("le", operator.le, "<=", "Below"), ("eq", operator.eq, "=", "Is"), ("ne", operator.ne, "<>", "Not")), 1):
        setattr(ns, nm, _Cmp(i, nm, f, sym, txt))
    return ns


def make_world(repo, extra=None, fuel=60000000):
    """a World whose numpy knows the scalar functions time arithmetic uses and whose Comparison enum is the stand-in above."""
    from ..concrete import World, stdlib_overrides
    import operator
    ov, state = stdlib_overrides()
    np_ = ov["numpy"]
    for nm, f in (("floor", lambda x: float(math.floor(x))), ("ceil", lambda x: float(math.ceil(x))), ("mod", lambda a, b: a % b), ("remainder", lambda a, b: a % b),
                  ("floor_divide", lambda a, b: a // b), ("greater", operator.gt), ("greater_equal", operator.ge), ("less", operator.lt), ("less_equal", operator.le),
                  ("equal", operator.eq), ("not_equal", operator.ne), ("round", round), ("fabs", math.fabs), ("trunc", lambda x: float(math.trunc(x)))):
        if not hasattr(np_, nm):
            setattr(np_, nm, f)
    cmp_ = comparison_enum()
    ov["wntr.network.controls.Comparison"] = cmp_
    from ..concrete import Namespace
    ov["six"] = Namespace("six", with_metaclass=lambda meta, *bases: (bases[0] if bases else object), string_types=(str,), integer_types=(int,))
    ov.update(extra or {})
    world = World(repo, ov, fuel=fuel)
    world.log_state = state          # {'log_level': n}: what the module loggers report as their effective level
    return world, cmp_


def instance_of(world, rel, clsname, **attrs):
    """an instance of a repository class whose state is set directly (its constructor is not part of the fact under analysis)."""
    from ..concrete import Instance, ClassRef
    c = world.function(rel, clsname)
    if not isinstance(c, ClassRef):
        raise AnchorError("%s is not a class of %s" % (clsname, rel))
    inst = Instance(c)
    # plain fields the constructors of the class chain initialise with a literal (self._n = 0, self._cache = {}, self._x = None) are given that value first: the
    # state under analysis is then laid over them, and a field the code under analysis added to __init__ exists
    try:
        chain = [k for k in c.mro() if isinstance(k, ClassRef)]
    except Exception:
        chain = [c]
    for k in reversed(chain):
        ini = next((n for n in k.node.body if isinstance(n, ast.FunctionDef) and n.name == "__init__"), None)
        for st in (ini.body if ini is not None else []):
            if isinstance(st, ast.Assign) and len(st.targets) == 1 and isinstance(st.targets[0], ast.Attribute) and isinstance(st.targets[0].value, ast.Name) \
                    and st.targets[0].value.id == "self":
                try:
                    inst._attrs[st.targets[0].attr] = ast.literal_eval(st.value)
                except (ValueError, SyntaxError, TypeError):
                    pass
    inst._attrs.update(attrs)
    return inst


def interpreted(what, thunk):
    """run thunk(); -> (value, None) or (None, text of the exception the interpreted program raised).  A program error that only says the
    mock world lacks something (AttributeError / NameError on our stand-ins) is `could not analyse`."""
    from ..concrete import ProgramError
    try:
        return thunk(), None
    except ProgramError as e:
        if isinstance(e.exc, (AttributeError, NameError)):
            raise ExtractError("%s needs something the mock world does not provide: %s (line %s)" % (what, e, e.lineno))
        return None, "%s at line %s" % (e, e.lineno)


def instants_hit(prev, cur, thr, period, kmin=0):
    """largest instant thr + k*period (k >= kmin) in (prev, cur], or None."""
    if period is None:
        return thr if prev < thr <= cur else None
    k = math.floor((cur - thr) / period)
    if k < kmin:
        return None
    t = thr + k * period
    return t if prev < t <= cur else None


def run(repo, chk):
    condition_rules(repo, chk)             # R-C04-1, R-C04-2
    scheduler_rules(repo, chk)             # R-C04-3, R-C04-4, R-C04-6 (the scheduler and the two other control runners, by simulation)
    run_sim_rules(repo, chk)               # R-C04-4, R-C04-6 (what run_sim hands to the scheduler)
    classification_rules(repo, chk, "R-C04-5")
    construction_rules(repo, chk)          # R-C04-7


# ------------------------------------------------------------------ R-C04-1 / R-C04-2: truth tables of the time conditions, time frames
def dense_pairs(tmax_h, steps_h=(0.5, 1.0, 1.5), grain_h=0.5):
    out = []
    t = 0.0
    while t <= tmax_h:
        for st in steps_h:
            out.append((t * H, (t + st) * H))
        t += grain_h
    return out


def judge(rel, prev, cur, thr, period, res, bt, frame):
    region = "prev=%gh cur=%gh" % (prev / H, cur / H)
    if rel == "eq":
        hit = instants_hit(prev, cur, thr, period)
        want = hit is not None
        if bool(res) != want:
            return (region, False, "returned %s, the instant %s in (prev, cur]" % (res, "is" if want else "is not"))
        if want and (bt is None or abs(bt - (cur - hit)) > 1e-9):
            return (region, False, "backtrack %s, expected %g s" % (bt, cur - hit))
        return (region, True, "")
    # range relations (before / after, <, <=, >, >=): true exactly while the relation holds at the current time, whatever the previous time was
    # (`>` and `<` are strict, `>=` and `<=` include the threshold instant; a step that straddles the threshold does not keep `<=` true)
    f = RELS[rel]
    want = bool(f(frame(cur), thr))
    if bool(res) != want:
        return (region, False, "%s, but `%s` %s at the current time %gh (clock %gh vs threshold %gh)" % (
            "True" if res else "False", rel, "holds" if want else "does not hold", cur / H, frame(cur) / H, thr / H))
    if res:
        if bt is None or bt < 0 or bt > cur - prev:
            return (region, False, "True with backtrack %s outside [0, cur-prev]" % bt)
        tstar = cur - bt
        if not f(frame(tstar), thr):
            return (region, False, "True, but `%s` does not hold at the acting time %gh (clock %gh vs threshold %gh)" % (rel, tstar / H, frame(tstar) / H, thr / H))
    return (region, True, "")


def condition_rules(repo, chk):
    sim_fn = repo.func(CTRL, "SimTimeCondition.evaluate")
    tod_fn = repo.func(CTRL, "TimeOfDayCondition.evaluate")
    chk.fn(sim_fn, tod_fn)
    world, cmp_ = make_world(repo)
    it = world.interp

    def evaluate(cname, attrs):
        """-> (returned value, _backtrack afterwards, error text): the method evaluate of the class, run by the interpreter on an object in the given state."""
        inst = instance_of(world, CTRL, cname, **attrs)
        res, err = interpreted("%s.evaluate" % cname, lambda: it.getattr_(inst, "evaluate")())
        bt = inst._attrs.get("_backtrack")
        if err is None and not (res is None or res is True or res is False or isinstance(res, (int, float))):
            raise ExtractError("%s.evaluate returned %r" % (cname, res))
        if bt is not None and not isinstance(bt, (int, float)):
            raise ExtractError("%s.evaluate left _backtrack = %r" % (cname, bt))
        return res, bt, err

    def model_at(cur, prev, start):
        """the network model as the conditions see it: a WaterNetworkModel object (its own time properties are the repository's) at the given times."""
        opts = Mock("options", time=Mock("options.time", start_clocktime=start, rule_timestep=360, hydraulic_timestep=3600, pattern_timestep=3600, report_timestep=3600, duration=10 * DAY))
        return instance_of(world, MODEL, "WaterNetworkModel", sim_time=cur, _prev_sim_time=prev, options=opts, _options=opts)

    def table(kind, rel, repeat):
        """-> list of (region, ok, detail).  Representative points of every ordering of previous < current time against the threshold instants:
        a half-hour lattice over two days with steps of 0.5, 1 and 1.5 h (so that instants on and off the step boundaries, steps straddling
        midnight and steps containing no instant all occur), thresholds on the lattice, off the lattice, at 0:00 and just before midnight, and
        a start_clocktime of 0 and 6 h."""
        rows = []
        if kind == "sim":
            period = None if not repeat else 10 * H
            for thr in (2 * H, 0.0, 3.25 * H):
                for prev, cur in dense_pairs(30 if repeat else 8):
                    if prev == 0.0 and thr == 0.0:
                        continue      # the instant t = 0 is the initial state, not a crossing
                    model = model_at(cur, prev, 0.0)
                    attrs = {"_model": model, "_threshold": thr, "_relation": getattr(cmp_, rel), "_repeat": (period if repeat else False), "_backtrack": 0, "_first_time": 0}
                    res, bt, err = evaluate("SimTimeCondition", attrs)
                    if err:
                        rows.append((("thr=%gh prev=%gh cur=%gh" % (thr / H, prev / H, cur / H)), False, "raised " + err))
                        continue
                    rows.append(judge(rel, prev, cur, thr, period, res, bt, frame=lambda t, thr=thr, period=period: t if period is None else ((t - thr) % period + thr if t >= thr else t)))
        else:
            period = DAY if repeat else None
            for thr in (2 * H, 23.5 * H, 0.0, 12.25 * H):
                for start in (0.0, 6 * H):
                    for prev, cur in dense_pairs(50 if repeat else 26):
                        sp_, sc_ = prev + start, cur + start
                        if not repeat and (sc_ >= DAY):
                            continue          # a once-only clock-time condition lives on its first day
                        if prev == 0.0 and (thr - start) % DAY == 0.0:
                            continue          # threshold instant == start of the simulation: initial state, not a crossing
                        model = model_at(cur, prev, start)
                        attrs = {"_model": model, "_threshold": thr, "_relation": getattr(cmp_, rel), "_repeat": bool(repeat), "_backtrack": 0, "_first_day": 0}
                        res, bt, err = evaluate("TimeOfDayCondition", attrs)
                        if err:
                            rows.append((("thr=%gh start=%gh prev=%gh cur=%gh" % (thr / H, start / H, prev / H, cur / H)), False, "raised " + err))
                            continue
                        r_ = judge(rel, sp_, sc_, thr, period, res, bt, frame=(lambda t: t % DAY) if repeat else (lambda t: t))
                        rows.append(("thr=%gh start=%gh %s" % (thr / H, start / H, r_[0]), r_[1], r_[2]))
        return rows

    # a sim-time `repeat` is only meaningful for `at` instants (the class documents that repeat turns the relation into an at-time evaluation)
    combos = [("sim", r, False) for r in ("eq", "gt", "ge", "lt", "le")] + [("sim", "eq", True)] + [("tod", r, rp) for r in ("eq", "gt", "ge", "lt", "le") for rp in (True, False)]
    for kind, rel, rp in combos:
        cname = "SimTimeCondition" if kind == "sim" else "TimeOfDayCondition"
        fn = sim_fn if kind == "sim" else tod_fn
        mode = ("repeat every 10 h" if kind == "sim" else "daily") if rp else "once"
        rows = table(kind, rel, rp)
        bad = [(r, d) for r, ok_, d in rows if not ok_]
        keyword = {"eq": "at", "gt": "after / >", "ge": ">=", "lt": "before / <", "le": "<="}[rel]
        chk.expect(not bad, "R-C04-1", "%s.evaluate relation %s (%s), %s: true exactly at the instant / on the interval, with the right partial step" % (cname, rel, keyword, mode), loc(fn),
                   "time condition truth table over the orderings of previous < current time against the threshold (threshold 2:00)",
                   expected="instant/interval semantics of the statement", found="; ".join("%s: %s" % b for b in bad[:4]))
        chk.sample({"rule": "R-C04-1", "condition": cname, "relation": rel, "mode": mode, "regions": len(rows), "failing": [b[0] for b in bad]})
    # sibling agreement at the threshold instant itself: `>` / `<` are strict and `>=` / `<=` inclusive for BOTH condition classes and repeat modes
    for rel, incl in (("gt", False), ("ge", True), ("lt", False), ("le", True)):
        got = {}
        for thr, prev in ((2 * H, 1 * H), (12.25 * H, 12 * H)):
            variants = (("SimTimeCondition once", "SimTimeCondition", {"_repeat": False, "_first_time": 0}),
                        ("TimeOfDayCondition once", "TimeOfDayCondition", {"_repeat": False, "_first_day": 0}),
                        ("TimeOfDayCondition daily", "TimeOfDayCondition", {"_repeat": True, "_first_day": 0}),
                        ("TimeOfDayCondition daily, second day", "TimeOfDayCondition", {"_repeat": True, "_first_day": 0, "day": 1}))
            for vname, cname, extra in variants:
                extra = dict(extra)
                off = DAY * extra.pop("day", 0)
                attrs = {"_model": model_at(thr + off, prev + off, 0.0), "_threshold": thr, "_relation": getattr(cmp_, rel), "_backtrack": 0}
                attrs.update(extra)
                res, bt, err = evaluate(cname, attrs)
                got["%s, threshold %gh" % (vname, thr / H)] = ("raised " + err) if err else bool(res)
        keyword = {"gt": "after / >", "ge": ">=", "lt": "before / <", "le": "<="}[rel]
        chk.expect(all(v is incl for v in got.values()), "R-C04-1",
                   "relation %s (%s) exactly at the threshold instant is %s for sim-time and clock-time conditions alike" % (rel, keyword, incl), loc(tod_fn),
                   "EPANET and the sibling class treat `>` / `<` as strict and `>=` / `<=` as inclusive; a class that differs makes `AFTER t` act one step early",
                   expected=incl, found=dict((k, v) for k, v in got.items() if v is not incl) or got)
    chk.floor("R-C04-1", 20)

    # frames: the model's shifted time adds start_clocktime to both current and previous time (the properties are evaluated on a model object)
    for prop, base in (("_shifted_time", "sim_time"), ("_prev_shifted_time", "_prev_sim_time")):
        f = repo.func(MODEL, "WaterNetworkModel.%s" % prop, kind="getter")
        chk.fn(f)
        wrong = []
        for cur, prev, start in ((7200.0, 3600.0, 0.0), (7200.0, 3600.0, 21600.0), (90000.0, 86400.0, 43200.0), (0.0, -1, 3600.0), (1234.0, 1000.0, 86399.0)):
            opts = Mock("options", time=Mock("options.time", start_clocktime=start))
            wn = instance_of(world, MODEL, "WaterNetworkModel", sim_time=cur, _prev_sim_time=prev, options=opts, _options=opts)
            val, err = interpreted("WaterNetworkModel.%s" % prop, lambda: it.getattr_(wn, prop))
            want = (cur if base == "sim_time" else prev) + start
            if err or not isinstance(val, (int, float)) or abs(val - want) > 1e-9:
                wrong.append("%s=%g start_clocktime=%g -> %s (expected %g)" % (base, cur if base == "sim_time" else prev, start, err or val, want))
        chk.expect(not wrong, "R-C04-2", "WaterNetworkModel.%s = %s + start_clocktime" % (prop, base), loc(f), found="; ".join(wrong[:3]))


# ------------------------------------------------------------------ R-C04-3 / R-C04-4 / R-C04-6: the scheduler, by simulation against an oracle
class _Runaway(Exception):
    """the interpreted scheduler keeps evaluating without making progress."""


class _MCtl(object):
    """stand-in for a control or rule: a name, a priority, whether running it changes the network, and (rules) when its condition holds."""
    _sa_mock = True

    def __init__(self, box, name, prio, effect, active=None):
        self._box, self.name, self._name, self.effect, self.active = box, name, name, effect, active
        self._priority = self.priority = prio

    def run_control_action(self):
        self._box["runs"].append(self.name)
        if len(self._box["runs"]) > 400:
            raise _Runaway("more than 400 control actions in one call")
        if self.effect:
            self._box["changed"] = True

    def __repr__(self):
        return "<control %s>" % self.name

    __str__ = __repr__


class _MChecker(object):
    _sa_mock = True

    def __init__(self, fn):
        self._fn = fn

    def check(self):
        return self._fn()

    def __iter__(self):
        return iter(())


class _MTracker(object):
    """stand-in for ControlChangeTracker: `changes_made` answers whether an action with an effect ran since the reference point was set."""
    _sa_mock = True

    def __init__(self, box):
        self._box = box

    def set_reference_point(self, key):
        self._box["changed"] = False

    def remove_reference_point(self, key):
        return None

    def changes_made(self, ref_point=None):
        return self._box["changed"]

    def get_changes(self, ref_point=None):
        return []


# presolve entries: (name, priority, backtrack, has effect) in the order the checker reports them; rules: (name, priority, active from, active to, has effect)
T0 = 3600
SCENARIOS = [
    dict(label="three instants, ties reported out of priority order, nothing changes", T=T0, r=360, k0=11, first=False,
         pres=[("a", 3, 100, 0), ("b", 1, 100, 0), ("c", 2, 500, 0), ("d", 1, 500, 0), ("e", 2, 100, 0), ("f", 0, 0, 0), ("g", 3, 500, 0), ("h", 1, 0, 0)], rules=[]),
    dict(label="later instant reported first with higher priority value, earliest instant changes the network", T=T0, r=360, k0=11, first=False,
         pres=[("late", 1, 50, 1), ("early_hi", 3, 900, 1), ("early_lo", 1, 900, 0), ("mid", 2, 400, 1)], rules=[]),
    dict(label="second instant changes the network", T=T0, r=360, k0=11, first=False,
         pres=[("x", 2, 700, 0), ("y", 3, 300, 0), ("z", 1, 300, 1), ("w", 2, 300, 0), ("v", 1, 10, 1)], rules=[]),
    dict(label="nothing changes: the step is not shortened", T=T0, r=360, k0=11, first=False,
         pres=[("x", 2, 700, 0), ("y", 3, 300, 0)], rules=[]),
    dict(label="rule instants interleaved with control instants, nothing changes", T=T0, r=360, k0=9, first=False,
         pres=[("p", 2, 500, 0), ("q", 3, 360, 0), ("q2", 1, 360, 0), ("s", 1, 100, 0), ("u", 2, 0, 0)],
         rules=[("R3", 3, 0, 99999, 0), ("R1", 1, 0, 99999, 0), ("R2", 2, 3600, 99999, 0), ("R0", 1, 0, 3300, 0)]),
    dict(label="only rules: three rule instants in the step, the rule becomes true at the second", T=T0, r=1200, k0=1, first=False,
         pres=[], rules=[("late", 1, 2400, 99999, 1), ("never", 0, 5000, 99999, 1), ("idle", 3, 0, 99999, 0)]),
    dict(label="rule instant before the control instant, the rule changes the network", T=T0, r=360, k0=9, first=False,
         pres=[("c1", 1, 100, 1)], rules=[("R", 2, 3240, 99999, 1)]),
    dict(label="control instant before the rule instant, the control changes the network", T=T0, r=360, k0=10, first=False,
         pres=[("c1", 1, 100, 1), ("c0", 2, 0, 1)], rules=[("R", 2, 0, 99999, 1)]),
    dict(label="control and rule at the same instant, only the control changes the network", T=T0, r=250, k0=14, first=False,
         pres=[("c1", 2, 100, 1), ("c2", 1, 100, 0), ("c3", 1, 40, 1)], rules=[("R", 2, 0, 99999, 0), ("Q", 1, 0, 99999, 0)]),
    dict(label="control and rule at the same instant, nothing changes, a later rule does", T=T0, r=300, k0=11, first=False,
         pres=[("c1", 2, 300, 0)], rules=[("R", 2, 3600, 99999, 1)]),
    dict(label="first step at t = 0: rules whose condition holds, controls without back-track", T=0, r=360, k0=1, first=True,
         pres=[("a", 3, 0, 0), ("b", 1, 0, 1), ("c", 2, 0, 0)], rules=[("R", 1, 0, 99999, 1)]),
    dict(label="first step at t = 0: a control reporting a back-track", T=0, r=360, k0=1, first=True,
         pres=[("a", 1, 250, 1)], rules=[]),
    dict(label="continued run: rule clock well inside the simulation", T=50 * T0, r=900, k0=197, first=False,
         pres=[("a", 1, 1000, 0), ("b", 1, 900, 0)], rules=[("R", 1, 0, 10 ** 9, 0)]),
    # rules that carry real time conditions (hydraulic step 3600 s, last solution at 3600 s, rule step 600 s): what a condition sees while the rules are checked
    dict(label="time rules between two hydraulic solutions: `=` on and off the rule grid, range relations, nothing changes", T=2 * T0, prev=T0, r=600, k0=7, first=False, real=True,
         pres=[], rules=[("at_on_grid", 1, "=", 4800, 0), ("at_off_grid", 2, "=", 5000, 0), ("from", 3, ">=", 6000, 0), ("until", 3, "<=", 4300, 0),
                         ("after", 2, ">", 6600, 0), ("before", 1, "<", 4800, 0)]),
    dict(label="time rules before, at and after a control instant, nothing changes", T=2 * T0, prev=T0, r=600, k0=7, first=False, real=True,
         pres=[("c", 2, 1800, 0)], rules=[("at_first", 1, "=", 4100, 0), ("at_second", 2, "=", 4800, 0), ("at_off_grid", 3, "=", 5000, 0), ("at_last", 1, "=", 7200, 0)]),
    dict(label="last hydraulic solution between two rule instants (partial step at 3700 s): `=` rules timed before and after it, nothing changes", T=2 * T0, prev=3700, r=600, k0=7,
         first=False, real=True, pres=[],
         rules=[("before_solution", 1, "=", 3650, 0), ("at_solution", 2, "=", 3700, 0), ("after_solution", 3, "=", 3900, 0), ("at_previous_instant", 1, "=", 3600, 0),
                ("next_window", 2, "=", 4201, 0)]),
    dict(label="an `=` rule off the rule grid changes the network at the first rule instant after its time", T=2 * T0, prev=T0, r=600, k0=7, first=False, real=True,
         pres=[("late", 1, 600, 1)], rules=[("earlier", 2, "=", 4700, 0), ("acting", 1, "=", 5000, 1)]),
]
RUNNERS = [
    ("_run_feasibility_controls", "_feasibility_controls", "feasibility"),
    ("_run_postsolve_controls", "_postsolve_controls", "post-solve"),
]
RUNNER_LISTS = [
    [("a", 3, 0, 1), ("b", 1, 0, 1), ("c", 2, 0, 1), ("d", 1, 0, 0), ("e", 0, 0, 1), ("f", 3, 0, 0), ("g", 2, 0, 1)],
    [("only", 2, 0, 1)],
]


def scheduler_oracle(sc):
    """the statement's schedule for one call: instants in time order (control instant = T - backtrack, rule instants = the multiples k * r <= T from
    the rule clock on); at one instant the rules act first, then the controls; within each, ascending priority (ties in reported order) so that the
    highest priority acts last; the call stops at the first instant at which something changed and leaves sim_time there."""
    T, r, k = sc["T"], sc["r"], sc["k0"]
    pres = [(n, p, (0 if sc["first"] else b), eff) for (n, p, b, eff) in sc["pres"]]
    order = sorted(range(len(pres)), key=lambda i: (-pres[i][2], pres[i][1]))
    groups = []
    for i in order:
        if groups and groups[-1][0] == pres[i][2]:
            groups[-1][1].append(i)
        else:
            groups.append((pres[i][2], [i]))
    runs, checks, true_at, changed, final, gi = [], [], [], False, T, 0
    while gi < len(groups) or k * r <= T:
        if gi >= len(groups):
            mode = "rules"
        else:
            tc, tr = T - groups[gi][0], k * r
            mode = "controls" if tc < tr else ("both" if tc == tr else "rules")
        if mode in ("rules", "both"):
            t = k * r
            k += 1
            checks.append(t)
            act = [j for j, ru in enumerate(sc["rules"]) if rule_holds(ru, t, t - r)]
            true_at.extend((sc["rules"][j][0], t) for j in act if isinstance(sc["rules"][j][2], str))
            act.sort(key=lambda j: sc["rules"][j][1])
            for j in act:
                runs.append(sc["rules"][j][0])
                changed = changed or bool(sc["rules"][j][4])
        if mode in ("controls", "both"):
            b, idxs = groups[gi]
            gi += 1
            t = T - b
            for i in idxs:
                runs.append(pres[i][0])
                changed = changed or bool(pres[i][3])
        if changed:
            final = t
            break
    return dict(runs=runs, checks=checks, final=final, k=k, true_at=true_at, windows=[(t - r, t) for t in checks])


def rule_holds(ru, t, since):
    """is the rule's condition true when the rules are evaluated at the rule instant t (the previous rule instant being `since`)?  A stand-in is
    true on its interval; a time condition with a range relation is true exactly while the relation holds at t; an `=` condition is true at the
    one rule instant whose window (since, t] contains the threshold -- the first rule instant at or after it."""
    if not isinstance(ru[2], str):
        return ru[2] <= t <= ru[3]
    if ru[2] == "=":
        return since < ru[3] <= t
    return RELS[REAL_RELS[ru[2]]](t, ru[3])


def simulator_world(repo, box):
    from ..concrete import Namespace

    def heads(wn):
        box["heads"].append(wn.sim_time)
    hyd = Namespace("wntr.sim.hydraulics", update_tank_heads=heads)
    world, cmp_ = make_world(repo, {"wntr.sim.hydraulics": hyd})
    world.cmp_enum = cmp_
    return world


REAL_RELS = {"=": "eq", ">=": "ge", ">": "gt", "<=": "le", "<": "lt"}


def simulator_instance(world, box, T, r, k0, pres, rules, extra=None, prev=None):
    """a WNTRSimulator whose collaborators are stand-ins; -> (sim, wn).  A rule given as (name, priority, relation text, threshold, changes)
    carries a real SimTimeCondition of the repository (evaluated by the interpreter on the model's sim_time / _prev_sim_time whenever the
    rules are checked); one given as (name, priority, from, to, changes) is simply true while from <= sim_time <= to."""
    times = Mock("options.time", rule_timestep=r, hydraulic_timestep=T0, report_timestep=T0, pattern_timestep=T0, duration=100 * T0, start_clocktime=0)
    if prev is None:
        prev = T - T0 if T else -1
    wn = Mock("wn", sim_time=T, _prev_sim_time=prev, options=Mock("options", time=times), name="mock")
    pres_objs = [(_MCtl(box, n, p, eff), b) for (n, p, b, eff) in pres]
    rule_objs = []
    for (n, p, a0, a1, eff) in rules:
        ru = _MCtl(box, n, p, eff, (a0, a1))
        ru.cond = None
        if isinstance(a0, str):
            ru.cond = instance_of(world, CTRL, "SimTimeCondition", _model=wn, _threshold=a1, _relation=getattr(world.cmp_enum, REAL_RELS[a0]), _repeat=False,
                                  _backtrack=0, _first_time=0)
        rule_objs.append(ru)

    def check_rules():
        box["checks"].append(wn.sim_time)
        box["windows"].append((wn._prev_sim_time, wn.sim_time))
        if len(box["checks"]) > 200:
            raise _Runaway("more than 200 evaluations of the rules in one call")
        out = []
        for ru in rule_objs:
            if ru.cond is None:
                hit = ru.active[0] <= wn.sim_time <= ru.active[1]
            else:
                hit = bool(world.interp.getattr_(ru.cond, "evaluate")())
                if hit:
                    box["true_at"].append((ru.name, wn.sim_time))
            if hit:
                out.append((ru, 0))
        return out
    attrs = dict(_wn=wn, _change_tracker=_MTracker(box), _presolve_controls=_MChecker(lambda: list(pres_objs)), _rules=_MChecker(check_rules),
                 _postsolve_controls=_MChecker(lambda: []), _feasibility_controls=_MChecker(lambda: []), _rule_iter=k0,
                 _hydraulic_timestep=T0, _report_timestep=T0, mode="DD")
    attrs.update(extra or {})
    return instance_of(world, CORE, "WNTRSimulator", **attrs), wn


def new_box():
    return dict(runs=[], checks=[], heads=[], windows=[], true_at=[], changed=False)


def sort_order_rules(repo, chk, rule):
    """stable entry point (also used by C05): the ordering obligations only -- the order in which triggered pre-solve controls, rules,
    feasibility and post-solve controls act -- reported under the given rule id."""
    scheduler_rules(repo, chk, order=rule, clock=None, time=None)


def scheduler_rules(repo, chk, order="R-C04-3", clock="R-C04-4", time="R-C04-6"):
    """simulate the scheduler and the two other control runners on the scenarios and compare with the oracle; the three aspects (order of the
    actions / rule clock / sim_time on return) are reported under the given rule ids, an aspect whose id is None is not reported."""
    sclasses = repo.classes(CORE)
    if "WNTRSimulator" not in sclasses:
        raise AnchorError("class WNTRSimulator vanished")
    smeths = resolved_methods(sclasses, "WNTRSimulator")
    SCHED = "_compute_next_timestep_and_run_presolve_controls_and_rules"
    for nm in [SCHED] + [r_[0] for r_ in RUNNERS]:
        if nm not in smeths:
            raise AnchorError("WNTRSimulator.%s vanished" % nm)
    pre = smeths[SCHED]
    chk.fn(pre)

    def expect(rule, cond, *a, **k):
        if rule is not None:
            chk.expect(cond, rule, *a, **k)
    pnames = [a.arg for a in pre.args.args]
    if len(pnames) != 2:
        raise AnchorError("%s: expected the parameters (self, first_step), found %s" % (SCHED, pnames))
    for log_level in (30, 1):
        for sc in SCENARIOS:
            if log_level == 1 and sc is not SCENARIOS[0] and sc is not SCENARIOS[4]:
                continue            # the trace-logging variant of the code paths is exercised on two scenarios
            box = new_box()
            world = simulator_world(repo, box)
            world.log_state["log_level"] = log_level
            sim, wn = simulator_instance(world, box, sc["T"], sc["r"], sc["k0"], sc["pres"], sc["rules"], prev=sc.get("prev"))
            prev0 = wn._prev_sim_time
            label = sc["label"] + (" [trace logging on]" if log_level == 1 else "")
            want = scheduler_oracle(sc)
            runaway = None
            try:
                _, err = interpreted(SCHED, lambda: world.interp.getattr_(sim, SCHED)(sc["first"]))
            except _Runaway as e:
                err, runaway = None, str(e)
            got = dict(runs=box["runs"], checks=box["checks"], final=wn.sim_time, k=sim._attrs.get("_rule_iter"), windows=box["windows"], true_at=box["true_at"])
            setting = "T = %d s, rule timestep %d s, rule clock %d, first_step = %s; pre-solve (name, priority, back-track, changes): %s; rules (name, priority, true from, to | relation, time, changes): %s" % (
                sc["T"], sc["r"], sc["k0"], sc["first"], sc["pres"], sc["rules"])
            if err:
                for rule in (order, clock, time):
                    if rule is not None:
                        chk.bad(rule, "[%s] the scheduler runs" % label, loc(pre), setting, found="raises " + err)
                continue
            expect(None if sc.get("real") else order, runaway is None and got["runs"] == want["runs"],
                       "[%s] actions run in time order and, at one instant, ascending by priority (the highest priority acts last and wins)" % label, loc(pre),
                       setting + " -- the scheduler rewinds to the first instant at which something changes and stops: an order whose primary key is not the firing "
                       "instant lets a control crossed later in the step pre-empt one crossed earlier; among equal instants the last writer wins",
                       expected=want["runs"], found=runaway or got["runs"])
            expect(clock, runaway is None and got["checks"] == want["checks"] and got["k"] == want["k"],
                       "[%s] rules are evaluated at the consecutive multiples of the rule timestep up to the step's end, each once, and the rule clock ends after the last one evaluated" % label,
                       loc(pre), setting, expected="evaluated at %s, clock -> %s" % (want["checks"], want["k"]), found=runaway or "evaluated at %s, clock -> %s" % (got["checks"], got["k"]))
            if want["checks"]:
                expect(clock, runaway is None and got["windows"] == want["windows"] and wn._prev_sim_time == prev0,
                       "[%s] while the rules are evaluated at a rule instant the time conditions see the window (previous rule instant, this rule instant]; "
                       "the time of the last hydraulic solution is back in place afterwards" % label, loc(pre),
                       setting + " -- on the window since the last hydraulic solution an `=` time rule is true again at every rule instant until the next solution",
                       expected="%s, then _prev_sim_time = %s" % (want["windows"], prev0), found=runaway or "%s, then _prev_sim_time = %s" % (got["windows"], wn._prev_sim_time))
            if sc.get("real"):
                expect(clock, runaway is None and got["true_at"] == want["true_at"] and got["runs"] == want["runs"],
                       "[%s] a time rule is reported true, and acts, exactly at the rule instants at which its condition holds: an `=` rule at the first rule instant "
                       "at or after its time and at no other, a range rule at every rule instant inside its interval" % label, loc(pre),
                       setting + " -- a rule that is true again at later rule instants re-applies its action and undoes what a later-firing rule did",
                       expected="true at %s; actions %s" % (want["true_at"], want["runs"]), found=runaway or "true at %s; actions %s" % (got["true_at"], got["runs"]))
            expect(time, runaway is None and got["final"] == want["final"],
                       "[%s] sim_time on return is the first instant at which something changed (the unshortened step if nothing did; never before t = 0 on the first step)" % label,
                       loc(pre), setting, expected=want["final"], found=runaway or got["final"])
            chk.sample({"rule": order or clock or time, "scenario": label, "runs": got["runs"], "rule_evaluations": got["checks"], "sim_time": got["final"], "rule_clock": got["k"]})
    for rule, n in ((order, len([sc for sc in SCENARIOS if not sc.get("real")])), (clock, len(SCENARIOS)), (time, len(SCENARIOS))):
        if rule is not None:
            chk.floor(rule, n)

    # the two other runners: feasibility and post-solve controls act ascending by priority (ties in reported order)
    for meth, attr, what in RUNNERS:
        fn = smeths[meth]
        chk.fn(fn)
        for lst in RUNNER_LISTS:
            for log_level in (30, 1):
                box = new_box()
                world = simulator_world(repo, box)
                world.log_state["log_level"] = log_level
                objs = [(_MCtl(box, n, p, eff), b) for (n, p, b, eff) in lst]
                sim, wn = simulator_instance(world, box, T0, 360, 11, [], [], extra={attr: _MChecker(lambda objs=objs: list(objs))})
                _, err = interpreted(meth, lambda: world.interp.getattr_(sim, meth)())
                want = [x[0] for x in sorted(lst, key=lambda x: x[1])]
                label = "%d %s controls reported as %s%s" % (len(lst), what, [(n, p) for n, p, _, _ in lst], " [trace logging on]" if log_level == 1 else "")
                expect(order, err is None and box["runs"] == want, "[%s] %s runs them ascending by priority (the highest priority acts last and wins)" % (label, meth), loc(fn),
                           "controls run in list order and later writes overwrite earlier ones", expected=want, found=err or box["runs"])
                expect(time, err is None and wn.sim_time == T0, "[%s] %s leaves sim_time alone" % (label, meth), loc(fn), expected=T0, found=err or wn.sim_time)


# ------------------------------------------------------------------ R-C04-4 / R-C04-6: what run_sim hands to the scheduler
class TrackingExec(SymExec):
    """SymExec in which a store to one of the `tracked` attribute paths is remembered on the path: a later load of that attribute yields the
    stored value (plain SymExec treats every load of an attribute as the same unknown)."""

    def __init__(self, tracked, **kw):
        SymExec.__init__(self, **kw)
        self.tracked = set(tracked)

    def e_Attribute(self, n, st):
        base = self.ev(n.value, st)
        if isinstance(base, Opaque) and ("@" + base.text + "." + n.attr) in st.env:
            return st.env["@" + base.text + "." + n.attr]
        return SymExec.e_Attribute(self, n, st)

    def assign(self, t, v, st, stmt=None):
        if isinstance(t, ast.Attribute):
            base = self.ev(t.value, st)
            if isinstance(base, Opaque) and (base.text + "." + t.attr) in self.tracked:
                st.events.append(("store", base.text + "." + t.attr, v, getattr(stmt, "lineno", 0), tuple(l[1] for l in st.loops)))
                st.env["@" + base.text + "." + t.attr] = v
                return
        return SymExec.assign(self, t, v, st, stmt)


def _forces_first_step(conds):
    """what the path conditions say about `sim_time == 0` at the start of run_sim: True / False / None (not determined)."""
    out = []

    def is_time(n):
        return isinstance(n, ast.Attribute) and n.attr == "sim_time"

    def walk_(node, val):
        if isinstance(node, ast.Call) and isinstance(node.func, ast.Name) and node.func.id == "bool" and len(node.args) == 1:
            return walk_(node.args[0], val)
        if isinstance(node, ast.UnaryOp) and isinstance(node.op, ast.Not):
            if is_time(node.operand):
                out.append(not val)
                return
            return walk_(node.operand, not val)
        if isinstance(node, ast.BoolOp):
            if (isinstance(node.op, ast.And) and val) or (isinstance(node.op, ast.Or) and not val):
                for v in node.values:
                    walk_(v, val)
            return
        if isinstance(node, ast.Compare) and len(node.ops) == 1:
            l, r, op = node.left, node.comparators[0], node.ops[0]
            zero = lambda x: isinstance(x, ast.Constant) and not isinstance(x.value, bool) and x.value == 0
            if (is_time(l) and zero(r)) or (zero(l) and is_time(r)):
                if isinstance(op, (ast.Eq, ast.Is)):
                    out.append(val)
                elif isinstance(op, (ast.NotEq, ast.IsNot)):
                    out.append(not val)
                elif isinstance(op, ast.Gt) and is_time(l) or isinstance(op, ast.Lt) and is_time(r):
                    out.append(not val)          # sim_time > 0  (sim_time is never negative)
                elif isinstance(op, ast.LtE) and is_time(l) or isinstance(op, ast.GtE) and is_time(r):
                    out.append(val)              # sim_time <= 0
            elif isinstance(r, ast.Constant) and isinstance(r.value, bool) and isinstance(op, (ast.Eq, ast.Is, ast.NotEq, ast.IsNot)):
                walk_(l, val == (r.value == isinstance(op, (ast.Eq, ast.Is))))
    for txt, v in conds:
        if "sim_time" not in txt:
            continue
        try:
            walk_(ast.parse(txt, mode="eval").body, bool(v))
        except SyntaxError:
            continue
    if True in out and False in out:
        return None
    return out[0] if out else None


def _advance_slice(fn):
    """the part of run_sim that moves the time: the innermost statement list containing every store to `<...>.sim_time`, from the first
    such statement on (as a function of its own; the whole function if there is no such list).  Keeps the path enumeration small."""
    def stores_time(node):
        for x in ast.walk(node):
            tg = x.targets if isinstance(x, ast.Assign) else ([x.target] if isinstance(x, (ast.AugAssign, ast.AnnAssign)) else [])
            if any(isinstance(t, ast.Attribute) and t.attr == "sim_time" for t in tg):
                return True
        return False

    def lists(node):
        for f in ("body", "orelse", "finalbody"):
            v = getattr(node, f, None)
            if isinstance(v, list) and v and isinstance(v[0], ast.stmt):
                yield v
        for h in getattr(node, "handlers", []) or []:
            yield h.body
    best = fn.body
    while True:
        holders = [s for s in best if stores_time(s)]
        if len(holders) != 1 or isinstance(holders[0], (ast.Assign, ast.AugAssign, ast.AnnAssign)):
            break
        inner = [l for l in lists(holders[0]) if any(stores_time(s) for s in l)]
        if len(inner) != 1:
            break
        best = inner[0]
    idx = [i for i, s in enumerate(best) if stores_time(s)]
    if not idx:
        return fn
    body = list(best[idx[0]:])
    # plus the plain assignments before it that define the temporaries it reads (hoisted sub-expressions)
    needed = set(x.id for s in body for x in ast.walk(s) if isinstance(x, ast.Name) and isinstance(x.ctx, ast.Load))
    for s in reversed(best[:idx[0]]):
        tg = s.targets if isinstance(s, ast.Assign) else ([s.target] if isinstance(s, (ast.AugAssign, ast.AnnAssign)) else [])
        names = set(x.id for t in tg for x in ast.walk(t) if isinstance(x, ast.Name))
        if tg and names & needed and all(isinstance(t, (ast.Name, ast.Tuple, ast.List)) for t in tg):
            body.insert(0, s)
            needed |= set(x.id for x in ast.walk(s) if isinstance(x, ast.Name) and isinstance(x.ctx, ast.Load))
    return ast.FunctionDef(name=fn.name, args=fn.args, body=body, decorator_list=[], returns=None, lineno=fn.lineno, col_offset=0)


def run_sim_rules(repo, chk):
    rs = repo.func(CORE, "WNTRSimulator.run_sim")
    chk.fn(rs)
    # ---- R-C04-4: the value of the rule clock with which a first step (sim_time == 0) enters the time loop
    loops = [i for i, s in enumerate(rs.body) if isinstance(s, ast.While)]
    if not loops:
        raise AnchorError("run_sim: no time loop")
    prefix = ast.FunctionDef(name="run_sim", args=rs.args, body=rs.body[:loops[0]], decorator_list=[], returns=None, lineno=rs.lineno, col_offset=0)
    ex = SymExec()
    inits, first = [], []
    for o in ex.run(prefix):
        if o.raised is not None:
            continue
        i, v = _last_store(o, "self._rule_iter")
        if i is None:
            continue
        inits.append(v)
        if _forces_first_step(o.conds) is not False:
            first.append((v, o.events[i][3]))
    chk.expect(bool(inits), "R-C04-4", "run_sim initialises the rule clock", loc(rs))
    chk.expect(bool(first), "R-C04-4", "run_sim initialises the rule clock on a first step", loc(rs))
    seen = set()
    for v, line in first:
        if (str(v), line) in seen:
            continue
        seen.add((str(v), line))
        num = v if isinstance(v, (int, float)) and not isinstance(v, bool) else (int(v) if getattr(v, "is_Integer", False) else None)
        # scheduler's loop condition `... or _rule_iter * rule_timestep <= sim_time` with sim_time = 0 and a positive rule timestep
        enters = None if num is None else (num * 360 <= 0)
        chk.expect(enters is False, "R-C04-4", "rules are not evaluated before the first hydraulic solution (rule clock starts after t = 0)", "%s:%s" % (CORE, line),
                   "with the values reaching the scheduler at the first step (sim_time = 0, _rule_iter = %s) the rule branch `_rule_iter * rule_timestep <= sim_time` is entered: "
                   "rules act at t = 0 before any solve, unlike EPANET which evaluates rules at the positive multiples of the rule timestep" % (v,),
                   expected="_rule_iter >= 1 on a first step (first evaluation at rule_timestep)", found="self._rule_iter = %s" % (v,))

    # ---- R-C04-6: after an accepted step the time advances by one hydraulic step and returns to the hydraulic grid
    import sympy as sp
    tx = TrackingExec({"self._wn.sim_time"})
    finals = {}
    for o in tx.run(_advance_slice(rs)):
        if o.raised is not None:
            continue
        i, v = _last_store(o, "self._wn.sim_time")
        if i is not None:
            try:
                finals.setdefault(str(tx.S(v)), (tx.S(v), o.events[i][3]))
            except ExtractError:
                finals.setdefault(str(v), (None, o.events[i][3]))
    chk.expect(bool(finals), "R-C04-6", "run_sim advances sim_time after an accepted step", loc(rs))
    t_, h_ = tx.sym("self._wn.sim_time"), tx.sym("self._hydraulic_timestep")
    for txt, (expr, line) in sorted(finals.items()):
        wrong = None
        if expr is None or not (expr.free_symbols <= {t_, h_}):
            wrong = "depends on more than the current time and the hydraulic timestep"
        else:
            for t0, h0 in ((0, 3600), (3600, 3600), (3500, 3600), (7199, 3600), (7200, 900), (1000, 900), (250.5, 60)):
                val = expr.subs({t_: sp.nsimplify(t0), h_: h0})
                want = math.floor((t0 + h0) / h0) * h0
                if not val.is_number or abs(float(val) - want) > 1e-9:
                    wrong = "from t = %s with a hydraulic timestep of %s s the next time is %s, expected %s" % (t0, h0, val, want)
                    break
        chk.expect(wrong is None, "R-C04-6", "after an accepted step sim_time advances by one hydraulic step and returns to the hydraulic grid", "%s:%s" % (CORE, line),
                   "a step shortened by a control must not shift all later steps off the grid; a full step must advance by exactly one hydraulic timestep",
                   expected="the largest multiple of the hydraulic timestep not after t + hydraulic_timestep", found="%s (%s)" % (wrong, txt) if wrong else txt)


# ------------------------------------------------------------------ R-C04-7: construction of time controls
def _bind(fn, args, kwargs, skip=1):
    """parameter name -> argument value of a call of fn (skip = number of leading parameters bound implicitly: self / cls)."""
    params = [a.arg for a in fn.args.args][skip:]
    out = dict(zip(params, args))
    out.update(kwargs)
    return out


def construction_rules(repo, chk):
    classes = repo.classes(CTRL)
    cmeths = resolved_methods(classes, "Control")
    tc = cmeths.get("_time_control")
    if tc is None:
        raise AnchorError("Control._time_control vanished")
    chk.fn(tc)
    tparams = [a.arg for a in tc.args.args]
    if len(tparams) < 6:
        raise AnchorError("Control._time_control: expected (cls, model, time, time flag, daily flag, action, ...), found %s" % tparams)
    p_time, p_flag, p_daily = tparams[2], tparams[3], tparams[4]
    for flag, cls_ in (("SIM_TIME", "SimTimeCondition"), ("CLOCK_TIME", "TimeOfDayCondition"), ("sim_time", "SimTimeCondition"), ("clock_time", "TimeOfDayCondition")):
        built = []

        def hook(name, n, args, kwargs, st, ex, recv, built=built):
            if isinstance(recv, str) and isinstance(n.func, ast.Attribute) and n.func.attr in ("upper", "lower", "strip", "casefold") and not args:
                return getattr(recv, n.func.attr)()
            callee = name
            if isinstance(n.func, ast.Name) and isinstance(st.env.get(n.func.id), Opaque):
                callee = st.env[n.func.id].text          # class picked from a table / bound to a local first
            if callee and callee.split(".")[-1] in classes and "ControlCondition" in class_ancestors(classes, callee.split(".")[-1]):
                built.append((callee.split(".")[-1], list(args), dict(kwargs)))
            return NotImplemented
        ex = SymExec(call_hook=hook)
        live = [o for o in ex.run(tc, env={p_flag: flag}) if o.raised is None]
        got = None
        if len(built) >= 1 and all(b == built[0] for b in built):
            cname, args, kwargs = built[0]
            init = resolved_methods(classes, cname).get("__init__")
            b = _bind(init, args, kwargs) if init is not None else {}
            got = (cname, b.get("threshold"), b.get("repeat"), b.get("relation"))
        okc = bool(live) and got is not None and got[0] == cls_ and got[1] == Opaque(p_time) and got[2] == Opaque(p_daily) and isinstance(got[3], Opaque) and got[3].text == "Comparison.eq"
        chk.expect(okc, "R-C04-7", "Control._time_control(%s) builds %s(eq, run_at_time, repeat=daily_flag)" % (flag, cls_), loc(tc), found=got if got else built[:2])
    rcl = repo.func(IO, "_read_control_line")
    chk.fn(rcl)
    seen, wrong = set(), []
    for o in SymExec().run(rcl):
        if o.raised is not None:
            continue
        for e in o.events:
            if e[0] != "call" or not (e[2][0] or "").endswith("._time_control"):
                continue
            b = _bind(tc, e[2][1], e[2][2])
            fl, dl, tm, ac = b.get(p_flag), b.get(p_daily), b.get(p_time), b.get(tparams[5])
            seen.add((fl if isinstance(fl, str) else str(fl), dl if isinstance(dl, bool) else str(dl)))
            if tm is None or isinstance(tm, (bool, int, float, str)):
                wrong.append("line %s: the time passed is the constant %r" % (e[3], tm))
            if not (isinstance(ac, Opaque) and "ControlAction(" in ac.text):
                wrong.append("line %s: the action passed is %r, not the ControlAction built from the line" % (e[3], ac))
    chk.expect(sorted(seen) == [("CLOCK_TIME", True), ("SIM_TIME", False)], "R-C04-7", "the INP reader creates CLOCKTIME controls as daily and TIME controls as one-shot", loc(rcl), found=sorted(seen))
    chk.expect(not wrong and bool(seen), "R-C04-7", "reader passes the parsed time and the action", loc(rcl), found=sorted(set(wrong))[:3])


# ------------------------------------------------------------------ classification of controls (decided by execution, not by shape)
def class_ancestors(classes, name):
    """the class and all its ancestors defined in the same module, nearest first (bases are followed by name, also through wrappers
    such as six.with_metaclass(Meta, Base))."""
    out, todo = [], [name]
    while todo:
        c = todo.pop(0)
        if c in out:
            continue
        out.append(c)
        node = classes.get(c)
        for b in (node.bases if node is not None else []):
            for x in ast.walk(b):
                nm = x.id if isinstance(x, ast.Name) else (x.attr if isinstance(x, ast.Attribute) else None)
                if nm in classes and nm not in out:
                    todo.append(nm)
    return out


def resolved_methods(classes, name):
    """method name -> def, as attribute lookup on an instance of the class finds it (nearest class of the ancestor chain wins)."""
    out = {}
    for c in class_ancestors(classes, name):
        for n in classes[c].body:
            if isinstance(n, ast.FunctionDef) and not any(isinstance(d, ast.Attribute) and d.attr == "setter" for d in n.decorator_list):
                if n.name not in out:
                    n._rel = getattr(classes[c], "_rel", None)
                    n._qual = c + "." + n.name
                    out[n.name] = n
    return out


class DecidedExec(object):
    """Path enumeration (SymExec) of ONE function for ONE concrete case of its input:

    * branch tests (if / elif / conditional expressions, through not / and / or) are decided by `leaf(node, state, ex)` -> True / False /
      None, so an if-chain, early returns, a conditional expression and a lookup table all reduce to the one outcome of the case;
    * calls to helpers that can matter (`relevant(def)`): other methods of the class reached through self / cls / the class name, defs
      nested in the function and module-level functions are executed in place -- their stores and calls join the caller's events in
      program order -- so it does not matter whether the logic sits in the function, in a closure, in a method or in a module function;
    * `for x in <tuple / list value>` is unrolled.

    A helper whose outcome still depends on an undecided test is an ExtractError (never a guess)."""

    def __init__(self, fn, class_names, methods, module_funcs, relevant, leaf, attr_hook=None):
        self.fn = fn
        self.class_names = set(class_names)
        self.methods = methods
        self.module_funcs = module_funcs
        self.nested = {n.name: n for n in ast.walk(fn) if isinstance(n, ast.FunctionDef) and n is not fn}
        self.relevant = relevant
        self.leaf = leaf
        self.active = []
        self.ex = SymExec(call_hook=self._call, test_hook=self._test, attr_hook=attr_hook)
        self.ex.unroll_opaque = True

    def paths(self):
        """the paths that do not end in a raise."""
        return [o for o in self.ex.run(self.fn) if o.raised is None]

    # tests
    def _test(self, txt, node, st):
        while isinstance(node, ast.UnaryOp) and isinstance(node.op, ast.Not):
            node = node.operand           # SymExec strips the same leading negations from `txt` and applies them itself
        return self._bool(node, st)

    def _bool(self, node, st):
        if isinstance(node, ast.UnaryOp) and isinstance(node.op, ast.Not):
            v = self._bool(node.operand, st)
            return None if v is None else (not v)
        if isinstance(node, ast.BoolOp):
            vs = [self._bool(v, st) for v in node.values]
            hit, miss = (False, True) if isinstance(node.op, ast.And) else (True, False)
            if any(v is hit for v in vs):
                return hit
            return miss if all(v is miss for v in vs) else None
        if isinstance(node, ast.Compare) and len(node.ops) == 1 and isinstance(node.ops[0], (ast.Eq, ast.Is, ast.NotEq, ast.IsNot)) \
                and isinstance(node.comparators[0], ast.Constant) and isinstance(node.comparators[0].value, bool):
            v = self._bool(node.left, st)       # `x == False` / `x is True` ...
            if v is None:
                return None
            return (v == node.comparators[0].value) == isinstance(node.ops[0], (ast.Eq, ast.Is))
        if isinstance(node, ast.Name) and node.id in st.env:
            # a hoisted test (`timed = isinstance(...) or ...; x if timed else y`): decide the expression the temporary stands for
            v = st.env[node.id]
            if isinstance(v, bool):
                return v
            if isinstance(v, Opaque) and v.text != node.id:
                try:
                    inner = ast.parse(v.text, mode="eval").body
                except SyntaxError:
                    return None
                return None if isinstance(inner, ast.Name) else self._bool(inner, st)
            return None
        return self.leaf(node, st, self.ex)

    # helpers executed in place
    def _call(self, name, n, args, kwargs, st, ex, recv):
        f = n.func
        target, bound, closure = None, list(args), False
        alias = None
        if isinstance(f, ast.Name) and isinstance(st.env.get(f.id), Opaque):
            # a callable bound to a local (`for get in (self._a, self._b): get()`, a class picked from a table): the call is that of the value
            try:
                fv = ast.parse(st.env[f.id].text, mode="eval").body
            except SyntaxError:
                fv = None
            if isinstance(fv, (ast.Name, ast.Attribute)) and unparse(fv) != f.id:
                alias, f = unparse(fv), fv
        if isinstance(f, ast.Name) and f.id not in st.env:
            if f.id in self.nested:
                target, closure = self.nested[f.id], True
            elif f.id in self.module_funcs:
                target = self.module_funcs[f.id]
        elif isinstance(f, ast.Attribute) and isinstance(f.value, ast.Name) and f.attr in self.methods \
                and (f.value.id in ("self", "cls") or f.value.id in self.class_names):
            target = self.methods[f.attr]
            decos = set(unparse(d) for d in target.decorator_list)
            if "staticmethod" in decos:
                pass
            elif "classmethod" in decos:
                bound = [Opaque("cls")] + bound
            elif f.value.id == "self":
                bound = [st.env.get("self", Opaque("self"))] + bound
        if target is None or target is self.fn or target in self.active or len(self.active) >= 4 or not self.relevant(target):
            if alias is None:
                return NotImplemented
            txt = "%s(%s)" % (alias, ", ".join([ex.text(a) for a in args] + ["%s=%s" % (k, ex.text(v)) for k, v in kwargs.items()]))
            st.events.append(("call", txt, (alias, args, kwargs), getattr(n, "lineno", 0), tuple(l[1] for l in st.loops)))
            return Opaque(txt)
        a = target.args
        if a.vararg or a.kwarg or len(bound) > len(a.args):
            return NotImplemented
        env = dict(st.env) if closure else {}
        for p_, d_ in zip(a.args[len(a.args) - len(a.defaults):], a.defaults):
            env[p_.arg] = ex.ev(d_, State())
        for p_, d_ in zip(a.kwonlyargs, a.kw_defaults):
            if d_ is not None:
                env[p_.arg] = ex.ev(d_, State())
        for p_, v in zip(a.args, bound):
            env[p_.arg] = v
        env.update(kwargs)
        sub = State(env)
        sub.conds = list(st.conds)
        sub.loops = list(st.loops)
        self.active.append(target)
        try:
            outs = ex.block(target.body, [sub])
        finally:
            self.active.pop()
        live = [o for o in outs if o.raised is None]
        if not live:
            raise ExtractError("helper %s (called at line %s) raises on every path of the case under analysis" % (target.name, getattr(n, "lineno", "?")))
        sig = set((ex.text(o.ret), tuple((e[0], e[1]) for e in o.events if e[0] in ("store", "call"))) for o in live)
        if len(sig) != 1:
            raise ExtractError("helper %s (called at line %s): its outcome depends on a test that could not be decided: %s" % (
                target.name, getattr(n, "lineno", "?"), "; ".join(sorted(set(o.label() for o in live)))[:300]))
        o = live[0]
        st.events.extend(o.events)
        if len(live) == 1:
            st.conds = list(o.conds)
        return o.ret


def _last_store(o, target):
    """(index in the event list, value) of the last store to `target` on path o, or (None, None)."""
    got = (None, None)
    for i, e in enumerate(o.events):
        if e[0] == "store" and e[1] == target:
            got = (i, e[2])
    return got


def _member(v, enum="_ControlType"):
    """'presolve' for the value <_ControlType.presolve>, else None."""
    if isinstance(v, Opaque) and v.text.startswith(enum + ".") and v.text.count(".") == 1:
        return v.text.split(".")[1]
    return None


def registration_rules(repo, chk, rule, members):
    """which checker of the simulator receives which control type, from which sources, and that nothing but the type decides it (shared with C10: a new
    simulator object re-derives the control bookkeeping from the model alone)"""
    # ---- (d) which checker of the simulator receives which type, from which sources
    sclasses = repo.classes(CORE)
    if "WNTRSimulator" not in sclasses:
        raise AnchorError("class WNTRSimulator vanished")
    smeths = resolved_methods(sclasses, "WNTRSimulator")
    gm = smeths.get("_get_control_managers")
    if gm is None:
        raise AnchorError("WNTRSimulator._get_control_managers vanished")
    chk.fn(gm)
    core_funcs = {n.name: n for n in repo.tree(CORE).body if isinstance(n, ast.FunctionDef)}
    registers = lambda d: any(isinstance(x, ast.Attribute) and x.attr == "register_control" for x in ast.walk(d))

    def type_leaf(node, st, ex):
        if isinstance(node, ast.Compare) and len(node.ops) == 1:
            op = node.ops[0]
            l, r = ex.ev(node.left, st), ex.ev(node.comparators[0], st)
            if isinstance(op, (ast.Eq, ast.Is, ast.NotEq, ast.IsNot)):
                a, b = _member(l), _member(r)
                if a is None or b is None:
                    return None
                return (a == b) == isinstance(op, (ast.Eq, ast.Is))
            if isinstance(op, (ast.In, ast.NotIn)) and _member(l) is not None:
                if isinstance(r, dict):
                    ms = [k.split(".")[1] if isinstance(k, str) and k.startswith("_ControlType.") and k.count(".") == 1 else None for k in r]
                elif isinstance(r, (list, tuple)):
                    ms = [_member(x) for x in r]
                else:
                    return None
                if None in ms:
                    return None
                return (_member(l) in ms) == isinstance(op, ast.In)
        return None

    regs = {}        # member -> {receiver text: set(source iterables)}
    for m in members:
        hook = lambda base, attr, st, m=m: Opaque("_ControlType." + m) if attr in ("epanet_control_type", "_control_type") and isinstance(base, Opaque) else NotImplemented
        dx = DecidedExec(gm, class_ancestors(sclasses, "WNTRSimulator"), smeths, core_funcs, registers, type_leaf, attr_hook=hook)
        per_path = []
        for o in dx.paths():
            here = {}
            for e in o.events:
                mm = re.match(r"^(.*)\.register_control\((.*)\)$", e[1]) if e[0] == "call" else None
                if not mm:
                    continue
                args = list(e[2][1]) + list(e[2][2].values())
                if len(args) != 1 or not isinstance(args[0], Opaque) or not e[4]:
                    raise ExtractError("_get_control_managers: registration `%s` at line %s is not of a control drawn from a source loop" % (e[1], e[3]))
                here.setdefault(mm.group(1), set()).add(e[4][-1])
            per_path.append(here)
        if not per_path:
            raise ExtractError("_get_control_managers: no path analysed for control type %s" % m)
        if any(p_ != per_path[0] for p_ in per_path[1:]):
            # the type of the control is fixed on these paths, every test on it is decided: what still splits the paths is a test on something else
            full = max(per_path, key=lambda p_: sum(len(v_) for v_ in p_.values()))
            short = min(per_path, key=lambda p_: sum(len(v_) for v_ in p_.values()))
            lost = sorted("%s <- %s" % (k_, s_) for k_, v_ in full.items() for s_ in v_ if s_ not in short.get(k_, ()))
            chk.bad(rule, "every %s control drawn from the model and the internal families is registered whatever else holds" % m, loc(gm),
                    "a control is registered according to its type only; here the registration also depends on a test that is not about the type (e.g. on the clock at the moment "
                    "the simulator is created: a continued run would then drop controls an uninterrupted run keeps)", expected="the same registrations on every path", found="on some path missing: %s" % lost[:4])
            regs[m] = full
            continue
        regs[m] = per_path[0]
    want = {"self._presolve_controls": {"presolve", "pre_and_postsolve"}, "self._postsolve_controls": {"postsolve", "pre_and_postsolve"},
            "self._rules": {"rule"}, "self._feasibility_controls": {"feasibility"}}
    for k, v in want.items():
        got = set(m for m in members if k in regs[m])
        chk.expect(got == v, rule, "%s receives exactly the control types %s" % (k, sorted(v)), loc(gm), found=sorted(got))
    # that the user's controls and every family of internal controls reach the managers is decided by running _get_control_managers on the fixture models
    # (interpreted, shared with R-C05-9): the managers hold as many controls of each type as the model and the four builders supply.  (Until refactoring
    # round 5 this was a comparison of the source iterables' texts with five expected call texts; it fired on one loop over itertools.chain of the builders.)
    from .c05 import manager_rules
    manager_rules(repo, chk, rule)
    chk.sample({"rule": rule, "registrations": dict((m, dict((k, sorted(v)) for k, v in regs[m].items())) for m in members)})



def classification_rules(repo, chk, rule):
    classes = repo.classes(CTRL)
    tree = repo.tree(CTRL)
    module_funcs = {n.name: n for n in tree.body if isinstance(n, ast.FunctionDef)}
    if "Control" not in classes or "ControlCondition" not in classes or "_ControlType" not in classes:
        raise AnchorError("controls.py: class Control / ControlCondition / _ControlType vanished")
    members = [t.id for s in classes["_ControlType"].body if isinstance(s, ast.Assign) for t in s.targets if isinstance(t, ast.Name)]
    if not {"presolve", "postsolve", "rule", "pre_and_postsolve", "feasibility"} <= set(members):
        raise AnchorError("_ControlType members changed: %s" % members)

    # ---- (a) the type Control.__init__ leaves on a simple control, per concrete class of its condition
    cmeths = resolved_methods(classes, "Control")
    ci = cmeths.get("__init__")
    if ci is None or ci._qual != "Control.__init__":
        raise AnchorError("Control.__init__ vanished")
    chk.fn(ci)
    cond_classes = sorted(c for c in classes if c != "ControlCondition" and "ControlCondition" in class_ancestors(classes, c))
    if not {"TankLevelCondition", "SimTimeCondition", "TimeOfDayCondition", "ValueCondition"} <= set(cond_classes):
        raise AnchorError("condition classes not found in %s: %s" % (CTRL, cond_classes))
    OTHER = "<a ControlCondition subclass defined elsewhere>"
    mentions_type = lambda d: any(isinstance(x, ast.Attribute) and x.attr == "_control_type" for x in ast.walk(d)) or "_ControlType" in unparse(d)

    def type_left_by(fn, meths, cls_names, kname, params=("condition",)):
        """-> (member name or None, problem text or None): the value of self._control_type after fn ran for a condition of class kname."""
        anc = class_ancestors(classes, kname) if kname in classes else [kname, "ControlCondition"]
        is_cond = lambda v: isinstance(v, Opaque) and v.text in params + ("self._condition",)

        def names_of(node, st, ex):
            elts = node.elts if isinstance(node, (ast.Tuple, ast.List, ast.Set)) else [node]
            out = []
            for e in elts:
                nm = e.id if isinstance(e, ast.Name) else (e.attr if isinstance(e, ast.Attribute) else None)
                if nm is None or (isinstance(e, ast.Name) and e.id in st.env):
                    return None
                out.append(nm)
            return out

        def leaf(node, st, ex):
            if isinstance(node, ast.Call) and isinstance(node.func, ast.Name) and node.func.id == "isinstance" and len(node.args) == 2 and not node.keywords:
                if not is_cond(ex.ev(node.args[0], st)):
                    return None
                ns = names_of(node.args[1], st, ex)
                return None if ns is None else any(x in anc for x in ns)
            if isinstance(node, ast.Compare) and len(node.ops) == 1 and isinstance(node.left, ast.Call) and isinstance(node.left.func, ast.Name) \
                    and node.left.func.id == "type" and len(node.left.args) == 1 and is_cond(ex.ev(node.left.args[0], st)):
                ns = names_of(node.comparators[0], st, ex)
                op = node.ops[0]
                if ns is None:
                    return None
                if isinstance(op, (ast.Eq, ast.Is, ast.NotEq, ast.IsNot)) and len(ns) == 1 and not isinstance(node.comparators[0], (ast.Tuple, ast.List, ast.Set)):
                    return (ns[0] == anc[0]) == isinstance(op, (ast.Eq, ast.Is))
                if isinstance(op, (ast.In, ast.NotIn)) and isinstance(node.comparators[0], (ast.Tuple, ast.List, ast.Set)):
                    return (anc[0] in ns) == isinstance(op, ast.In)
            return None
        dx = DecidedExec(fn, cls_names, meths, module_funcs, mentions_type, leaf)
        outs = dx.paths()
        vals = set()
        for o in outs:
            i, v = _last_store(o, "self._control_type")
            if i is None:
                return None, "a path stores no _control_type (%s)" % (o.label() or "unconditional")
            later_init = [e[1] for e in o.events[i + 1:] if e[0] == "call" and (e[2][0] or "").endswith("__init__")]
            if later_init:
                return None, "the type is stored before %s, which overwrites it" % later_init[0][:60]
            m = _member(v)
            if m is None:
                return None, "stored value %s is not a member of _ControlType decided by the class of the condition" % (v,)
            vals.add(m)
        if len(vals) != 1:
            return None, "stored type depends on something else than the class of the condition: %s" % sorted(vals)
        return vals.pop(), None

    got_type, problems = {}, []
    for k in cond_classes + [OTHER]:
        m, why = type_left_by(ci, cmeths, class_ancestors(classes, "Control"), k)
        got_type[k] = m
        if why:
            problems.append("%s: %s" % (k, why))
    chk.expect(not problems, rule, "Control.__init__ stores the classification of the condition it was given", loc(ci), found="; ".join(problems[:3]))
    is_a = lambda k, *bases: k in classes and any(b in class_ancestors(classes, k) for b in bases)
    tank = [k for k in cond_classes if is_a(k, "TankLevelCondition")]
    timed = [k for k in cond_classes if is_a(k, "SimTimeCondition", "TimeOfDayCondition")]
    other = [k for k in cond_classes + [OTHER] if k not in tank and k not in timed]
    show = lambda ks: dict((k, "_ControlType.%s" % got_type[k] if got_type[k] else None) for k in ks)
    chk.expect(all(got_type[k] == "pre_and_postsolve" for k in tank), rule, "tank-level controls are pre- and post-solve", loc(ci), found=show(tank))
    chk.expect(all(got_type[k] == "presolve" for k in timed), rule, "time-conditioned controls are pre-solve (back-tracked to their instant)", loc(ci), found=show(timed))
    wrong = [k for k in other if got_type[k] != "postsolve"]
    chk.expect(not wrong, rule, "other simple controls are post-solve", loc(ci), found=show(wrong))
    chk.sample({"rule": rule, "classification": show(cond_classes + [OTHER])})

    # ---- (b) rules are rules, whatever their condition
    rmeths = resolved_methods(classes, "Rule")
    ri = rmeths.get("__init__")
    if ri is None or ri._qual != "Rule.__init__":
        raise AnchorError("Rule.__init__ vanished")
    rt = {}
    for k in ("SimTimeCondition", "TimeOfDayCondition", "TankLevelCondition", "ValueCondition", OTHER):
        rt[k], why = type_left_by(ri, rmeths, class_ancestors(classes, "Rule"), k)
    chk.expect(all(v == "rule" for v in rt.values()), rule, "rules are classified as rules", loc(ri), found=rt)

    # ---- (c) the property the simulator reads is the stored type
    gp = [n for c in class_ancestors(classes, "Control") for n in classes[c].body if isinstance(n, ast.FunctionDef) and n.name == "epanet_control_type"
          and any(isinstance(d, ast.Name) and d.id == "property" for d in n.decorator_list)]
    if not gp:
        raise AnchorError("property epanet_control_type of Control / Rule / ControlBase vanished")
    gp[0]._rel = CTRL
    rets = [o.ret for o in SymExec().run(gp[0]) if o.raised is None]
    chk.expect(bool(rets) and all(r == Opaque("self._control_type") for r in rets), rule, "epanet_control_type reports the stored _control_type", loc(gp[0]), found=rets)

    registration_rules(repo, chk, rule, members)


WITNESSES = [
    dict(name='simtime-eq-strict',
         file=CTRL,
         rule='R-C04-1',
         old='            prev_time = prev_time - periods * self._repeat\n        if self._relation is Comparison.eq and (prev_time < self._threshold and self._threshold <= cur_time):\n            self._backtrack = int(cur_time - self._threshold)\n            return True\n',
         new='            prev_time = prev_time - periods * self._repeat\n        if self._relation is Comparison.eq and (prev_time < self._threshold and self._threshold < cur_time):\n            self._backtrack = int(cur_time - self._threshold)\n            return True\n'),
    dict(name='simtime-backtrack-sign',
         file=CTRL,
         rule='R-C04-1',
         old='            prev_time = prev_time - periods * self._repeat\n        if self._relation is Comparison.eq and (prev_time < self._threshold and self._threshold <= cur_time):\n            self._backtrack = int(cur_time - self._threshold)\n            return True\n        elif self._relation is Comparison.gt and cur_time > self._threshold:\n            self._backtrack = 0\n            return True\n        elif self._relation is Comparison.ge and cur_time >= self._threshold and prev_time < self._threshold:\n            self._backtrack = int(cur_time - self._threshold)\n',
         new='            prev_time = prev_time - periods * self._repeat\n        if self._relation is Comparison.eq and (prev_time < self._threshold and self._threshold <= cur_time):\n            self._backtrack = int(cur_time - self._threshold)\n            return True\n        elif self._relation is Comparison.gt and cur_time > self._threshold:\n            self._backtrack = 0\n            return True\n        elif self._relation is Comparison.ge and cur_time >= self._threshold and prev_time < self._threshold:\n            self._backtrack = int(self._threshold - cur_time)\n'),
    dict(name="priority-descending", file=CORE, old="        postsolve_controls_to_run.sort(key=lambda i: i[0]._priority)", new="        postsolve_controls_to_run.sort(key=lambda i: i[0]._priority, reverse=True)", rule="R-C04-3"),
    dict(name="merged-sort", file=CORE, old="        presolve_controls_to_run.sort(key=lambda i: i[0]._priority)  # sort them by priority\n", new="", rule="R-C04-3"),
    dict(name="rule-clock-starts-at-zero", file=CORE, old="            self._rule_iter = 1\n", new="            self._rule_iter = 0\n", rule="R-C04-4"),
    dict(name="rule-increment-missing", file=CORE, old="                    self._wn.sim_time = self._rule_iter * self._wn.options.time.rule_timestep\n                    self._rule_iter += 1\n                    if not first_step:", new="                    self._wn.sim_time = self._rule_iter * self._wn.options.time.rule_timestep\n                    if not first_step:", rule="R-C04-4"),
    dict(name="time-controls-postsolve", file=CTRL, old="        elif isinstance(condition, (TimeOfDayCondition, SimTimeCondition)):\n            return _ControlType.presolve", new="        elif isinstance(condition, (TimeOfDayCondition, SimTimeCondition)):\n            return _ControlType.postsolve", rule="R-C04-5"),
    dict(name="first-step-guard-removed", file=CORE, old="        if first_step:  # we don't want to backtrack if the sim time is 0\n            presolve_controls_to_run = [(c, 0) for c, b in presolve_controls_to_run]\n", new="", rule="R-C04-6"),
    dict(name="reader-clocktime-once", file=IO, old="            control_obj = Control._time_control(wn, run_at_time, 'CLOCK_TIME', True, action_obj, control_name)", new="            control_obj = Control._time_control(wn, run_at_time, 'CLOCK_TIME', False, action_obj, control_name)", rule="R-C04-7"),
    # ---- behaviour-preserving variants (must stay quiet) and further mutations, added with the shape-independent rules
    dict(name='quiet-control-type-early-returns',
         file=CTRL,
         silent=True,
         old='        elif isinstance(condition, (TimeOfDayCondition, SimTimeCondition)):\n            return _ControlType.presolve\n        else:\n            return _ControlType.postsolve\n',
         new='        if isinstance(condition, (TimeOfDayCondition, SimTimeCondition)):\n            return _ControlType.presolve\n        return _ControlType.postsolve\n'),
    dict(name='quiet-control-type-conditional-expression',
         file=CTRL,
         silent=True,
         old='        if isinstance(condition, TankLevelCondition):\n            return _ControlType.pre_and_postsolve\n        elif isinstance(condition, (TimeOfDayCondition, SimTimeCondition)):\n            return _ControlType.presolve\n        else:\n            return _ControlType.postsolve\n',
         new='        timed = isinstance(condition, SimTimeCondition) or isinstance(condition, TimeOfDayCondition)\n        kind = _ControlType.presolve if timed else _ControlType.postsolve\n        return _ControlType.pre_and_postsolve if isinstance(condition, TankLevelCondition) else kind\n'),
    dict(name='quiet-categorize-lookup-table',
         file=CORE,
         silent=True,
         old='        def categorize_control(control):\n            if control.epanet_control_type in {_ControlType.presolve, _ControlType.pre_and_postsolve}:\n                self._presolve_controls.register_control(control)\n            if control.epanet_control_type in {_ControlType.postsolve, _ControlType.pre_and_postsolve}:\n                self._postsolve_controls.register_control(control)\n            if control.epanet_control_type == _ControlType.rule:\n                self._rules.register_control(control)\n            if control.epanet_control_type == _ControlType.feasibility:\n                self._feasibility_controls.register_control(control)\n',
         new='        def categorize_control(control):\n            checkers_by_type = {\n                _ControlType.presolve: (self._presolve_controls,),\n                _ControlType.postsolve: (self._postsolve_controls,),\n                _ControlType.pre_and_postsolve: (self._presolve_controls, self._postsolve_controls),\n                _ControlType.rule: (self._rules,),\n                _ControlType.feasibility: (self._feasibility_controls,),\n            }\n            for checker in checkers_by_type.get(control.epanet_control_type, ()):\n                checker.register_control(control)\n'),
    dict(name='quiet-categorize-elif-chain-merged-loops',
         file=CORE,
         silent=True,
         old='        def categorize_control(control):\n            if control.epanet_control_type in {_ControlType.presolve, _ControlType.pre_and_postsolve}:\n                self._presolve_controls.register_control(control)\n            if control.epanet_control_type in {_ControlType.postsolve, _ControlType.pre_and_postsolve}:\n                self._postsolve_controls.register_control(control)\n            if control.epanet_control_type == _ControlType.rule:\n                self._rules.register_control(control)\n            if control.epanet_control_type == _ControlType.feasibility:\n                self._feasibility_controls.register_control(control)\n\n        for c_name, c in self._wn.controls():\n            categorize_control(c)\n        for c in self._get_all_tank_controls():\n            categorize_control(c)\n        for c in self._get_cv_controls():\n            categorize_control(c)\n        for c in self._get_pump_controls():\n            categorize_control(c)\n        for c in self._get_valve_controls():\n            categorize_control(c)\n',
         new='        user_controls = [c for c_name, c in self._wn.controls()]\n        for family in (user_controls, self._get_all_tank_controls(), self._get_cv_controls(), self._get_pump_controls(), self._get_valve_controls()):\n            for c in family:\n                kind = c.epanet_control_type\n                if kind == _ControlType.rule:\n                    self._rules.register_control(c)\n                elif kind == _ControlType.feasibility:\n                    self._feasibility_controls.register_control(c)\n                else:\n                    if kind != _ControlType.postsolve:\n                        self._presolve_controls.register_control(c)\n                    if not kind == _ControlType.presolve:\n                        self._postsolve_controls.register_control(c)\n'),
    dict(name='quiet-first-step-expression-forms',
         file=CORE,
         silent=True,
         old='        if self._wn.sim_time == 0:\n            first_step = True\n        else:\n            first_step = False\n',
         new='        first_step = bool(self._wn.sim_time == 0)\n',
         also=[('        if first_step:\n            self._rule_iter = 1\n        else:\n            self._rule_iter = int(self._wn._prev_sim_time // self._wn.options.time.rule_timestep) + 1\n', '        self._rule_iter = 1 if first_step else int(self._wn._prev_sim_time // self._wn.options.time.rule_timestep) + 1\n')]),
    dict(name='quiet-single-sort-renamed-locals',
         file=CORE,
         silent=True,
         old='        presolve_controls_to_run.sort(key=lambda i: i[0]._priority)  # sort them by priority\n        # now sort them from largest to smallest "backtrack"; this way they are in the time-order\n        # in which they need to be activated\n        presolve_controls_to_run.sort(key=lambda i: i[1], reverse=True)\n        if first_step:  # we don\'t want to backtrack if the sim time is 0\n            presolve_controls_to_run = [(c, 0) for c, b in presolve_controls_to_run]\n',
         new='        presolve_controls_to_run = sorted(presolve_controls_to_run, key=lambda entry: (-entry[1], entry[0]._priority))\n        if first_step:\n            presolve_controls_to_run = [(ctl, 0) for ctl, _unused in presolve_controls_to_run]\n'),
    dict(name='quiet-advance-one-expression',
         file=CORE,
         silent=True,
         old='            self._wn.sim_time += self._hydraulic_timestep\n            overstep = float(self._wn.sim_time) % self._hydraulic_timestep\n            self._wn.sim_time -= overstep\n',
         new='            next_time = self._wn.sim_time + self._hydraulic_timestep\n            self._wn.sim_time = next_time - float(next_time) % self._hydraulic_timestep\n'),
    dict(name='quiet-shifted-time-temporary',
         file=MODEL,
         silent=True,
         old='        return self.sim_time + self.options.time.start_clocktime\n',
         new='        start = self.options.time.start_clocktime\n        return start + self.sim_time\n'),
    dict(name='quiet-time-control-lookup-table',
         file=CTRL,
         silent=True,
         old='        if time_flag.upper() == \'SIM_TIME\':\n            condition = SimTimeCondition(model=wnm, relation=Comparison.eq, threshold=run_at_time, repeat=daily_flag,\n                                         first_time=0)\n        elif time_flag.upper() == \'CLOCK_TIME\':\n            condition = TimeOfDayCondition(model=wnm, relation=Comparison.eq, threshold=run_at_time, repeat=daily_flag,\n                                           first_day=0)\n        else:\n            raise ValueError("time_flag not recognized; expected either \'sim_time\' or \'clock_time\'")\n',
         new='        kinds = {\'SIM_TIME\': SimTimeCondition, \'CLOCK_TIME\': TimeOfDayCondition}\n        flag = time_flag.upper()\n        if flag not in kinds:\n            raise ValueError("time_flag not recognized; expected either \'sim_time\' or \'clock_time\'")\n        condition_class = kinds[flag]\n        condition = condition_class(wnm, Comparison.eq, run_at_time, daily_flag, 0)\n'),
    dict(name='quiet-reader-keyword-arguments',
         file=IO,
         silent=True,
         old="            control_obj = Control._time_control(wn, run_at_time, 'SIM_TIME', False, action_obj, control_name)",
         new="            when = run_at_time\n            control_obj = Control._time_control(wn, when, time_flag='SIM_TIME', daily_flag=False, control_action=action_obj, name=control_name)"),
    dict(name='quiet-postsolve-sorted-loop',
         file=CORE,
         silent=True,
         old='        postsolve_controls_to_run = self._postsolve_controls.check()\n        postsolve_controls_to_run.sort(key=lambda i: i[0]._priority)\n        for control, unused in postsolve_controls_to_run:\n',
         new='        triggered = self._postsolve_controls.check()\n        for control, _backtrack in sorted(triggered, key=lambda pair: int(pair[0]._priority)):\n'),
    dict(name='quiet-simtime-hoisted-threshold-early-returns',
         file=CTRL,
         silent=True,
         old="        elif self._relation is Comparison.lt and cur_time < self._threshold:\n            self._backtrack = 0\n            return True\n        elif self._relation is Comparison.le and cur_time <= self._threshold:\n            self._backtrack = 0\n            return True\n        else:\n            self._backtrack = 0\n            return False\n\n\n@DocInheritor({'requires', 'evaluate', 'name'})\nclass ValueCondition",
         new="        limit = self._threshold\n        below = {Comparison.lt: cur_time < limit, Comparison.le: cur_time <= limit}\n        if below.get(self._relation, False) == True:\n            self._backtrack = 0\n            return True\n        self._backtrack = 0\n        return False\n\n\n@DocInheritor({'requires', 'evaluate', 'name'})\nclass ValueCondition"),
    dict(name='tank-level-controls-not-postsolve',
         file=CORE,
         rule='R-C04-5',
         old='            if control.epanet_control_type in {_ControlType.postsolve, _ControlType.pre_and_postsolve}:',
         new='            if control.epanet_control_type in {_ControlType.postsolve}:'),
    dict(name='valve-controls-not-categorised',
         file=CORE,
         rule='R-C04-5',
         old='        for c in self._get_valve_controls():\n            categorize_control(c)\n',
         new=''),
    dict(name='type-stored-before-rule-init',
         file=CTRL,
         rule='R-C04-5',
         old='        super().__init__(condition=condition, then_actions=then_action, priority=priority, name=name)\n        self._control_type = self._control_type_of(condition)\n',
         new='        self._control_type = self._control_type_of(condition)\n        super().__init__(condition=condition, then_actions=then_action, priority=priority, name=name)\n'),
    dict(name='overstep-not-removed',
         file=CORE,
         rule='R-C04-6',
         old='            self._wn.sim_time -= overstep\n',
         new=''),
    dict(name='shifted-time-without-start',
         file=MODEL,
         rule='R-C04-2',
         old='        return self._prev_sim_time + self.options.time.start_clocktime\n',
         new='        return self._prev_sim_time\n'),
    dict(name='time-control-never-repeats',
         file=CTRL,
         rule='R-C04-7',
         old='            condition = TimeOfDayCondition(model=wnm, relation=Comparison.eq, threshold=run_at_time, repeat=daily_flag,',
         new='            condition = TimeOfDayCondition(model=wnm, relation=Comparison.eq, threshold=run_at_time, repeat=False,'),
    dict(name='rules-after-controls-moved-back-unconditionally',
         file=CORE,
         rule='R-C04-6',
         old="                    if self._change_tracker.changes_made(ref_point='presolve'):\n                        # changes were actually made; we found the next timestep; update wn.sim_time and break\n                        self._wn.sim_time -= backtrack\n                        break\n",
         new="                    self._wn.sim_time -= backtrack\n                    if self._change_tracker.changes_made(ref_point='presolve'):\n                        break\n"),
    dict(name='feasibility-descending',
         file=CORE,
         rule='R-C04-3',
         old='        feasibility_controls_to_run.sort(key=lambda i: i[0]._priority)',
         new='        feasibility_controls_to_run.sort(key=lambda i: -i[0]._priority)'),
    dict(name='quiet-type-helper-classmethod-through-class-name',
         file=CTRL,
         silent=True,
         old='    @staticmethod\n    def _control_type_of(condition):\n',
         new='    @classmethod\n    def _control_type_of(cls, condition):\n',
         also=[('        super().__init__(condition=condition, then_actions=then_action, priority=priority, name=name)\n        self._control_type = self._control_type_of(condition)\n', '        super().__init__(condition=condition, then_actions=then_action, priority=priority, name=name)\n        kind = Control._control_type_of(condition)\n        self._control_type = kind\n')]),
    dict(name='quiet-init-delegates-to-update-condition',
         file=CTRL,
         silent=True,
         old='        super().__init__(condition=condition, then_actions=then_action, priority=priority, name=name)\n        self._control_type = self._control_type_of(condition)\n',
         new='        super().__init__(condition=condition, then_actions=then_action, priority=priority, name=name)\n        self.update_condition(condition)\n'),
    dict(name='quiet-rule-init-reordered-conditional-expression',
         file=CTRL,
         silent=True,
         old="        if self._name is None:\n            self._name = ''\n        self._control_type = _ControlType.rule\n",
         new="        self._control_type = _ControlType.rule\n        self._name = '' if self._name is None else self._name\n"),
    dict(name='rule-type-not-stored',
         file=CTRL,
         rule='R-C04-5',
         old="        if self._name is None:\n            self._name = ''\n        self._control_type = _ControlType.rule\n",
         new="        if self._name is None:\n            self._name = ''\n"),
    dict(name='value-conditions-classified-as-tank-level',
         file=CTRL,
         rule='R-C04-5',
         old='        if isinstance(condition, TankLevelCondition):\n            return _ControlType.pre_and_postsolve\n',
         new='        if isinstance(condition, ValueCondition):\n            return _ControlType.pre_and_postsolve\n'),
    # ---- the three repairs found against EPANET 2.2 (/repo a92e449a, dce60b58, f298b1a9): each revert, site by site, and equivalent spellings of the repaired code
    dict(name='le-true-after-the-threshold-simtime',
         file=CTRL,
         rule='R-C04-1',
         old="        elif self._relation is Comparison.le and cur_time <= self._threshold:\n            self._backtrack = 0\n            return True\n        else:\n            self._backtrack = 0\n            return False\n\n\n@DocInheritor({'requires', 'evaluate', 'name'})\nclass ValueCondition",
         new="        elif self._relation is Comparison.le and cur_time <= self._threshold:\n            self._backtrack = 0\n            return True\n        elif self._relation is Comparison.le and prev_time < self._threshold:\n            self._backtrack = int(cur_time - self._threshold)\n            return True\n        else:\n            self._backtrack = 0\n            return False\n\n\n@DocInheritor({'requires', 'evaluate', 'name'})\nclass ValueCondition"),
    dict(name='le-true-after-the-threshold-clocktime-once',
         file=CTRL,
         rule='R-C04-1',
         old="        elif self._relation is Comparison.le and cur_time <= self._threshold:\n            self._backtrack = 0\n            return True\n        else:\n            self._backtrack = 0\n            return False\n\n\n@DocInheritor({'requires', 'evaluate', 'name'})\nclass SimTimeCondition",
         new="        elif self._relation is Comparison.le and cur_time <= self._threshold:\n            self._backtrack = 0\n            return True\n        elif self._relation is Comparison.le and prev_time < self._threshold:\n            self._backtrack = int(cur_time - self._threshold)\n            return True\n        else:\n            self._backtrack = 0\n            return False\n\n\n@DocInheritor({'requires', 'evaluate', 'name'})\nclass SimTimeCondition"),
    dict(name='le-true-after-the-threshold-clocktime-daily',
         file=CTRL,
         rule='R-C04-1',
         old='                if clock <= self._threshold:\n                    self._backtrack = 0\n                    return True\n            self._backtrack = 0\n            return False\n',
         new='                if clock <= self._threshold:\n                    self._backtrack = 0\n                    return True\n                elif crossed:\n                    self._backtrack = int(since)\n                    return True\n            self._backtrack = 0\n            return False\n'),
    dict(name='clocktime-after-inclusive-daily',
         file=CTRL,
         rule='R-C04-1',
         old='                if clock > self._threshold:\n',
         new='                if clock >= self._threshold:\n'),
    dict(name='clocktime-after-inclusive-once',
         file=CTRL,
         rule='R-C04-1',
         old='        prev_time = prev_time - self._first_day * 86400.\n        if self._relation is Comparison.eq and (prev_time < self._threshold and self._threshold <= cur_time):\n            self._backtrack = int(cur_time - self._threshold)\n            return True\n        elif self._relation is Comparison.gt and cur_time > self._threshold:\n            self._backtrack = 0\n            return True\n',
         new='        prev_time = prev_time - self._first_day * 86400.\n        if self._relation is Comparison.eq and (prev_time < self._threshold and self._threshold <= cur_time):\n            self._backtrack = int(cur_time - self._threshold)\n            return True\n        elif self._relation is Comparison.gt and cur_time >= self._threshold:\n            self._backtrack = 0\n            return True\n'),
    dict(name='simtime-after-inclusive',
         file=CTRL,
         rule='R-C04-1',
         old='            prev_time = prev_time - periods * self._repeat\n        if self._relation is Comparison.eq and (prev_time < self._threshold and self._threshold <= cur_time):\n            self._backtrack = int(cur_time - self._threshold)\n            return True\n        elif self._relation is Comparison.gt and cur_time > self._threshold:\n            self._backtrack = 0\n            return True\n        elif self._relation is Comparison.ge and cur_time >= self._threshold and prev_time < self._threshold:\n            self._backtrack = int(cur_time - self._threshold)\n',
         new='            prev_time = prev_time - periods * self._repeat\n        if self._relation is Comparison.eq and (prev_time < self._threshold and self._threshold <= cur_time):\n            self._backtrack = int(cur_time - self._threshold)\n            return True\n        elif self._relation is Comparison.gt and cur_time >= self._threshold:\n            self._backtrack = 0\n            return True\n        elif self._relation is Comparison.ge and cur_time >= self._threshold and prev_time < self._threshold:\n            self._backtrack = int(cur_time - self._threshold)\n'),
    dict(name='rules-see-solution-window-when-no-control-pending',
         file=CORE,
         rule='R-C04-4',
         old='                self._rule_iter += 1\n                rules_to_run = self._check_rules()\n',
         new='                self._rule_iter += 1\n                rules_to_run = self._rules.check()\n'),
    dict(name='rules-see-solution-window-at-a-control-instant',
         file=CORE,
         rule='R-C04-4',
         old='                    self._wn.sim_time -= backtrack\n                    if not first_step:\n                        wntr.sim.hydraulics.update_tank_heads(self._wn)\n                    rules_to_run = self._check_rules()\n',
         new='                    self._wn.sim_time -= backtrack\n                    if not first_step:\n                        wntr.sim.hydraulics.update_tank_heads(self._wn)\n                    rules_to_run = self._rules.check()\n'),
    dict(name='rules-see-solution-window-before-a-control-instant',
         file=CORE,
         rule='R-C04-4',
         old='                    self._rule_iter += 1\n                    if not first_step:\n                        wntr.sim.hydraulics.update_tank_heads(self._wn)\n                    rules_to_run = self._check_rules()\n',
         new='                    self._rule_iter += 1\n                    if not first_step:\n                        wntr.sim.hydraulics.update_tank_heads(self._wn)\n                    rules_to_run = self._rules.check()\n'),
    dict(name='rule-window-not-restored',
         file=CORE,
         rule='R-C04-4',
         old='        saved = self._wn._prev_sim_time\n        prev_rule_time = (self._rule_iter - 2) * self._wn.options.time.rule_timestep\n        self._wn._prev_sim_time = prev_rule_time\n        try:\n            return self._rules.check()\n        finally:\n            self._wn._prev_sim_time = saved\n',
         new='        prev_rule_time = (self._rule_iter - 2) * self._wn.options.time.rule_timestep\n        self._wn._prev_sim_time = prev_rule_time\n        return self._rules.check()\n'),
    dict(name='quiet-le-spelled-not-greater',
         file=CTRL,
         silent=True,
         old="        elif self._relation is Comparison.le and cur_time <= self._threshold:\n            self._backtrack = 0\n            return True\n        else:\n            self._backtrack = 0\n            return False\n\n\n@DocInheritor({'requires', 'evaluate', 'name'})\nclass ValueCondition",
         new="        elif self._relation == Comparison.le and not cur_time > self._threshold:\n            self._backtrack = 0\n            return True\n        else:\n            self._backtrack = 0\n            return False\n\n\n@DocInheritor({'requires', 'evaluate', 'name'})\nclass ValueCondition"),
    dict(name='quiet-clocktime-range-relations-table',
         file=CTRL,
         silent=True,
         old='            elif self._relation is Comparison.gt:\n                if clock > self._threshold:\n                    self._backtrack = 0\n                    return True\n            elif self._relation is Comparison.lt:\n                if clock < self._threshold:\n                    self._backtrack = 0\n                    return True\n            elif self._relation is Comparison.le:\n                if clock <= self._threshold:\n                    self._backtrack = 0\n                    return True\n',
         new='            else:\n                holds = {Comparison.gt: clock > self._threshold, Comparison.lt: clock < self._threshold, Comparison.le: not clock > self._threshold}\n                if holds.get(self._relation, False):\n                    self._backtrack = 0\n                    return True\n'),
    dict(name='quiet-rule-window-inlined-from-sim-time',
         file=CORE,
         silent=True,
         old='        saved = self._wn._prev_sim_time\n        prev_rule_time = (self._rule_iter - 2) * self._wn.options.time.rule_timestep\n        self._wn._prev_sim_time = prev_rule_time\n        try:\n            return self._rules.check()\n        finally:\n            self._wn._prev_sim_time = saved\n',
         new='        model = self._wn\n        last_solution = model._prev_sim_time\n        model._prev_sim_time = model.sim_time - model.options.time.rule_timestep\n        triggered = self._rules.check()\n        model._prev_sim_time = last_solution\n        return triggered\n'),
    # ---- /repo 1cd01e3e: the window starts at the previous rule instant even when the last hydraulic solution is later (partial step between two rule instants)
    dict(name='rule-window-starts-at-a-later-solution',
         file=CORE,
         rule='R-C04-4',
         old='        self._wn._prev_sim_time = prev_rule_time\n        try:\n            return self._rules.check()\n',
         new='        self._wn._prev_sim_time = max(saved, prev_rule_time)\n        try:\n            return self._rules.check()\n'),
    dict(name='quiet-rule-window-start-hoisted',
         file=CORE,
         silent=True,
         old='        prev_rule_time = (self._rule_iter - 2) * self._wn.options.time.rule_timestep\n        self._wn._prev_sim_time = prev_rule_time\n',
         new='        step = self._wn.options.time.rule_timestep\n        self._wn._prev_sim_time = self._rule_iter * step - 2 * step\n'),
    # ---- round-2 shapes: the rule window as a generator-based context manager; the checkers table captured by the closure and one loop over bound methods
    dict(name='quiet-rule-window-context-manager',
         file=CORE,
         silent=True,
         old='        saved = self._wn._prev_sim_time\n        prev_rule_time = (self._rule_iter - 2) * self._wn.options.time.rule_timestep\n        self._wn._prev_sim_time = prev_rule_time\n        try:\n            return self._rules.check()\n        finally:\n            self._wn._prev_sim_time = saved\n',
         new='        with self._rule_window():\n            return self._rules.check()\n\n    @contextlib.contextmanager\n    def _rule_window(self):\n        last_solution_time = self._wn._prev_sim_time\n        self._wn._prev_sim_time = (self._rule_iter - 2) * self._wn.options.time.rule_timestep\n        try:\n            yield\n        finally:\n            self._wn._prev_sim_time = last_solution_time\n',
         also=[('import itertools\n', 'import itertools\nimport contextlib\n')]),
    dict(name='rule-window-context-manager-does-not-restore',
         file=CORE,
         rule='R-C04-4',
         old='        saved = self._wn._prev_sim_time\n        prev_rule_time = (self._rule_iter - 2) * self._wn.options.time.rule_timestep\n        self._wn._prev_sim_time = prev_rule_time\n        try:\n            return self._rules.check()\n        finally:\n            self._wn._prev_sim_time = saved\n',
         new='        with self._rule_window():\n            return self._rules.check()\n\n    @contextlib.contextmanager\n    def _rule_window(self):\n        self._wn._prev_sim_time = (self._rule_iter - 2) * self._wn.options.time.rule_timestep\n        yield\n',
         also=[('import itertools\n', 'import itertools\nimport contextlib\n')]),
    dict(name='quiet-categorize-captured-table-loop-over-bound-methods',
         file=CORE,
         silent=True,
         old='        def categorize_control(control):\n            if control.epanet_control_type in {_ControlType.presolve, _ControlType.pre_and_postsolve}:\n                self._presolve_controls.register_control(control)\n            if control.epanet_control_type in {_ControlType.postsolve, _ControlType.pre_and_postsolve}:\n                self._postsolve_controls.register_control(control)\n            if control.epanet_control_type == _ControlType.rule:\n                self._rules.register_control(control)\n            if control.epanet_control_type == _ControlType.feasibility:\n                self._feasibility_controls.register_control(control)\n\n        for c_name, c in self._wn.controls():\n            categorize_control(c)\n        for c in self._get_all_tank_controls():\n            categorize_control(c)\n        for c in self._get_cv_controls():\n            categorize_control(c)\n        for c in self._get_pump_controls():\n            categorize_control(c)\n        for c in self._get_valve_controls():\n            categorize_control(c)\n',
         new='        managers_by_type = {\n            _ControlType.presolve: (self._presolve_controls,),\n            _ControlType.pre_and_postsolve: (self._presolve_controls, self._postsolve_controls),\n            _ControlType.postsolve: (self._postsolve_controls,),\n            _ControlType.rule: (self._rules,),\n            _ControlType.feasibility: (self._feasibility_controls,),\n        }\n\n        def categorize_control(control):\n            for manager in managers_by_type.get(control.epanet_control_type, ()):\n                manager.register_control(control)\n\n        for c_name, c in self._wn.controls():\n            categorize_control(c)\n        for get_internal_controls in (self._get_all_tank_controls, self._get_cv_controls,\n                                      self._get_pump_controls, self._get_valve_controls):\n            for c in get_internal_controls():\n                categorize_control(c)\n'),
    dict(name='bound-method-loop-misses-valve-controls',
         file=CORE,
         rule='R-C04-5',
         old='        def categorize_control(control):\n            if control.epanet_control_type in {_ControlType.presolve, _ControlType.pre_and_postsolve}:\n                self._presolve_controls.register_control(control)\n            if control.epanet_control_type in {_ControlType.postsolve, _ControlType.pre_and_postsolve}:\n                self._postsolve_controls.register_control(control)\n            if control.epanet_control_type == _ControlType.rule:\n                self._rules.register_control(control)\n            if control.epanet_control_type == _ControlType.feasibility:\n                self._feasibility_controls.register_control(control)\n\n        for c_name, c in self._wn.controls():\n            categorize_control(c)\n        for c in self._get_all_tank_controls():\n            categorize_control(c)\n        for c in self._get_cv_controls():\n            categorize_control(c)\n        for c in self._get_pump_controls():\n            categorize_control(c)\n        for c in self._get_valve_controls():\n            categorize_control(c)\n',
         new='        def categorize_control(control):\n            if control.epanet_control_type in {_ControlType.presolve, _ControlType.pre_and_postsolve}:\n                self._presolve_controls.register_control(control)\n            if control.epanet_control_type in {_ControlType.postsolve, _ControlType.pre_and_postsolve}:\n                self._postsolve_controls.register_control(control)\n            if control.epanet_control_type == _ControlType.rule:\n                self._rules.register_control(control)\n            if control.epanet_control_type == _ControlType.feasibility:\n                self._feasibility_controls.register_control(control)\n\n        for c_name, c in self._wn.controls():\n            categorize_control(c)\n        for get_internal_controls in (self._get_all_tank_controls, self._get_cv_controls, self._get_pump_controls):\n            for c in get_internal_controls():\n                categorize_control(c)\n'),
]
