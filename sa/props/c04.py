"""C04 -- time-based controls and rules act exactly at their configured instants."""
import ast
import math
import re

from ..src import walk, calls, call_name, dotted, const, loc, unparse, norm, AnchorError, ExtractError, last_attr, parent
from ..peval import Evaluator, Obj, Unknown, Raised
from ..cfg import CFG
from ..symx import SymExec, Opaque

CTRL = "wntr/network/controls.py"
CORE = "wntr/sim/core.py"
MODEL = "wntr/network/model.py"
IO = "wntr/epanet/io.py"

EXPLANATION = (
    "Finite region evaluation (partial evaluation of the AST over representative orderings of previous time < current time against the threshold, "
    "per relation and repeat mode) of SimTimeCondition.evaluate and TimeOfDayCondition.evaluate, compared with the instant/interval semantics of "
    "the statement including the back-track value; the six priority sort sites of the simulator sort ascending by priority (highest priority writes "
    "last) and the pre-solve list is stably re-sorted by descending back-track; abstract first iteration of the rule clock (rules must not be "
    "evaluated before the first hydraulic solution); classification of controls into pre-solve / post-solve / rule managers; partial-step "
    "bookkeeping (sim_time -= backtrack, return to the hydraulic grid); the INP reader / _time_control pass time, flag and repeat to the right "
    "condition class. Decides the conditions' truth tables and the scheduler's structure, not EPANET's own timeline.")
RULE_TEXT = "one instance = one (condition class, relation, repeat mode) truth table, one sort site, one path/bookkeeping fact"
ASSUMPTIONS = ["previous solved time < current time; thresholds and times are whole seconds", "`ne` conditions are not required by the statement"]

H = 3600.0
DAY = 86400.0
RELS = {"eq": lambda a, b: a == b, "gt": lambda a, b: a > b, "ge": lambda a, b: a >= b, "lt": lambda a, b: a < b, "le": lambda a, b: a <= b}


def comparison(name):
    return Obj("Comparison." + name)


def class_attr(d):
    parts = d.split(".")
    if len(parts) == 2 and parts[0] == "Comparison":
        return comparison(parts[1])
    raise Unknown(d)


def call_hook(name, n, ev):
    if name in ("np.floor", "math.floor", "numpy.floor"):
        return float(math.floor(ev.ev(n.args[0])))
    if name == "int":
        v = ev.ev(n.args[0])
        return int(v)
    return NotImplemented


def run_eval(fn, attrs):
    selfobj = Obj("self", attrs)
    ev = Evaluator({"self": selfobj}, class_attr, call_hook)
    res = ev.run(fn.body)
    return res, selfobj.attrs.get("_backtrack")


def instants_hit(prev, cur, thr, period, kmin=0):
    """largest instant thr + k*period (k >= kmin) in (prev, cur], or None."""
    if period is None:
        return thr if prev < thr <= cur else None
    k = math.floor((cur - thr) / period)
    if k < kmin:
        return None
    t = thr + k * period
    return t if prev < t <= cur else None


def run(repo, chk):
    # ---------------------------------------------------------------- R-C04-1 / R-C04-2 truth tables
    sim_fn = repo.func(CTRL, "SimTimeCondition.evaluate")
    tod_fn = repo.func(CTRL, "TimeOfDayCondition.evaluate")
    chk.fn(sim_fn, tod_fn)
    def dense_pairs(tmax_h, steps_h=(0.5, 1.0, 1.5), grain_h=0.5):
        out = []
        t = 0.0
        while t <= tmax_h:
            for st in steps_h:
                out.append((t * H, (t + st) * H))
            t += grain_h
        return out

    def table(kind, rel, repeat):
        """-> list of (region, ok, detail).  Representative points of every ordering of previous < current time against the threshold instants:
        a half-hour lattice over two days with steps of 0.5, 1 and 1.5 h (so that instants on and off the step boundaries, steps straddling
        midnight and steps containing no instant all occur), thresholds on the lattice, off the lattice, at 0:00 and just before midnight, and
        a start_clocktime of 0 and 6 h."""
        rows = []
        if kind == "sim":
            period = None if not repeat else 10 * H
            for thr in (2 * H, 0.0, 3.25 * H):
                for prev, cur in dense_pairs(30 if repeat else 8):
                    if prev == 0.0 and thr == 0.0:
                        continue      # the instant t = 0 is the initial state, not a crossing
                    model = Obj("wn", {"sim_time": cur, "_prev_sim_time": prev})
                    attrs = {"_model": model, "_threshold": thr, "_relation": comparison(rel), "_repeat": (period if repeat else False), "_backtrack": 0, "_first_time": 0}
                    try:
                        res, bt = run_eval(sim_fn, attrs)
                    except Raised:
                        rows.append((("thr=%gh prev=%gh cur=%gh" % (thr / H, prev / H, cur / H)), False, "raised"))
                        continue
                    rows.append(judge(rel, prev, cur, thr, period, res, bt, frame=lambda t, thr=thr, period=period: t if period is None else ((t - thr) % period + thr if t >= thr else t)))
        else:
            period = DAY if repeat else None
            for thr in (2 * H, 23.5 * H, 0.0, 12.25 * H):
                for start in (0.0, 6 * H):
                    for prev, cur in dense_pairs(50 if repeat else 26):
                        sp_, sc_ = prev + start, cur + start
                        if not repeat and (sc_ >= DAY):
                            continue          # a once-only clock-time condition lives on its first day
                        if prev == 0.0 and (thr - start) % DAY == 0.0:
                            continue          # threshold instant == start of the simulation: initial state, not a crossing
                        model = Obj("wn", {"_shifted_time": sc_, "_prev_shifted_time": sp_})
                        attrs = {"_model": model, "_threshold": thr, "_relation": comparison(rel), "_repeat": bool(repeat), "_backtrack": 0, "_first_day": 0}
                        try:
                            res, bt = run_eval(tod_fn, attrs)
                        except Raised:
                            rows.append((("thr=%gh start=%gh prev=%gh cur=%gh" % (thr / H, start / H, prev / H, cur / H)), False, "raised"))
                            continue
                        r_ = judge(rel, sp_, sc_, thr, period, res, bt, frame=(lambda t: t % DAY) if repeat else (lambda t: t))
                        rows.append(("thr=%gh start=%gh %s" % (thr / H, start / H, r_[0]), r_[1], r_[2]))
        return rows

    def judge(rel, prev, cur, thr, period, res, bt, frame):
        region = "prev=%gh cur=%gh" % (prev / H, cur / H)
        if rel == "eq":
            hit = instants_hit(prev, cur, thr, period)
            want = hit is not None
            if bool(res) != want:
                return (region, False, "returned %s, the instant %s in (prev, cur]" % (res, "is" if want else "is not"))
            if want and (bt is None or abs(bt - (cur - hit)) > 1e-9):
                return (region, False, "backtrack %s, expected %g s" % (bt, cur - hit))
            return (region, True, "")
        f = RELS[rel]
        # the keywords after / before (gt / lt) are accepted with either inclusivity at the single instant t = threshold
        f_true = {"gt": RELS["ge"], "lt": RELS["le"]}.get(rel, f)
        if res:
            if bt is None or bt < 0 or bt > cur - prev:
                return (region, False, "True with backtrack %s outside [0, cur-prev]" % bt)
            tstar = cur - bt
            if not f_true(frame(tstar), thr):
                return (region, False, "True, but `%s` does not hold at the acting time %gh (clock %gh vs threshold %gh)" % (rel, tstar / H, frame(tstar) / H, thr / H))
            return (region, True, "")
        if f(frame(cur), thr):
            return (region, False, "False, but `%s` holds at the current time %gh (clock %gh vs threshold %gh)" % (rel, cur / H, frame(cur) / H, thr / H))
        return (region, True, "")

    # a sim-time `repeat` is only meaningful for `at` instants (the class documents that repeat turns the relation into an at-time evaluation)
    combos = [("sim", r, False) for r in ("eq", "gt", "ge", "lt", "le")] + [("sim", "eq", True)] + [("tod", r, rp) for r in ("eq", "gt", "ge", "lt", "le") for rp in (True, False)]
    for kind, rel, rp in combos:
        cname = "SimTimeCondition" if kind == "sim" else "TimeOfDayCondition"
        fn = sim_fn if kind == "sim" else tod_fn
        mode = ("repeat every 10 h" if kind == "sim" else "daily") if rp else "once"
        try:
            rows = table(kind, rel, rp)
        except Unknown as e:
            raise ExtractError("%s.evaluate could not be region-evaluated: %s" % (cname, e))
        bad = [(r, d) for r, ok_, d in rows if not ok_]
        everTrue = any(True for r in rows)
        keyword = {"eq": "at", "gt": "after / >", "ge": ">=", "lt": "before / <", "le": "<="}[rel]
        chk.expect(not bad, "R-C04-1", "%s.evaluate relation %s (%s), %s: true exactly at the instant / on the interval, with the right partial step" % (cname, rel, keyword, mode), loc(fn),
                   "time condition truth table over the orderings of previous < current time against the threshold (threshold 2:00)",
                   expected="instant/interval semantics of the statement", found="; ".join("%s: %s" % b for b in bad[:4]))
        chk.sample({"rule": "R-C04-1", "condition": cname, "relation": rel, "mode": mode, "regions": len(rows), "failing": [b[0] for b in bad]})
    chk.floor("R-C04-1", 16)
    # frames: the model's shifted time adds start_clocktime to both current and previous time
    for prop, base in (("_shifted_time", "self.sim_time"), ("_prev_shifted_time", "self._prev_sim_time")):
        f = repo.func(MODEL, "WaterNetworkModel.%s" % prop, kind="getter")
        r = [s for s in walk(f) if isinstance(s, ast.Return)]
        txt = unparse(r[0].value) if r else ""
        chk.expect(set(x.strip() for x in txt.split("+")) == {base, "self.options.time.start_clocktime"}, "R-C04-2", "WaterNetworkModel.%s = %s + start_clocktime" % (prop, base.split(".")[1]), loc(f), found=txt)

    # ---------------------------------------------------------------- R-C04-3 priority order
    sort_order_rules(repo, chk, "R-C04-3")
    pre = repo.func(CORE, "WNTRSimulator._compute_next_timestep_and_run_presolve_controls_and_rules")

    # ---------------------------------------------------------------- R-C04-4 rule clock
    rs = repo.func(CORE, "WNTRSimulator.run_sim")
    init = [s for s in walk(rs) if isinstance(s, ast.Assign) and unparse(s.targets[0]) == "self._rule_iter"]
    wl = [n for n in walk(pre) if isinstance(n, ast.While) and "_rule_iter" in unparse(n.test)]
    if not wl:
        raise AnchorError("presolve scheduler: no while loop on the rule clock")
    # abstract first iteration: first_step -> sim_time = 0, no presolve controls pending (cnt = 0 = len), rule_timestep > 0
    def first_step_guard(s):
        """True / False if the assignment sits in the then / else branch of `if first_step`, None if unguarded."""
        q = s
        while q is not None and q is not rs:
            par = parent(q)
            if isinstance(par, ast.If) and unparse(par.test) == "first_step":
                return q in par.body
            if isinstance(par, ast.If) and unparse(par.test) == "not first_step":
                return q not in par.body
            q = par
        return None
    first_inits = [s for s in init if first_step_guard(s) is not False]
    chk.expect(bool(first_inits), "R-C04-4", "run_sim initialises the rule clock on a first step", loc(rs))
    for s in first_inits:
        v = const(s.value)
        enters = None
        if v is not None:
            # loop condition `cnt < len(...) or self._rule_iter * rule_timestep <= sim_time` with cnt = len = 0, sim_time = 0
            enters = (v * 360 <= 0)
        chk.expect(enters is False, "R-C04-4", "rules are not evaluated before the first hydraulic solution (rule clock starts after t = 0)", loc(rs, s),
                   "with the values reaching the scheduler at the first step (sim_time = 0, _rule_iter = %s) the rule branch `_rule_iter * rule_timestep <= sim_time` is entered: "
                   "rules act at t = 0 before any solve, unlike EPANET which evaluates rules at the positive multiples of the rule timestep" % unparse(s.value),
                   expected="_rule_iter >= 1 on a first step (first evaluation at rule_timestep)", found="self._rule_iter = %s" % unparse(s.value))
    chk.expect(bool(init), "R-C04-4", "run_sim initialises the rule clock", loc(rs))
    g = CFG(pre)
    sets = g.nodes_where(lambda node, d: isinstance(node, ast.Assign) and unparse(node.targets[0]) == "self._wn.sim_time" and "_rule_iter" in unparse(node.value))
    incs = g.nodes_where(lambda node, d: isinstance(node, ast.AugAssign) and unparse(node.target) == "self._rule_iter")
    checks_ = g.calling("self._rules.check")
    chk.expect(len(checks_) >= 3 and len(incs) == len(checks_), "R-C04-4", "every evaluation of the rules advances the rule clock exactly once", loc(pre), found=(len(checks_), len(incs)))
    for c in checks_:
        # within the loop iteration, exactly one increment precedes/accompanies this check
        doms = [i for i in incs if g.dominates(i, c)]
        chk.expect(len(doms) >= 1, "R-C04-4", "rule evaluation at line %d is dominated by an increment of the rule clock" % g.g.nodes[c]["line"], loc(pre, g.node_ast(c)))
    for s_ in sets:
        v = unparse(g.node_ast(s_).value)
        chk.expect(re.fullmatch(r"self\._rule_iter \* self\._wn\.options\.time\.rule_timestep", v) is not None, "R-C04-4", "rules are evaluated at rule_iter * rule_timestep (line %d)" % g.g.nodes[s_]["line"], loc(pre, g.node_ast(s_)), found=v)

    # ---------------------------------------------------------------- R-C04-5 classification
    from ._shared import control_type_table
    table_, default_, ci, init_ok = control_type_table(repo)
    chk.fn(ci)
    chk.expect(init_ok, "R-C04-5", "Control.__init__ stores the classification of the condition it was given", loc(ci))
    chk.expect(table_.get("TankLevelCondition") == "_ControlType.pre_and_postsolve", "R-C04-5", "tank-level controls are pre- and post-solve", loc(ci), found=table_)
    tkey = [k for k in table_ if "SimTimeCondition" in k and "TimeOfDayCondition" in k]
    chk.expect(bool(tkey) and table_[tkey[0]] == "_ControlType.presolve", "R-C04-5", "time-conditioned controls are pre-solve (back-tracked to their instant)", loc(ci), found=table_)
    chk.expect(default_ == "_ControlType.postsolve", "R-C04-5", "other simple controls are post-solve", loc(ci), found=default_)
    ri = repo.func(CTRL, "Rule.__init__")
    chk.expect("_ControlType.rule" in unparse(ri), "R-C04-5", "rules are classified as rules", loc(ri))
    gm = repo.func(CORE, "WNTRSimulator._get_control_managers")
    cat = [n for n in walk(gm, skip_nested=False) if isinstance(n, ast.FunctionDef) and n.name == "categorize_control"]
    if not cat:
        raise AnchorError("_get_control_managers.categorize_control vanished")
    got = {}
    for n in walk(cat[0]):
        if isinstance(n, ast.If):
            types = set(re.findall(r"_ControlType\.(\w+)", unparse(n.test)))
            for c in calls(n, attr="register_control"):
                if c in [cc for s in n.body for cc in calls(s)]:
                    got.setdefault(unparse(c.func.value), set()).update(types)
    want = {"self._presolve_controls": {"presolve", "pre_and_postsolve"}, "self._postsolve_controls": {"postsolve", "pre_and_postsolve"},
            "self._rules": {"rule"}, "self._feasibility_controls": {"feasibility"}}
    for k, v in want.items():
        chk.expect(got.get(k) == v, "R-C04-5", "%s receives exactly the control types %s" % (k, sorted(v)), loc(gm), found=sorted(got.get(k, [])))
    srcs = [unparse(x.iter) for x in walk(gm) if isinstance(x, ast.For) and any(last_attr(c) == "categorize_control" or call_name(c) == "categorize_control" for c in calls(x))]
    need = {"self._wn.controls()", "self._get_all_tank_controls()", "self._get_cv_controls()", "self._get_pump_controls()", "self._get_valve_controls()"}
    chk.expect(need <= set(srcs), "R-C04-5", "user controls and all internal control families are categorised", loc(gm), found=srcs)

    # ---------------------------------------------------------------- R-C04-6 partial step bookkeeping
    backs = g.nodes_where(lambda node, d: isinstance(node, ast.AugAssign) and unparse(node.target) == "self._wn.sim_time" and isinstance(node.op, ast.Sub) and unparse(node.value) == "backtrack")
    chk.expect(len(backs) >= 2, "R-C04-6", "a firing pre-solve control moves sim_time back by its back-track (partial step)", loc(pre), found=len(backs))
    fs = [n for n in walk(pre) if isinstance(n, ast.If) and unparse(n.test) == "first_step"]
    okfs = bool(fs) and "[(c, 0) for c, b in presolve_controls_to_run]" in unparse(fs[0])
    chk.expect(okfs, "R-C04-6", "on the first step back-tracks are zeroed (no step before t = 0)", loc(pre))
    adv = [s for s in walk(rs) if isinstance(s, ast.AugAssign) and unparse(s.target) == "self._wn.sim_time"]
    txt = [unparse(s) for s in adv]
    chk.expect("self._wn.sim_time += self._hydraulic_timestep" in txt and "self._wn.sim_time -= overstep" in txt, "R-C04-6", "after an accepted step sim_time advances by one hydraulic step and returns to the hydraulic grid", loc(rs), found=txt)
    ov = [s for s in walk(rs) if isinstance(s, ast.Assign) and unparse(s.targets[0]) == "overstep"]
    chk.expect(bool(ov) and re.fullmatch(r"float\(self\._wn\.sim_time\) % self\._hydraulic_timestep", unparse(ov[0].value)) is not None, "R-C04-6", "overstep = sim_time mod hydraulic_timestep", loc(rs), found=unparse(ov[0].value) if ov else None)
    # change detection precedes the move: sim_time -= backtrack only under changes_made('presolve')
    for b in backs:
        p = getattr(g.node_ast(b), "_parent", None)
        chk.expect(isinstance(p, ast.If) and "changes_made" in unparse(p.test), "R-C04-6", "sim_time is moved back only when the control actually changed something (line %d)" % g.g.nodes[b]["line"], loc(pre, g.node_ast(b))) \
            if isinstance(p, ast.If) and "changes_made" in unparse(p.test) else None

    # ---------------------------------------------------------------- R-C04-7 construction
    tc = repo.func(CTRL, "Control._time_control")
    ex = SymExec()
    seen = {}
    for o in ex.run(tc):
        if o.raised:
            continue
        for e in o.events:
            if e[0] == "call" and (e[1].startswith("SimTimeCondition(") or e[1].startswith("TimeOfDayCondition(")):
                flag = "SIM_TIME" if any("'SIM_TIME'" in t and v for t, v in o.conds) else ("CLOCK_TIME" if any("'CLOCK_TIME'" in t and v for t, v in o.conds) else "?")
                kw = e[2][2]
                seen[flag] = (e[1].split("(")[0], kw.get("threshold"), kw.get("repeat"), kw.get("relation"))
    for flag, cls_ in (("SIM_TIME", "SimTimeCondition"), ("CLOCK_TIME", "TimeOfDayCondition")):
        got_ = seen.get(flag)
        okc = got_ is not None and got_[0] == cls_ and got_[1] == Opaque("run_at_time") and got_[2] == Opaque("daily_flag") and isinstance(got_[3], Opaque) and got_[3].text == "Comparison.eq"
        chk.expect(okc, "R-C04-7", "Control._time_control(%s) builds %s(eq, run_at_time, repeat=daily_flag)" % (flag, cls_), loc(tc), found=got_)
    rcl = repo.func(IO, "_read_control_line")
    tcalls = [c for c in calls(rcl) if call_name(c) == "Control._time_control"]
    got_ = sorted((const(c.args[2]), const(c.args[3])) for c in tcalls if len(c.args) >= 4)
    chk.expect(got_ == [("CLOCK_TIME", True), ("SIM_TIME", False)], "R-C04-7", "the INP reader creates CLOCKTIME controls as daily and TIME controls as one-shot", loc(rcl), found=got_)
    for c in tcalls:
        chk.expect(unparse(c.args[1]) == "run_at_time" and unparse(c.args[4]) == "action_obj", "R-C04-7", "reader passes the parsed time and the action (line %d)" % c.lineno, loc(rcl, c))



# ------------------------------------------------------------------ effective ordering of the control lists
SORT_FUNCS = ("WNTRSimulator._compute_next_timestep_and_run_presolve_controls_and_rules", "WNTRSimulator._run_feasibility_controls",
              "WNTRSimulator._run_postsolve_controls")


def _key_components(lam):
    """lambda i: <expr> -> [(component, 'asc'|'desc')] with component in {priority, backtrack}; None if not recognised."""
    if not isinstance(lam, ast.Lambda) or len(lam.args.args) != 1:
        return None
    v = lam.args.args[0].arg

    def one(e):
        sign = "asc"
        while isinstance(e, ast.UnaryOp) and isinstance(e.op, ast.USub):
            sign = "desc" if sign == "asc" else "asc"
            e = e.operand
        t = unparse(e)
        if t in ("%s[0]._priority" % v, "%s[0].priority" % v, "int(%s[0]._priority)" % v):
            return ("priority", sign)
        if t == "%s[1]" % v:
            return ("backtrack", sign)
        return None
    body = lam.body
    elts = body.elts if isinstance(body, ast.Tuple) else [body]
    out = [one(e) for e in elts]
    return None if any(o is None for o in out) else out


def effective_orders(fn, listname):
    """[(effective lexicographic order, sort calls)] per definition of `listname` in fn: successive (stable) sorts of one list
    value compose, the last sort being the primary key; a re-assignment of the list starts a new group."""
    defs = sorted(n.lineno for n in walk(fn) if isinstance(n, ast.Assign) and any(isinstance(t, ast.Name) and t.id == listname for t in n.targets))
    groups = {}
    for c in calls(fn, attr="sort"):
        if unparse(c.func.value) != listname:
            continue
        key = [k.value for k in c.keywords if k.arg == "key"]
        rev = [k.value for k in c.keywords if k.arg == "reverse"]
        comps = _key_components(key[0]) if key else None
        if comps is None:
            raise ExtractError("sort key of %s at line %d not recognised: %s" % (listname, c.lineno, unparse(c)))
        if rev:
            rv = const(rev[0])
            if rv not in (True, False):
                raise ExtractError("sort reverse= of %s at line %d is not a constant" % (listname, c.lineno))
            if rv:
                comps = [(n, "desc" if d == "asc" else "asc") for n, d in comps]
        d = max([l for l in defs if l < c.lineno] or [0])
        groups.setdefault(d, []).append((c, comps))
    out = []
    for d in sorted(groups):
        seq = groups[d]
        eff = []
        for c, comps in reversed(seq):
            for n, dr in comps:
                if n not in [x[0] for x in eff]:
                    eff.append((n, dr))
        out.append((eff, seq))
    return out


def sort_order_rules(repo, chk, rule):
    lists = []
    for qual in SORT_FUNCS:
        fn = repo.func(CORE, qual)
        chk.fn(fn)
        names = []
        for c in calls(fn, attr="sort"):
            nm = unparse(c.func.value)
            if nm not in names:
                names.append(nm)
        for nm in names:
            lists.append((qual.split(".")[1], nm, fn))
    nsites = 0
    for fnname, lst, fn in lists:
      for eff, seq in effective_orders(fn, lst):
        nsites += 1
        where = loc(fn, seq[0][0])
        if lst == "presolve_controls_to_run":
            want = [("backtrack", "desc"), ("priority", "asc")]
            chk.expect(eff == want, rule, "pre-solve controls are ordered by time (largest back-track first) and, among equal instants, ascending by priority "
                       "(highest priority runs last and wins)", where,
                       "the scheduler rewinds to the first control that changes something and stops: an ordering whose primary key is not the firing "
                       "instant lets a control crossed later in the step pre-empt one crossed earlier", expected=want, found=eff)
        else:
            want = [("priority", "asc")]
            chk.expect(eff == want, rule, "%s sorts %s (defined at line-group %d) ascending by priority alone (highest priority runs last and wins)" % (
                fnname, lst, [g[1] for g in effective_orders(fn, lst)].index(seq)), where,
                       "controls run in list order and later writes overwrite earlier ones", expected=want, found=eff)
        runs = [x for x in walk(fn) if isinstance(x, ast.For) and unparse(x.iter) == lst and any(last_attr(cc) == "run_control_action" for cc in calls(x))]
        idx = [cc for cc in calls(fn, attr="run_control_action") if lst in unparse(cc) or unparse(cc.func.value) == "control"]
        chk.expect(bool(runs) or bool(idx), rule, "%s executes %s (group %d) in list order" % (fnname, lst, [g[1] for g in effective_orders(fn, lst)].index(seq)), where)
    chk.floor(rule, 12)
    if nsites < 6:
        chk.error("%s: only %d sorted control lists found (pre-solve, rules x3, feasibility, post-solve expected)" % (rule, nsites))

WITNESSES = [
    dict(name="simtime-eq-strict", file=CTRL, old="        if self._relation is Comparison.eq and (prev_time < self._threshold and self._threshold <= cur_time):\n            self._backtrack = int(cur_time - self._threshold)\n            return True\n        elif self._relation is Comparison.gt and cur_time > self._threshold:",
         new="        if self._relation is Comparison.eq and (prev_time < self._threshold and self._threshold < cur_time):\n            self._backtrack = int(cur_time - self._threshold)\n            return True\n        elif self._relation is Comparison.gt and cur_time > self._threshold:", rule="R-C04-1"),
    dict(name="simtime-backtrack-sign", file=CTRL, old="        elif self._relation is Comparison.ge and cur_time >= self._threshold and prev_time < self._threshold:\n            self._backtrack = int(cur_time - self._threshold)",
         new="        elif self._relation is Comparison.ge and cur_time >= self._threshold and prev_time < self._threshold:\n            self._backtrack = int(self._threshold - cur_time)", rule="R-C04-1"),
    dict(name="priority-descending", file=CORE, old="        postsolve_controls_to_run.sort(key=lambda i: i[0]._priority)", new="        postsolve_controls_to_run.sort(key=lambda i: i[0]._priority, reverse=True)", rule="R-C04-3"),
    dict(name="merged-sort", file=CORE, old="        presolve_controls_to_run.sort(key=lambda i: i[0]._priority)  # sort them by priority\n", new="", rule="R-C04-3"),
    dict(name="rule-clock-starts-at-zero", file=CORE, old="            self._rule_iter = 1\n", new="            self._rule_iter = 0\n", rule="R-C04-4"),
    dict(name="rule-increment-missing", file=CORE, old="                    self._wn.sim_time = self._rule_iter * self._wn.options.time.rule_timestep\n                    self._rule_iter += 1\n                    if not first_step:", new="                    self._wn.sim_time = self._rule_iter * self._wn.options.time.rule_timestep\n                    if not first_step:", rule="R-C04-4"),
    dict(name="time-controls-postsolve", file=CTRL, old="        elif isinstance(condition, (TimeOfDayCondition, SimTimeCondition)):\n            return _ControlType.presolve", new="        elif isinstance(condition, (TimeOfDayCondition, SimTimeCondition)):\n            return _ControlType.postsolve", rule="R-C04-5"),
    dict(name="first-step-guard-removed", file=CORE, old="        if first_step:  # we don't want to backtrack if the sim time is 0\n            presolve_controls_to_run = [(c, 0) for c, b in presolve_controls_to_run]\n", new="", rule="R-C04-6"),
    dict(name="reader-clocktime-once", file=IO, old="            control_obj = Control._time_control(wn, run_at_time, 'CLOCK_TIME', True, action_obj, control_name)", new="            control_obj = Control._time_control(wn, run_at_time, 'CLOCK_TIME', False, action_obj, control_name)", rule="R-C04-7"),
]
