"""C04 -- time-based controls and rules act exactly at their configured instants."""
import ast
import math
import re

from ..src import walk, calls, call_name, dotted, const, loc, unparse, norm, AnchorError, ExtractError, last_attr, parent
from ..peval import Evaluator, Obj, Unknown, Raised
from ..cfg import CFG
from ..symx import SymExec, Opaque, State

CTRL = "wntr/network/controls.py"
CORE = "wntr/sim/core.py"
MODEL = "wntr/network/model.py"
IO = "wntr/epanet/io.py"

EXPLANATION = (
    "Finite region evaluation (partial evaluation of the AST over representative orderings of previous time < current time against the threshold, "
    "per relation and repeat mode) of SimTimeCondition.evaluate and TimeOfDayCondition.evaluate, compared with the instant/interval semantics of "
    "the statement including the back-track value; the six priority sort sites of the simulator sort ascending by priority (highest priority writes "
    "last) and the pre-solve list is stably re-sorted by descending back-track; abstract first iteration of the rule clock (rules must not be "
    "evaluated before the first hydraulic solution); classification of controls into pre-solve / post-solve / rule managers; partial-step "
    "bookkeeping (sim_time -= backtrack, return to the hydraulic grid); the INP reader / _time_control pass time, flag and repeat to the right "
    "condition class. Decides the conditions' truth tables and the scheduler's structure, not EPANET's own timeline.")
RULE_TEXT = "one instance = one (condition class, relation, repeat mode) truth table, one sort site, one path/bookkeeping fact"
ASSUMPTIONS = ["previous solved time < current time; thresholds and times are whole seconds", "`ne` conditions are not required by the statement"]

H = 3600.0
DAY = 86400.0
RELS = {"eq": lambda a, b: a == b, "gt": lambda a, b: a > b, "ge": lambda a, b: a >= b, "lt": lambda a, b: a < b, "le": lambda a, b: a <= b}


def comparison(name):
    return Obj("Comparison." + name)


def class_attr(d):
    parts = d.split(".")
    if len(parts) == 2 and parts[0] == "Comparison":
        return comparison(parts[1])
    raise Unknown(d)


def call_hook(name, n, ev):
    if name in ("np.floor", "math.floor", "numpy.floor"):
        return float(math.floor(ev.ev(n.args[0])))
    if name == "int":
        v = ev.ev(n.args[0])
        return int(v)
    return NotImplemented


def run_eval(fn, attrs):
    selfobj = Obj("self", attrs)
    ev = Evaluator({"self": selfobj}, class_attr, call_hook)
    res = ev.run(fn.body)
    return res, selfobj.attrs.get("_backtrack")


def instants_hit(prev, cur, thr, period, kmin=0):
    """largest instant thr + k*period (k >= kmin) in (prev, cur], or None."""
    if period is None:
        return thr if prev < thr <= cur else None
    k = math.floor((cur - thr) / period)
    if k < kmin:
        return None
    t = thr + k * period
    return t if prev < t <= cur else None


def run(repo, chk):
    # ---------------------------------------------------------------- R-C04-1 / R-C04-2 truth tables
    sim_fn = repo.func(CTRL, "SimTimeCondition.evaluate")
    tod_fn = repo.func(CTRL, "TimeOfDayCondition.evaluate")
    chk.fn(sim_fn, tod_fn)
    def dense_pairs(tmax_h, steps_h=(0.5, 1.0, 1.5), grain_h=0.5):
        out = []
        t = 0.0
        while t <= tmax_h:
            for st in steps_h:
                out.append((t * H, (t + st) * H))
            t += grain_h
        return out

    def table(kind, rel, repeat):
        """-> list of (region, ok, detail).  Representative points of every ordering of previous < current time against the threshold instants:
        a half-hour lattice over two days with steps of 0.5, 1 and 1.5 h (so that instants on and off the step boundaries, steps straddling
        midnight and steps containing no instant all occur), thresholds on the lattice, off the lattice, at 0:00 and just before midnight, and
        a start_clocktime of 0 and 6 h."""
        rows = []
        if kind == "sim":
            period = None if not repeat else 10 * H
            for thr in (2 * H, 0.0, 3.25 * H):
                for prev, cur in dense_pairs(30 if repeat else 8):
                    if prev == 0.0 and thr == 0.0:
                        continue      # the instant t = 0 is the initial state, not a crossing
                    model = Obj("wn", {"sim_time": cur, "_prev_sim_time": prev})
                    attrs = {"_model": model, "_threshold": thr, "_relation": comparison(rel), "_repeat": (period if repeat else False), "_backtrack": 0, "_first_time": 0}
                    try:
                        res, bt = run_eval(sim_fn, attrs)
                    except Raised:
                        rows.append((("thr=%gh prev=%gh cur=%gh" % (thr / H, prev / H, cur / H)), False, "raised"))
                        continue
                    rows.append(judge(rel, prev, cur, thr, period, res, bt, frame=lambda t, thr=thr, period=period: t if period is None else ((t - thr) % period + thr if t >= thr else t)))
        else:
            period = DAY if repeat else None
            for thr in (2 * H, 23.5 * H, 0.0, 12.25 * H):
                for start in (0.0, 6 * H):
                    for prev, cur in dense_pairs(50 if repeat else 26):
                        sp_, sc_ = prev + start, cur + start
                        if not repeat and (sc_ >= DAY):
                            continue          # a once-only clock-time condition lives on its first day
                        if prev == 0.0 and (thr - start) % DAY == 0.0:
                            continue          # threshold instant == start of the simulation: initial state, not a crossing
                        model = Obj("wn", {"_shifted_time": sc_, "_prev_shifted_time": sp_})
                        attrs = {"_model": model, "_threshold": thr, "_relation": comparison(rel), "_repeat": bool(repeat), "_backtrack": 0, "_first_day": 0}
                        try:
                            res, bt = run_eval(tod_fn, attrs)
                        except Raised:
                            rows.append((("thr=%gh start=%gh prev=%gh cur=%gh" % (thr / H, start / H, prev / H, cur / H)), False, "raised"))
                            continue
                        r_ = judge(rel, sp_, sc_, thr, period, res, bt, frame=(lambda t: t % DAY) if repeat else (lambda t: t))
                        rows.append(("thr=%gh start=%gh %s" % (thr / H, start / H, r_[0]), r_[1], r_[2]))
        return rows

    def judge(rel, prev, cur, thr, period, res, bt, frame):
        region = "prev=%gh cur=%gh" % (prev / H, cur / H)
        if rel == "eq":
            hit = instants_hit(prev, cur, thr, period)
            want = hit is not None
            if bool(res) != want:
                return (region, False, "returned %s, the instant %s in (prev, cur]" % (res, "is" if want else "is not"))
            if want and (bt is None or abs(bt - (cur - hit)) > 1e-9):
                return (region, False, "backtrack %s, expected %g s" % (bt, cur - hit))
            return (region, True, "")
        f = RELS[rel]
        # the keywords after / before (gt / lt) are accepted with either inclusivity at the single instant t = threshold
        f_true = {"gt": RELS["ge"], "lt": RELS["le"]}.get(rel, f)
        if res:
            if bt is None or bt < 0 or bt > cur - prev:
                return (region, False, "True with backtrack %s outside [0, cur-prev]" % bt)
            tstar = cur - bt
            if not f_true(frame(tstar), thr):
                return (region, False, "True, but `%s` does not hold at the acting time %gh (clock %gh vs threshold %gh)" % (rel, tstar / H, frame(tstar) / H, thr / H))
            return (region, True, "")
        if f(frame(cur), thr):
            return (region, False, "False, but `%s` holds at the current time %gh (clock %gh vs threshold %gh)" % (rel, cur / H, frame(cur) / H, thr / H))
        return (region, True, "")

    # a sim-time `repeat` is only meaningful for `at` instants (the class documents that repeat turns the relation into an at-time evaluation)
    combos = [("sim", r, False) for r in ("eq", "gt", "ge", "lt", "le")] + [("sim", "eq", True)] + [("tod", r, rp) for r in ("eq", "gt", "ge", "lt", "le") for rp in (True, False)]
    for kind, rel, rp in combos:
        cname = "SimTimeCondition" if kind == "sim" else "TimeOfDayCondition"
        fn = sim_fn if kind == "sim" else tod_fn
        mode = ("repeat every 10 h" if kind == "sim" else "daily") if rp else "once"
        try:
            rows = table(kind, rel, rp)
        except Unknown as e:
            raise ExtractError("%s.evaluate could not be region-evaluated: %s" % (cname, e))
        bad = [(r, d) for r, ok_, d in rows if not ok_]
        everTrue = any(True for r in rows)
        keyword = {"eq": "at", "gt": "after / >", "ge": ">=", "lt": "before / <", "le": "<="}[rel]
        chk.expect(not bad, "R-C04-1", "%s.evaluate relation %s (%s), %s: true exactly at the instant / on the interval, with the right partial step" % (cname, rel, keyword, mode), loc(fn),
                   "time condition truth table over the orderings of previous < current time against the threshold (threshold 2:00)",
                   expected="instant/interval semantics of the statement", found="; ".join("%s: %s" % b for b in bad[:4]))
        chk.sample({"rule": "R-C04-1", "condition": cname, "relation": rel, "mode": mode, "regions": len(rows), "failing": [b[0] for b in bad]})
    chk.floor("R-C04-1", 16)
    # frames: the model's shifted time adds start_clocktime to both current and previous time
    for prop, base in (("_shifted_time", "self.sim_time"), ("_prev_shifted_time", "self._prev_sim_time")):
        f = repo.func(MODEL, "WaterNetworkModel.%s" % prop, kind="getter")
        r = [s for s in walk(f) if isinstance(s, ast.Return)]
        txt = unparse(r[0].value) if r else ""
        chk.expect(set(x.strip() for x in txt.split("+")) == {base, "self.options.time.start_clocktime"}, "R-C04-2", "WaterNetworkModel.%s = %s + start_clocktime" % (prop, base.split(".")[1]), loc(f), found=txt)

    # ---------------------------------------------------------------- R-C04-3 priority order
    sort_order_rules(repo, chk, "R-C04-3")
    pre = repo.func(CORE, "WNTRSimulator._compute_next_timestep_and_run_presolve_controls_and_rules")

    # ---------------------------------------------------------------- R-C04-4 rule clock
    rs = repo.func(CORE, "WNTRSimulator.run_sim")
    init = [s for s in walk(rs) if isinstance(s, ast.Assign) and unparse(s.targets[0]) == "self._rule_iter"]
    wl = [n for n in walk(pre) if isinstance(n, ast.While) and "_rule_iter" in unparse(n.test)]
    if not wl:
        raise AnchorError("presolve scheduler: no while loop on the rule clock")
    # abstract first iteration: first_step -> sim_time = 0, no presolve controls pending (cnt = 0 = len), rule_timestep > 0
    def first_step_guard(s):
        """True / False if the assignment sits in the then / else branch of `if first_step`, None if unguarded."""
        q = s
        while q is not None and q is not rs:
            par = parent(q)
            if isinstance(par, ast.If) and unparse(par.test) == "first_step":
                return q in par.body
            if isinstance(par, ast.If) and unparse(par.test) == "not first_step":
                return q not in par.body
            q = par
        return None
    first_inits = [s for s in init if first_step_guard(s) is not False]
    chk.expect(bool(first_inits), "R-C04-4", "run_sim initialises the rule clock on a first step", loc(rs))
    for s in first_inits:
        v = const(s.value)
        enters = None
        if v is not None:
            # loop condition `cnt < len(...) or self._rule_iter * rule_timestep <= sim_time` with cnt = len = 0, sim_time = 0
            enters = (v * 360 <= 0)
        chk.expect(enters is False, "R-C04-4", "rules are not evaluated before the first hydraulic solution (rule clock starts after t = 0)", loc(rs, s),
                   "with the values reaching the scheduler at the first step (sim_time = 0, _rule_iter = %s) the rule branch `_rule_iter * rule_timestep <= sim_time` is entered: "
                   "rules act at t = 0 before any solve, unlike EPANET which evaluates rules at the positive multiples of the rule timestep" % unparse(s.value),
                   expected="_rule_iter >= 1 on a first step (first evaluation at rule_timestep)", found="self._rule_iter = %s" % unparse(s.value))
    chk.expect(bool(init), "R-C04-4", "run_sim initialises the rule clock", loc(rs))
    g = CFG(pre)
    sets = g.nodes_where(lambda node, d: isinstance(node, ast.Assign) and unparse(node.targets[0]) == "self._wn.sim_time" and "_rule_iter" in unparse(node.value))
    incs = g.nodes_where(lambda node, d: isinstance(node, ast.AugAssign) and unparse(node.target) == "self._rule_iter")
    checks_ = g.calling("self._rules.check")
    chk.expect(len(checks_) >= 3 and len(incs) == len(checks_), "R-C04-4", "every evaluation of the rules advances the rule clock exactly once", loc(pre), found=(len(checks_), len(incs)))
    for c in checks_:
        # within the loop iteration, exactly one increment precedes/accompanies this check
        doms = [i for i in incs if g.dominates(i, c)]
        chk.expect(len(doms) >= 1, "R-C04-4", "rule evaluation at line %d is dominated by an increment of the rule clock" % g.g.nodes[c]["line"], loc(pre, g.node_ast(c)))
    for s_ in sets:
        v = unparse(g.node_ast(s_).value)
        chk.expect(re.fullmatch(r"self\._rule_iter \* self\._wn\.options\.time\.rule_timestep", v) is not None, "R-C04-4", "rules are evaluated at rule_iter * rule_timestep (line %d)" % g.g.nodes[s_]["line"], loc(pre, g.node_ast(s_)), found=v)

    # ---------------------------------------------------------------- R-C04-5 classification
    classification_rules(repo, chk, "R-C04-5")

    # ---------------------------------------------------------------- R-C04-6 partial step bookkeeping
    backs = g.nodes_where(lambda node, d: isinstance(node, ast.AugAssign) and unparse(node.target) == "self._wn.sim_time" and isinstance(node.op, ast.Sub) and unparse(node.value) == "backtrack")
    chk.expect(len(backs) >= 2, "R-C04-6", "a firing pre-solve control moves sim_time back by its back-track (partial step)", loc(pre), found=len(backs))
    fs = [n for n in walk(pre) if isinstance(n, ast.If) and unparse(n.test) == "first_step"]
    okfs = bool(fs) and "[(c, 0) for c, b in presolve_controls_to_run]" in unparse(fs[0])
    chk.expect(okfs, "R-C04-6", "on the first step back-tracks are zeroed (no step before t = 0)", loc(pre))
    adv = [s for s in walk(rs) if isinstance(s, ast.AugAssign) and unparse(s.target) == "self._wn.sim_time"]
    txt = [unparse(s) for s in adv]
    chk.expect("self._wn.sim_time += self._hydraulic_timestep" in txt and "self._wn.sim_time -= overstep" in txt, "R-C04-6", "after an accepted step sim_time advances by one hydraulic step and returns to the hydraulic grid", loc(rs), found=txt)
    ov = [s for s in walk(rs) if isinstance(s, ast.Assign) and unparse(s.targets[0]) == "overstep"]
    chk.expect(bool(ov) and re.fullmatch(r"float\(self\._wn\.sim_time\) % self\._hydraulic_timestep", unparse(ov[0].value)) is not None, "R-C04-6", "overstep = sim_time mod hydraulic_timestep", loc(rs), found=unparse(ov[0].value) if ov else None)
    # change detection precedes the move: sim_time -= backtrack only under changes_made('presolve')
    for b in backs:
        p = getattr(g.node_ast(b), "_parent", None)
        chk.expect(isinstance(p, ast.If) and "changes_made" in unparse(p.test), "R-C04-6", "sim_time is moved back only when the control actually changed something (line %d)" % g.g.nodes[b]["line"], loc(pre, g.node_ast(b))) \
            if isinstance(p, ast.If) and "changes_made" in unparse(p.test) else None

    # ---------------------------------------------------------------- R-C04-7 construction
    tc = repo.func(CTRL, "Control._time_control")
    ex = SymExec()
    seen = {}
    for o in ex.run(tc):
        if o.raised:
            continue
        for e in o.events:
            if e[0] == "call" and (e[1].startswith("SimTimeCondition(") or e[1].startswith("TimeOfDayCondition(")):
                flag = "SIM_TIME" if any("'SIM_TIME'" in t and v for t, v in o.conds) else ("CLOCK_TIME" if any("'CLOCK_TIME'" in t and v for t, v in o.conds) else "?")
                kw = e[2][2]
                seen[flag] = (e[1].split("(")[0], kw.get("threshold"), kw.get("repeat"), kw.get("relation"))
    for flag, cls_ in (("SIM_TIME", "SimTimeCondition"), ("CLOCK_TIME", "TimeOfDayCondition")):
        got_ = seen.get(flag)
        okc = got_ is not None and got_[0] == cls_ and got_[1] == Opaque("run_at_time") and got_[2] == Opaque("daily_flag") and isinstance(got_[3], Opaque) and got_[3].text == "Comparison.eq"
        chk.expect(okc, "R-C04-7", "Control._time_control(%s) builds %s(eq, run_at_time, repeat=daily_flag)" % (flag, cls_), loc(tc), found=got_)
    rcl = repo.func(IO, "_read_control_line")
    tcalls = [c for c in calls(rcl) if call_name(c) == "Control._time_control"]
    got_ = sorted((const(c.args[2]), const(c.args[3])) for c in tcalls if len(c.args) >= 4)
    chk.expect(got_ == [("CLOCK_TIME", True), ("SIM_TIME", False)], "R-C04-7", "the INP reader creates CLOCKTIME controls as daily and TIME controls as one-shot", loc(rcl), found=got_)
    for c in tcalls:
        chk.expect(unparse(c.args[1]) == "run_at_time" and unparse(c.args[4]) == "action_obj", "R-C04-7", "reader passes the parsed time and the action (line %d)" % c.lineno, loc(rcl, c))



# ------------------------------------------------------------------ classification of controls (decided by execution, not by shape)
def class_ancestors(classes, name):
    """the class and all its ancestors defined in the same module, nearest first (bases are followed by name, also through wrappers
    such as six.with_metaclass(Meta, Base))."""
    out, todo = [], [name]
    while todo:
        c = todo.pop(0)
        if c in out:
            continue
        out.append(c)
        node = classes.get(c)
        for b in (node.bases if node is not None else []):
            for x in ast.walk(b):
                nm = x.id if isinstance(x, ast.Name) else (x.attr if isinstance(x, ast.Attribute) else None)
                if nm in classes and nm not in out:
                    todo.append(nm)
    return out


def resolved_methods(classes, name):
    """method name -> def, as attribute lookup on an instance of the class finds it (nearest class of the ancestor chain wins)."""
    out = {}
    for c in class_ancestors(classes, name):
        for n in classes[c].body:
            if isinstance(n, ast.FunctionDef) and not any(isinstance(d, ast.Attribute) and d.attr == "setter" for d in n.decorator_list):
                if n.name not in out:
                    n._rel = getattr(classes[c], "_rel", None)
                    n._qual = c + "." + n.name
                    out[n.name] = n
    return out


class DecidedExec(object):
    """Path enumeration (SymExec) of ONE function for ONE concrete case of its input:

    * branch tests (if / elif / conditional expressions, through not / and / or) are decided by `leaf(node, state, ex)` -> True / False /
      None, so an if-chain, early returns, a conditional expression and a lookup table all reduce to the one outcome of the case;
    * calls to helpers that can matter (`relevant(def)`): other methods of the class reached through self / cls / the class name, defs
      nested in the function and module-level functions are executed in place -- their stores and calls join the caller's events in
      program order -- so it does not matter whether the logic sits in the function, in a closure, in a method or in a module function;
    * `for x in <tuple / list value>` is unrolled.

    A helper whose outcome still depends on an undecided test is an ExtractError (never a guess)."""

    def __init__(self, fn, class_names, methods, module_funcs, relevant, leaf, attr_hook=None):
        self.fn = fn
        self.class_names = set(class_names)
        self.methods = methods
        self.module_funcs = module_funcs
        self.nested = {n.name: n for n in ast.walk(fn) if isinstance(n, ast.FunctionDef) and n is not fn}
        self.relevant = relevant
        self.leaf = leaf
        self.active = []
        self.ex = SymExec(call_hook=self._call, test_hook=self._test, attr_hook=attr_hook)
        self.ex.unroll_opaque = True

    def paths(self):
        """the paths that do not end in a raise."""
        return [o for o in self.ex.run(self.fn) if o.raised is None]

    # tests
    def _test(self, txt, node, st):
        while isinstance(node, ast.UnaryOp) and isinstance(node.op, ast.Not):
            node = node.operand           # SymExec strips the same leading negations from `txt` and applies them itself
        return self._bool(node, st)

    def _bool(self, node, st):
        if isinstance(node, ast.UnaryOp) and isinstance(node.op, ast.Not):
            v = self._bool(node.operand, st)
            return None if v is None else (not v)
        if isinstance(node, ast.BoolOp):
            vs = [self._bool(v, st) for v in node.values]
            hit, miss = (False, True) if isinstance(node.op, ast.And) else (True, False)
            if any(v is hit for v in vs):
                return hit
            return miss if all(v is miss for v in vs) else None
        if isinstance(node, ast.Compare) and len(node.ops) == 1 and isinstance(node.ops[0], (ast.Eq, ast.Is, ast.NotEq, ast.IsNot)) \
                and isinstance(node.comparators[0], ast.Constant) and isinstance(node.comparators[0].value, bool):
            v = self._bool(node.left, st)       # `x == False` / `x is True` ...
            if v is None:
                return None
            return (v == node.comparators[0].value) == isinstance(node.ops[0], (ast.Eq, ast.Is))
        return self.leaf(node, st, self.ex)

    # helpers executed in place
    def _call(self, name, n, args, kwargs, st, ex, recv):
        f = n.func
        target, bound, closure = None, list(args), False
        if isinstance(f, ast.Name) and f.id not in st.env:
            if f.id in self.nested:
                target, closure = self.nested[f.id], True
            elif f.id in self.module_funcs:
                target = self.module_funcs[f.id]
        elif isinstance(f, ast.Attribute) and isinstance(f.value, ast.Name) and f.attr in self.methods \
                and (f.value.id in ("self", "cls") or f.value.id in self.class_names):
            target = self.methods[f.attr]
            decos = set(unparse(d) for d in target.decorator_list)
            if "staticmethod" in decos:
                pass
            elif "classmethod" in decos:
                bound = [Opaque("cls")] + bound
            elif f.value.id == "self":
                bound = [st.env.get("self", Opaque("self"))] + bound
        if target is None or target is self.fn or target in self.active or len(self.active) >= 4 or not self.relevant(target):
            return NotImplemented
        a = target.args
        if a.vararg or a.kwarg or len(bound) > len(a.args):
            return NotImplemented
        env = dict(st.env) if closure else {}
        for p_, d_ in zip(a.args[len(a.args) - len(a.defaults):], a.defaults):
            env[p_.arg] = ex.ev(d_, State())
        for p_, d_ in zip(a.kwonlyargs, a.kw_defaults):
            if d_ is not None:
                env[p_.arg] = ex.ev(d_, State())
        for p_, v in zip(a.args, bound):
            env[p_.arg] = v
        env.update(kwargs)
        sub = State(env)
        sub.conds = list(st.conds)
        sub.loops = list(st.loops)
        self.active.append(target)
        try:
            outs = ex.block(target.body, [sub])
        finally:
            self.active.pop()
        live = [o for o in outs if o.raised is None]
        if not live:
            raise ExtractError("helper %s (called at line %s) raises on every path of the case under analysis" % (target.name, getattr(n, "lineno", "?")))
        sig = set((ex.text(o.ret), tuple((e[0], e[1]) for e in o.events if e[0] in ("store", "call"))) for o in live)
        if len(sig) != 1:
            raise ExtractError("helper %s (called at line %s): its outcome depends on a test that could not be decided: %s" % (
                target.name, getattr(n, "lineno", "?"), "; ".join(sorted(set(o.label() for o in live)))[:300]))
        o = live[0]
        st.events.extend(o.events)
        if len(live) == 1:
            st.conds = list(o.conds)
        return o.ret


def _last_store(o, target):
    """(index in the event list, value) of the last store to `target` on path o, or (None, None)."""
    got = (None, None)
    for i, e in enumerate(o.events):
        if e[0] == "store" and e[1] == target:
            got = (i, e[2])
    return got


def _member(v, enum="_ControlType"):
    """'presolve' for the value <_ControlType.presolve>, else None."""
    if isinstance(v, Opaque) and v.text.startswith(enum + ".") and v.text.count(".") == 1:
        return v.text.split(".")[1]
    return None


def classification_rules(repo, chk, rule):
    classes = repo.classes(CTRL)
    tree = repo.tree(CTRL)
    module_funcs = {n.name: n for n in tree.body if isinstance(n, ast.FunctionDef)}
    if "Control" not in classes or "ControlCondition" not in classes or "_ControlType" not in classes:
        raise AnchorError("controls.py: class Control / ControlCondition / _ControlType vanished")
    members = [t.id for s in classes["_ControlType"].body if isinstance(s, ast.Assign) for t in s.targets if isinstance(t, ast.Name)]
    if not {"presolve", "postsolve", "rule", "pre_and_postsolve", "feasibility"} <= set(members):
        raise AnchorError("_ControlType members changed: %s" % members)

    # ---- (a) the type Control.__init__ leaves on a simple control, per concrete class of its condition
    cmeths = resolved_methods(classes, "Control")
    ci = cmeths.get("__init__")
    if ci is None or ci._qual != "Control.__init__":
        raise AnchorError("Control.__init__ vanished")
    chk.fn(ci)
    cond_classes = sorted(c for c in classes if c != "ControlCondition" and "ControlCondition" in class_ancestors(classes, c))
    if not {"TankLevelCondition", "SimTimeCondition", "TimeOfDayCondition", "ValueCondition"} <= set(cond_classes):
        raise AnchorError("condition classes not found in %s: %s" % (CTRL, cond_classes))
    OTHER = "<a ControlCondition subclass defined elsewhere>"
    mentions_type = lambda d: any(isinstance(x, ast.Attribute) and x.attr == "_control_type" for x in ast.walk(d)) or "_ControlType" in unparse(d)

    def type_left_by(fn, meths, cls_names, kname, params=("condition",)):
        """-> (member name or None, problem text or None): the value of self._control_type after fn ran for a condition of class kname."""
        anc = class_ancestors(classes, kname) if kname in classes else [kname, "ControlCondition"]
        is_cond = lambda v: isinstance(v, Opaque) and v.text in params + ("self._condition",)

        def names_of(node, st, ex):
            elts = node.elts if isinstance(node, (ast.Tuple, ast.List, ast.Set)) else [node]
            out = []
            for e in elts:
                nm = e.id if isinstance(e, ast.Name) else (e.attr if isinstance(e, ast.Attribute) else None)
                if nm is None or (isinstance(e, ast.Name) and e.id in st.env):
                    return None
                out.append(nm)
            return out

        def leaf(node, st, ex):
            if isinstance(node, ast.Call) and isinstance(node.func, ast.Name) and node.func.id == "isinstance" and len(node.args) == 2 and not node.keywords:
                if not is_cond(ex.ev(node.args[0], st)):
                    return None
                ns = names_of(node.args[1], st, ex)
                return None if ns is None else any(x in anc for x in ns)
            if isinstance(node, ast.Compare) and len(node.ops) == 1 and isinstance(node.left, ast.Call) and isinstance(node.left.func, ast.Name) \
                    and node.left.func.id == "type" and len(node.left.args) == 1 and is_cond(ex.ev(node.left.args[0], st)):
                ns = names_of(node.comparators[0], st, ex)
                op = node.ops[0]
                if ns is None:
                    return None
                if isinstance(op, (ast.Eq, ast.Is, ast.NotEq, ast.IsNot)) and len(ns) == 1 and not isinstance(node.comparators[0], (ast.Tuple, ast.List, ast.Set)):
                    return (ns[0] == anc[0]) == isinstance(op, (ast.Eq, ast.Is))
                if isinstance(op, (ast.In, ast.NotIn)) and isinstance(node.comparators[0], (ast.Tuple, ast.List, ast.Set)):
                    return (anc[0] in ns) == isinstance(op, ast.In)
            return None
        dx = DecidedExec(fn, cls_names, meths, module_funcs, mentions_type, leaf)
        outs = dx.paths()
        vals = set()
        for o in outs:
            i, v = _last_store(o, "self._control_type")
            if i is None:
                return None, "a path stores no _control_type (%s)" % (o.label() or "unconditional")
            later_init = [e[1] for e in o.events[i + 1:] if e[0] == "call" and (e[2][0] or "").endswith("__init__")]
            if later_init:
                return None, "the type is stored before %s, which overwrites it" % later_init[0][:60]
            m = _member(v)
            if m is None:
                return None, "stored value %s is not a member of _ControlType decided by the class of the condition" % (v,)
            vals.add(m)
        if len(vals) != 1:
            return None, "stored type depends on something else than the class of the condition: %s" % sorted(vals)
        return vals.pop(), None

    got_type, problems = {}, []
    for k in cond_classes + [OTHER]:
        m, why = type_left_by(ci, cmeths, class_ancestors(classes, "Control"), k)
        got_type[k] = m
        if why:
            problems.append("%s: %s" % (k, why))
    chk.expect(not problems, rule, "Control.__init__ stores the classification of the condition it was given", loc(ci), found="; ".join(problems[:3]))
    is_a = lambda k, *bases: k in classes and any(b in class_ancestors(classes, k) for b in bases)
    tank = [k for k in cond_classes if is_a(k, "TankLevelCondition")]
    timed = [k for k in cond_classes if is_a(k, "SimTimeCondition", "TimeOfDayCondition")]
    other = [k for k in cond_classes + [OTHER] if k not in tank and k not in timed]
    show = lambda ks: dict((k, "_ControlType.%s" % got_type[k] if got_type[k] else None) for k in ks)
    chk.expect(all(got_type[k] == "pre_and_postsolve" for k in tank), rule, "tank-level controls are pre- and post-solve", loc(ci), found=show(tank))
    chk.expect(all(got_type[k] == "presolve" for k in timed), rule, "time-conditioned controls are pre-solve (back-tracked to their instant)", loc(ci), found=show(timed))
    wrong = [k for k in other if got_type[k] != "postsolve"]
    chk.expect(not wrong, rule, "other simple controls are post-solve", loc(ci), found=show(wrong))
    chk.sample({"rule": rule, "classification": show(cond_classes + [OTHER])})

    # ---- (b) rules are rules, whatever their condition
    rmeths = resolved_methods(classes, "Rule")
    ri = rmeths.get("__init__")
    if ri is None or ri._qual != "Rule.__init__":
        raise AnchorError("Rule.__init__ vanished")
    rt = {}
    for k in ("SimTimeCondition", "TimeOfDayCondition", "TankLevelCondition", "ValueCondition", OTHER):
        rt[k], why = type_left_by(ri, rmeths, class_ancestors(classes, "Rule"), k)
    chk.expect(all(v == "rule" for v in rt.values()), rule, "rules are classified as rules", loc(ri), found=rt)

    # ---- (c) the property the simulator reads is the stored type
    gp = [n for c in class_ancestors(classes, "Control") for n in classes[c].body if isinstance(n, ast.FunctionDef) and n.name == "epanet_control_type"
          and any(isinstance(d, ast.Name) and d.id == "property" for d in n.decorator_list)]
    if not gp:
        raise AnchorError("property epanet_control_type of Control / Rule / ControlBase vanished")
    gp[0]._rel = CTRL
    rets = [o.ret for o in SymExec().run(gp[0]) if o.raised is None]
    chk.expect(bool(rets) and all(r == Opaque("self._control_type") for r in rets), rule, "epanet_control_type reports the stored _control_type", loc(gp[0]), found=rets)

    # ---- (d) which checker of the simulator receives which type, from which sources
    sclasses = repo.classes(CORE)
    if "WNTRSimulator" not in sclasses:
        raise AnchorError("class WNTRSimulator vanished")
    smeths = resolved_methods(sclasses, "WNTRSimulator")
    gm = smeths.get("_get_control_managers")
    if gm is None:
        raise AnchorError("WNTRSimulator._get_control_managers vanished")
    chk.fn(gm)
    core_funcs = {n.name: n for n in repo.tree(CORE).body if isinstance(n, ast.FunctionDef)}
    registers = lambda d: any(isinstance(x, ast.Attribute) and x.attr == "register_control" for x in ast.walk(d))

    def type_leaf(node, st, ex):
        if isinstance(node, ast.Compare) and len(node.ops) == 1:
            op = node.ops[0]
            l, r = ex.ev(node.left, st), ex.ev(node.comparators[0], st)
            if isinstance(op, (ast.Eq, ast.Is, ast.NotEq, ast.IsNot)):
                a, b = _member(l), _member(r)
                if a is None or b is None:
                    return None
                return (a == b) == isinstance(op, (ast.Eq, ast.Is))
            if isinstance(op, (ast.In, ast.NotIn)) and _member(l) is not None:
                if isinstance(r, dict):
                    ms = [k.split(".")[1] if isinstance(k, str) and k.startswith("_ControlType.") and k.count(".") == 1 else None for k in r]
                elif isinstance(r, (list, tuple)):
                    ms = [_member(x) for x in r]
                else:
                    return None
                if None in ms:
                    return None
                return (_member(l) in ms) == isinstance(op, ast.In)
        return None

    regs = {}        # member -> {receiver text: set(source iterables)}
    for m in members:
        hook = lambda base, attr, st, m=m: Opaque("_ControlType." + m) if attr in ("epanet_control_type", "_control_type") and isinstance(base, Opaque) else NotImplemented
        dx = DecidedExec(gm, class_ancestors(sclasses, "WNTRSimulator"), smeths, core_funcs, registers, type_leaf, attr_hook=hook)
        per_path = []
        for o in dx.paths():
            here = {}
            for e in o.events:
                mm = re.match(r"^(.*)\.register_control\((.*)\)$", e[1]) if e[0] == "call" else None
                if not mm:
                    continue
                args = e[2][1]
                if len(args) != 1 or not isinstance(args[0], Opaque) or not e[4]:
                    raise ExtractError("_get_control_managers: registration `%s` at line %s is not of a control drawn from a source loop" % (e[1], e[3]))
                here.setdefault(mm.group(1), set()).add(e[4][-1])
            per_path.append(here)
        if not per_path:
            raise ExtractError("_get_control_managers: no path analysed for control type %s" % m)
        if any(p_ != per_path[0] for p_ in per_path[1:]):
            raise ExtractError("_get_control_managers: the registration of %s controls depends on a test that could not be decided" % m)
        regs[m] = per_path[0]
    want = {"self._presolve_controls": {"presolve", "pre_and_postsolve"}, "self._postsolve_controls": {"postsolve", "pre_and_postsolve"},
            "self._rules": {"rule"}, "self._feasibility_controls": {"feasibility"}}
    for k, v in want.items():
        got = set(m for m in members if k in regs[m])
        chk.expect(got == v, rule, "%s receives exactly the control types %s" % (k, sorted(v)), loc(gm), found=sorted(got))
    need = ["self._wn.controls()", "self._get_all_tank_controls()", "self._get_cv_controls()", "self._get_pump_controls()", "self._get_valve_controls()"]
    missing = sorted(set("%s controls from %s -> %s" % (m, n_, k) for m in members for k, srcs in regs[m].items() for n_ in need if not any(n_ in s_ for s_ in srcs)))
    allsrcs = sorted(set(s_ for m in members for srcs in regs[m].values() for s_ in srcs))
    chk.expect(not missing and bool(allsrcs), rule, "user controls and all internal control families are categorised", loc(gm), found=missing[:4] or allsrcs)
    chk.sample({"rule": rule, "registrations": dict((m, dict((k, sorted(v)) for k, v in regs[m].items())) for m in members)})


# ------------------------------------------------------------------ effective ordering of the control lists
SORT_FUNCS = ("WNTRSimulator._compute_next_timestep_and_run_presolve_controls_and_rules", "WNTRSimulator._run_feasibility_controls",
              "WNTRSimulator._run_postsolve_controls")


def _key_components(lam):
    """lambda i: <expr> -> [(component, 'asc'|'desc')] with component in {priority, backtrack}; None if not recognised."""
    if not isinstance(lam, ast.Lambda) or len(lam.args.args) != 1:
        return None
    v = lam.args.args[0].arg

    def one(e):
        sign = "asc"
        while isinstance(e, ast.UnaryOp) and isinstance(e.op, ast.USub):
            sign = "desc" if sign == "asc" else "asc"
            e = e.operand
        t = unparse(e)
        if t in ("%s[0]._priority" % v, "%s[0].priority" % v, "int(%s[0]._priority)" % v):
            return ("priority", sign)
        if t == "%s[1]" % v:
            return ("backtrack", sign)
        return None
    body = lam.body
    elts = body.elts if isinstance(body, ast.Tuple) else [body]
    out = [one(e) for e in elts]
    return None if any(o is None for o in out) else out


def effective_orders(fn, listname):
    """[(effective lexicographic order, sort calls)] per definition of `listname` in fn: successive (stable) sorts of one list
    value compose, the last sort being the primary key; a re-assignment of the list starts a new group."""
    defs = sorted(n.lineno for n in walk(fn) if isinstance(n, ast.Assign) and any(isinstance(t, ast.Name) and t.id == listname for t in n.targets))
    groups = {}
    for c in calls(fn, attr="sort"):
        if unparse(c.func.value) != listname:
            continue
        key = [k.value for k in c.keywords if k.arg == "key"]
        rev = [k.value for k in c.keywords if k.arg == "reverse"]
        comps = _key_components(key[0]) if key else None
        if comps is None:
            raise ExtractError("sort key of %s at line %d not recognised: %s" % (listname, c.lineno, unparse(c)))
        if rev:
            rv = const(rev[0])
            if rv not in (True, False):
                raise ExtractError("sort reverse= of %s at line %d is not a constant" % (listname, c.lineno))
            if rv:
                comps = [(n, "desc" if d == "asc" else "asc") for n, d in comps]
        d = max([l for l in defs if l < c.lineno] or [0])
        groups.setdefault(d, []).append((c, comps))
    out = []
    for d in sorted(groups):
        seq = groups[d]
        eff = []
        for c, comps in reversed(seq):
            for n, dr in comps:
                if n not in [x[0] for x in eff]:
                    eff.append((n, dr))
        out.append((eff, seq))
    return out


def sort_order_rules(repo, chk, rule):
    lists = []
    for qual in SORT_FUNCS:
        fn = repo.func(CORE, qual)
        chk.fn(fn)
        names = []
        for c in calls(fn, attr="sort"):
            nm = unparse(c.func.value)
            if nm not in names:
                names.append(nm)
        for nm in names:
            lists.append((qual.split(".")[1], nm, fn))
    nsites = 0
    for fnname, lst, fn in lists:
      for eff, seq in effective_orders(fn, lst):
        nsites += 1
        where = loc(fn, seq[0][0])
        if lst == "presolve_controls_to_run":
            want = [("backtrack", "desc"), ("priority", "asc")]
            chk.expect(eff == want, rule, "pre-solve controls are ordered by time (largest back-track first) and, among equal instants, ascending by priority "
                       "(highest priority runs last and wins)", where,
                       "the scheduler rewinds to the first control that changes something and stops: an ordering whose primary key is not the firing "
                       "instant lets a control crossed later in the step pre-empt one crossed earlier", expected=want, found=eff)
        else:
            want = [("priority", "asc")]
            chk.expect(eff == want, rule, "%s sorts %s (defined at line-group %d) ascending by priority alone (highest priority runs last and wins)" % (
                fnname, lst, [g[1] for g in effective_orders(fn, lst)].index(seq)), where,
                       "controls run in list order and later writes overwrite earlier ones", expected=want, found=eff)
        runs = [x for x in walk(fn) if isinstance(x, ast.For) and unparse(x.iter) == lst and any(last_attr(cc) == "run_control_action" for cc in calls(x))]
        idx = [cc for cc in calls(fn, attr="run_control_action") if lst in unparse(cc) or unparse(cc.func.value) == "control"]
        chk.expect(bool(runs) or bool(idx), rule, "%s executes %s (group %d) in list order" % (fnname, lst, [g[1] for g in effective_orders(fn, lst)].index(seq)), where)
    chk.floor(rule, 12)
    if nsites < 6:
        chk.error("%s: only %d sorted control lists found (pre-solve, rules x3, feasibility, post-solve expected)" % (rule, nsites))

WITNESSES = [
    dict(name="simtime-eq-strict", file=CTRL, old="        if self._relation is Comparison.eq and (prev_time < self._threshold and self._threshold <= cur_time):\n            self._backtrack = int(cur_time - self._threshold)\n            return True\n        elif self._relation is Comparison.gt and cur_time > self._threshold:",
         new="        if self._relation is Comparison.eq and (prev_time < self._threshold and self._threshold < cur_time):\n            self._backtrack = int(cur_time - self._threshold)\n            return True\n        elif self._relation is Comparison.gt and cur_time > self._threshold:", rule="R-C04-1"),
    dict(name="simtime-backtrack-sign", file=CTRL, old="        elif self._relation is Comparison.ge and cur_time >= self._threshold and prev_time < self._threshold:\n            self._backtrack = int(cur_time - self._threshold)",
         new="        elif self._relation is Comparison.ge and cur_time >= self._threshold and prev_time < self._threshold:\n            self._backtrack = int(self._threshold - cur_time)", rule="R-C04-1"),
    dict(name="priority-descending", file=CORE, old="        postsolve_controls_to_run.sort(key=lambda i: i[0]._priority)", new="        postsolve_controls_to_run.sort(key=lambda i: i[0]._priority, reverse=True)", rule="R-C04-3"),
    dict(name="merged-sort", file=CORE, old="        presolve_controls_to_run.sort(key=lambda i: i[0]._priority)  # sort them by priority\n", new="", rule="R-C04-3"),
    dict(name="rule-clock-starts-at-zero", file=CORE, old="            self._rule_iter = 1\n", new="            self._rule_iter = 0\n", rule="R-C04-4"),
    dict(name="rule-increment-missing", file=CORE, old="                    self._wn.sim_time = self._rule_iter * self._wn.options.time.rule_timestep\n                    self._rule_iter += 1\n                    if not first_step:", new="                    self._wn.sim_time = self._rule_iter * self._wn.options.time.rule_timestep\n                    if not first_step:", rule="R-C04-4"),
    dict(name="time-controls-postsolve", file=CTRL, old="        elif isinstance(condition, (TimeOfDayCondition, SimTimeCondition)):\n            return _ControlType.presolve", new="        elif isinstance(condition, (TimeOfDayCondition, SimTimeCondition)):\n            return _ControlType.postsolve", rule="R-C04-5"),
    dict(name="first-step-guard-removed", file=CORE, old="        if first_step:  # we don't want to backtrack if the sim time is 0\n            presolve_controls_to_run = [(c, 0) for c, b in presolve_controls_to_run]\n", new="", rule="R-C04-6"),
    dict(name="reader-clocktime-once", file=IO, old="            control_obj = Control._time_control(wn, run_at_time, 'CLOCK_TIME', True, action_obj, control_name)", new="            control_obj = Control._time_control(wn, run_at_time, 'CLOCK_TIME', False, action_obj, control_name)", rule="R-C04-7"),
]
