"""C14 -- all views of the model stay mutually consistent under any edit history.

Each rule looks at ONE operation (a registration site, a deletion method, a setter, a view accessor) or at a short history of ONE element.
That longer histories are covered "by induction over operations" is an informal argument of the author: no code performs or checks an induction.

Techniques (DESIGN 2b):
* T3, interpreted histories (sa/concrete.py running the repository's own registry and element classes on the fixture LinkWorld; nothing is
  imported; isinstance is decided by the class hierarchy of the source, so unreachable elif arms are not taken) -- rule_histories:
  - R-C14-8 / R-C14-3: add -> (re-assign through the public setters / add_demand) -> remove of one link (add_pipe, add_pump HEAD/POWER with and
    without speed pattern, add_valve of six types), of every leaf class of the Link hierarchy with every usage-filing property set, of a
    junction / tank / reservoir / source / pattern / curve of each type: afterwards no registry holds a usage record naming the element, its
    registry keeps no usage entry under its name (also when an empty entry existed), and no view of its registry holds the name.
  - R-C14-2: the same removals when the records the element filed are already gone still empty every view (no half-way abort).
  - R-C14-5 (filing part): registry[name] = <bare instance of K> files the name under exactly the typed sets of K and its ancestors (TYPED_SETS).
  - R-C14-4 (registry part): del registry[name] of an element whose usage entry is non-empty raises RuntimeError and changes nothing, for a bare
    instance of every class of TYPED_SETS and for a curve, a pattern and a source.
  - R-C14-5s: both end-node setters on a pipe for all 8 (start, end, new) configurations over two nodes.
  Fixture: WaterNetworkModel without constructor, the five registries by their constructors, three bare junctions, six curves and two patterns
  added by the registries' own methods, options = {time: None, hydraulic.pattern: None}; collections.abc mix-ins written out in the interpreted
  subset (ABC_MIXINS); LinkStatus as IntEnum read from base.py.  add_tank(vol_curve=...) is not interpreted (2-D numpy indexing): the tank's
  curve is assigned through Tank.vol_curve_name.
* T1, AST pattern matching with agreement of call-site tables; registry attribute and tag are compared as text after local temporaries are
  resolved through their single assignment (deref); keys are not compared: R-C14-1a, -1b, -1d, -1e, -1f.  R-C14-1 itself is only the family
  name of 1a..1g (nothing is emitted under it).
* T3, interpreted refusal / atomicity histories (rule_refusals, same fixture plus a pipe, a source, a junction with a demand pattern and mock controls):
  R-C14-6 thirteen add_* calls with an existing name are refused and change nothing; R-C14-7 links naming a missing end node fail without leaving a
  record; R-C14-4 remove_node / remove_link of an element a control requires (refused; force; with_control; registry refusal keeps the controls);
  R-C14-1c each usage-filing setter re-assigned to the value it already has leaves the model unchanged.  (These clauses were line-number-order rules
  before session 3.)
* T1 with real CFG dominance (sa/cfg.py): R-C14-4b only.
* presence match: R-C14-1g (the TimeSeries.pattern_name setter contains an add_usage and a remove_usage call; registry, key and order
  are not examined).
* R-C14-5 (views): single-return accessors by AST pattern; the typed generators are run by the local evaluator GenEval (sa/peval subclass) once
  per concrete type argument -- T3, exhaustive over that finite domain.  Its adjacency clause is the interpreted edit history shared with C01
  (R-C01-2b: get_links_for_node and to_graph on the fixture model after reversing / moving / self-looping / removing and re-adding links).
"""
import ast
from ..src import (walk, calls, call_name, last_attr, dotted, norm, loc, const, AnchorError,
                   parent, enclosing, unparse)

MODEL = "wntr/network/model.py"
BASE = "wntr/network/base.py"
ELEM = "wntr/network/elements.py"

EXPLANATION = (
    "Registry bookkeeping of wntr/network/{model,base,elements}.py. Interpreted (T3, sa/concrete.py runs the repository's own registry and element "
    "classes on a small fixture; nothing imported; isinstance follows the class hierarchy of the source): R-C14-8/-3 add -> (re-assign) -> remove of "
    "one link of every public add_* variant, of every leaf class of the Link hierarchy, of a junction/tank/reservoir/source/pattern/curve leaves no "
    "usage record naming the element, no usage entry under its name and its name in no view; R-C14-2 the same removals complete when the element's "
    "records are already gone; R-C14-5 (filing) registry[name]=<K> files the name under exactly the typed sets of K and its ancestors; R-C14-4 "
    "(registries) deleting an element whose usage entry is non-empty raises RuntimeError and changes nothing; R-C14-5s both end-node setters on all 8 "
    "two-node configurations. Structural (T1, AST pattern matching; registry and tag compared as text after resolving local temporaries): R-C14-1 = "
    "family name of 1a-1g: (1a) every add_usage(registry, tag) of a user class has a remove_usage with the same registry and tag in the kind's "
    "__delitem__, (1b) and conversely; (1c) a method calling both uses one registry and one tag, and (T3) re-assigning the value a setter already has keeps "
    "the record; (1d, 1e, 1f) a usage key is a name, never "
    "a Pattern object or its truthiness; (1g, presence only) the TimeSeries.pattern_name setter contains an add_usage and a remove_usage call. "
    "R-C14-4 (remove_node/remove_link part, T3 histories with mock controls): refusal while a control requires the element changes nothing, force removes "
    "the element only, with_control exactly the requiring controls. R-C14-4b (CFG dominance): the registry deletion dominates every remove_control in remove_node/remove_link. R-C14-5 "
    "(views): name list, count and typed iterator of a kind read one typed set (single-return accessors by AST pattern; the typed generators are run "
    "per type argument by the local evaluator GenEval: T3, exhaustive over the type arguments); adjacency is a text match on get_links_for_node / "
    "to_graph, not validated against end nodes. R-C14-6 / R-C14-7 (T3 histories): an add_* with an existing name, or naming a missing end node, is refused "
    "and leaves the model unchanged.")
RULE_TEXT = ("one instance = one (rule, construct): a usage registration site, a deletion method, a typed subset, a view accessor; "
             "distinct = distinct constructs")

# class -> the typed name set of its registry that lists the instances of the class (instances of subclasses included)
TYPED_SETS = {"Junction": "_junctions", "Tank": "_tanks", "Reservoir": "_reservoirs", "Pipe": "_pipes", "Pump": "_pumps", "HeadPump": "_head_pumps",
              "PowerPump": "_power_pumps", "Valve": "_valves", "PRValve": "_prvs", "PSValve": "_psvs", "PBValve": "_pbvs", "TCValve": "_tcvs",
              "FCValve": "_fcvs", "GPValve": "_gpvs"}
REG_ATTRS = ("_pattern_reg", "_curve_reg", "_node_reg", "_link_reg", "_sources", "_controls")
DELITEM_OF_KIND = {"node": "NodeRegistry", "link": "LinkRegistry", "source": "SourceRegistry"}


def class_bases(repo):
    bases = {}
    for rel in (BASE, ELEM):
        for name, c in repo.classes(rel).items():
            bases[name] = [b.id if isinstance(b, ast.Name) else (b.attr if isinstance(b, ast.Attribute) else None) for b in c.bases]
            # six.with_metaclass(abc.ABCMeta, object)
    return bases


def kind_of_class(name, bases):
    seen = set()
    todo = [name]
    while todo:
        n = todo.pop()
        if n in seen:
            continue
        seen.add(n)
        if n == "Node":
            return "node"
        if n == "Link":
            return "link"
        if n == "Source":
            return "source"
        todo.extend(b for b in bases.get(n, []) if b)
    return None


def usage_sites(fn):
    """[(op, registry_attr, tag_text, key_expr, call)] for add_usage/remove_usage calls on self.<reg>."""
    out = []
    for c in calls(fn):
        op = last_attr(c)
        if op not in ("add_usage", "remove_usage"):
            continue
        # temporaries are resolved through their single assignment: `user = (self.name, 'Pump')`, `old = self.start_node_name`, `reg = self._curve_reg`
        recv = deref(fn, c.func.value) if isinstance(c.func, ast.Attribute) else None
        reg = recv.attr if isinstance(recv, ast.Attribute) else (recv.id if isinstance(recv, ast.Name) else None)
        if len(c.args) < 2:
            continue
        tag = deref(fn, c.args[1])
        tagtxt = None
        if isinstance(tag, ast.Tuple) and len(tag.elts) == 2:
            t = tag.elts[1]
            tagtxt = repr(const(t)) if const(t) is not None else ("<link_type>" if (isinstance(t, ast.Attribute) and t.attr == "link_type") else unparse(t))
        out.append((op, reg, tagtxt, deref(fn, c.args[0]), c))
    return out


def flat_stmts(body):
    """pre-order list of statements (descending into if/for/with/try bodies)."""
    out = []
    for s in body:
        out.append(s)
        for fld in ("body", "orelse", "finalbody"):
            sub = getattr(s, fld, None)
            if isinstance(sub, list) and sub and isinstance(sub[0], ast.stmt):
                out.extend(flat_stmts(sub))
        if isinstance(s, ast.Try):
            for h in s.handlers:
                out.extend(flat_stmts(h.body))
    return out


def find_delitem(repo, clsname):
    """the __delitem__ that governs deletion for registry class clsname (own or inherited from Registry)."""
    c = repo.cls(MODEL, clsname)
    m = repo.methods(c)
    if "__delitem__" in m:
        return m["__delitem__"], c
    b = repo.cls(BASE, "Registry")
    bm = repo.methods(b)
    if "__delitem__" not in bm:
        raise AnchorError("Registry.__delitem__ vanished")
    return bm["__delitem__"], c


# ---------------------------------------------------------------------------------------------------------------------------
# abstract execution of the registries' (name, object) generators: WHAT is iterated, whatever the control-flow shape
class Sym(tuple):
    """symbolic value: ('set', A) = container self.A; ('elem', A) = an arbitrary key of self.A; ('item', A, k) = self.A[k];
    ('items'|'keys'|'values', A) = the corresponding view of self.A."""
    def __repr__(self):
        if self[0] == "set":
            return "self.%s" % self[1]
        if self[0] == "elem":
            return "<name in self.%s>" % self[1]
        if self[0] == "item":
            return "self.%s[%r]" % (self[1], self[2])
        return "self.%s.%s()" % (self[1], self[0])


def _family(attr):
    """what one iteration of `for name in self.<attr>: yield name, self._data[name]` yields."""
    e = Sym(("elem", attr))
    return [e, Sym(("item", "_data", e))]


class GenEval(object):
    """Runs a registry method that produces (name, object) pairs on abstract containers and returns the stream of yielded values, one
    per loop (a loop over a container runs once with a symbolic element).  Follows the actual control flow for a CONCRETE type argument,
    so if/elif chains, early returns, a set picked first and iterated later, dict dispatch, comprehensions, `yield from` and calls to
    sibling generators (self(T), self.junctions()) all reduce to the same stream.  Anything it cannot follow is an ExtractError."""

    def __init__(self, repo, cls):
        self.repo = repo
        self.cls = cls
        self.methods = repo.methods(cls)

    def class_consts(self):
        """{name: value expression} of the class-level assignments of the registry class and its bases in MODEL / BASE (nearest first)."""
        if getattr(self, "_consts", None) is None:
            out, todo, seen = {}, [self.cls], set()
            while todo:
                c = todo.pop(0)
                if c.name in seen:
                    continue
                seen.add(c.name)
                for st in c.body:
                    if isinstance(st, ast.Assign) and len(st.targets) == 1 and isinstance(st.targets[0], ast.Name):
                        out.setdefault(st.targets[0].id, st.value)
                    elif isinstance(st, ast.AnnAssign) and isinstance(st.target, ast.Name) and st.value is not None:
                        out.setdefault(st.target.id, st.value)
                for b in c.bases:
                    bn = b.id if isinstance(b, ast.Name) else (b.attr if isinstance(b, ast.Attribute) else None)
                    for rel in (MODEL, BASE):
                        if bn and self.repo.has_cls(rel, bn):
                            todo.append(self.repo.cls(rel, bn))
                            break
            self._consts = out
        return self._consts

    def stream(self, meth, args=(), kwargs=None, depth=0):
        """-> list of yielded values, or the string 'raises'."""
        from ..peval import Evaluator, Obj, Unknown, Raised, Returned
        from ..src import ExtractError
        outer = self
        fn = self.methods.get(meth)
        if fn is None:
            raise AnchorError("%s.%s vanished" % (self.cls.name, meth))
        if depth > 4:
            raise ExtractError("%s.%s: generator delegation too deep" % (self.cls.name, meth))
        SELF = Obj("self")

        class Ev(Evaluator):
            def __init__(ev, env):
                Evaluator.__init__(ev, env, class_attr=ev._global, call=ev._call, attr=ev._attr)
                ev.yields = []

            # names that are not locals: classes (compared by identity/equality with the type argument)
            def _global(ev, name):
                parts = name.split(".")
                if parts[-1][:1].isupper() and parts[0] not in ev.env:      # Junction, elements.Junction, wntr.network.elements.Junction
                    return Obj(parts[-1])
                raise Unknown("unbound name %s" % name)

            def _attr(ev, base, attr):
                if base is SELF or (isinstance(base, Obj) and base.name == "self"):
                    # a class-level constant (dispatch table `_subset_by_class = ((Junction, "_junctions"), ...)`, also class-private `__x`)
                    # is evaluated; every other attribute of self is an instance container
                    k = outer.class_consts().get(attr)
                    if k is not None:
                        return Ev({params[0]: SELF}).ev(k)
                    return Sym(("set", attr))
                return NotImplemented

            def truth(ev, v):
                if isinstance(v, Sym):
                    raise Unknown("truth value of %r" % (v,))
                return Evaluator.truth(ev, v)

            def e_Compare(ev, n):
                vals = [ev.ev(x) for x in [n.left] + list(n.comparators)]
                if any(isinstance(v, Sym) for v in vals):
                    # a container / element / stored object is not None (the store holds no None); anything else about it is unknown
                    if len(vals) == 2 and isinstance(n.ops[0], (ast.Is, ast.IsNot, ast.Eq, ast.NotEq)) and any(v is None for v in vals) \
                            and all(v is None or (isinstance(v, Sym) and v[0] != "item") for v in vals):
                        return isinstance(n.ops[0], (ast.IsNot, ast.NotEq))
                    raise Unknown("comparison on a symbolic container/element: %s" % unparse(n))
                return Evaluator.e_Compare(ev, n)

            def e_Dict(ev, n):
                if any(k is None for k in n.keys):
                    raise Unknown("dict unpacking")
                return {ev.ev(k): ev.ev(v) for k, v in zip(n.keys, n.values)}

            def e_JoinedStr(ev, n):
                return "<text>"

            def e_Subscript(ev, n):
                b = ev.ev(n.value)
                if isinstance(n.slice, ast.Slice):
                    raise Unknown("slice")
                k = ev.ev(n.slice)
                if isinstance(b, Sym) and b[0] == "set":
                    return Sym(("item", b[1], k))
                if isinstance(b, dict):
                    if k not in b:
                        raise Raised(n)          # KeyError
                    return b[k]
                if isinstance(b, list) and isinstance(k, int):
                    return b[k]
                raise Unknown("subscript %s" % unparse(n))

            def iterate(ev, v, n):
                if isinstance(v, Sym):
                    if v[0] in ("set", "keys"):
                        return [Sym(("elem", v[1]))]
                    if v[0] == "items":
                        return [[Sym(("elem", v[1])), Sym(("item", v[1], Sym(("elem", v[1]))))]]
                    if v[0] == "values":
                        return [Sym(("item", v[1], Sym(("elem", v[1]))))]
                    raise Unknown("iteration over %r" % (v,))
                if isinstance(v, list):
                    return list(v)
                if isinstance(v, dict):
                    return list(v.keys())
                raise Unknown("iteration over %s" % unparse(n))

            def e_Yield(ev, n):
                ev.yields.append(ev.ev(n.value) if n.value is not None else None)
                return None

            def e_YieldFrom(ev, n):
                ev.yields.extend(ev.iterate(ev.ev(n.value), n.value))
                return None

            def _comp(ev, n, elt):
                out = []
                saved = dict(ev.env)

                def rec(i):
                    if i == len(n.generators):
                        out.append(elt())
                        return
                    g = n.generators[i]
                    for item in ev.iterate(ev.ev(g.iter), g.iter):
                        ev.assign(g.target, item)
                        if all(ev.truth(ev.ev(c)) for c in g.ifs):
                            rec(i + 1)
                rec(0)
                ev.env = saved
                return out

            def e_GeneratorExp(ev, n):
                return ev._comp(n, lambda: ev.ev(n.elt))

            e_ListComp = e_GeneratorExp

            def _call(ev, name, n, _ev):
                f = n.func
                if any(isinstance(a, ast.Starred) for a in n.args) or any(k.arg is None for k in n.keywords):
                    raise Unknown("star arguments: %s" % unparse(n))
                if isinstance(f, ast.Name) and f.id in ("str", "repr", "type") and f.id not in ev.env:
                    return "<text>"
                if isinstance(f, ast.Name) and f.id == "getattr" and f.id not in ev.env and 2 <= len(n.args) <= 3 and not n.keywords:
                    # getattr(self, "<name>"[, default]) with a name that evaluates to a concrete string is self.<name>
                    o, nm = ev.ev(n.args[0]), ev.ev(n.args[1])
                    if isinstance(o, Obj) and o.name == "self" and isinstance(nm, str):
                        return ev._attr(o, nm)
                    raise Unknown("getattr on %r / %r" % (o, nm))
                if isinstance(f, ast.Name) and f.id in ("list", "tuple", "iter") and f.id not in ev.env and len(n.args) == 1 and not n.keywords:
                    v = ev.ev(n.args[0])
                    return v if isinstance(v, Sym) else ev.iterate(v, n.args[0])
                if isinstance(f, ast.Name) and f.id == "zip" and len(n.args) == 2 and not n.keywords:
                    a, b = [ev.ev(x) for x in n.args]
                    # zip(self.S, (self._data[k] for k in self.S)) and the like: position-wise pairing of two one-family streams
                    ia, ib = ev.iterate(a, n.args[0]), ev.iterate(b, n.args[1])
                    if len(ia) == len(ib):
                        return [[x, y] for x, y in zip(ia, ib)]
                    raise Unknown("zip of streams of different shape")
                args = None
                if isinstance(f, ast.Name) and f.id == "self":
                    args = ("__call__",)
                elif isinstance(f, ast.Attribute):
                    recv = ev.ev(f.value)
                    if isinstance(recv, Obj) and recv.name == "self" and f.attr in outer.methods:
                        args = (f.attr,)
                    elif isinstance(recv, Sym) and recv[0] == "set" and f.attr in ("items", "keys", "values") and not n.args:
                        return Sym((f.attr, recv[1]))
                    elif isinstance(recv, Sym) and recv[0] == "set" and f.attr == "get" and len(n.args) == 1:
                        return Sym(("item", recv[1], ev.ev(n.args[0])))
                    elif isinstance(recv, dict) and f.attr == "get" and 1 <= len(n.args) <= 2:
                        return recv.get(ev.ev(n.args[0]), ev.ev(n.args[1]) if len(n.args) == 2 else None)
                    elif isinstance(recv, dict) and f.attr in ("items", "keys", "values") and not n.args:
                        return [list(x) if f.attr == "items" else x for x in getattr(recv, f.attr)()]
                    elif isinstance(recv, str) and f.attr in ("format", "join"):
                        return "<text>"
                if args is not None:
                    r = outer.stream(args[0], [ev.ev(a) for a in n.args], {k.arg: ev.ev(k.value) for k in n.keywords}, depth + 1)
                    if r == "raises":
                        raise Raised(n)
                    return r
                return NotImplemented

            def assign(ev, t, v):
                if isinstance(t, (ast.Tuple, ast.List)) and isinstance(v, Sym):
                    raise Unknown("unpacking of %r" % (v,))
                return Evaluator.assign(ev, t, v)

            def stmt(ev, s):
                if isinstance(s, ast.For):
                    if s.orelse or any(isinstance(x, (ast.Break, ast.Continue)) for x in walk(s)):
                        raise Unknown("loop with break/continue/else at line %s" % s.lineno)
                    for item in ev.iterate(ev.ev(s.iter), s.iter):
                        ev.assign(s.target, item)
                        ev.block(s.body)
                    return
                if isinstance(s, ast.Assert):
                    return
                return Evaluator.stmt(ev, s)

        a = fn.args
        if a.vararg or a.kwarg or a.kwonlyargs or getattr(a, "posonlyargs", None):
            raise ExtractError("%s.%s: unsupported signature" % (self.cls.name, meth))
        params = [x.arg for x in a.args]
        env = {params[0]: SELF}
        nd = len(a.defaults)
        pre = Ev({})
        for p_, d in zip(params[len(params) - nd:], a.defaults):
            env[p_] = pre.ev(d)
        for p_, v in zip(params[1:], args):
            env[p_] = v
        for k, v in (kwargs or {}).items():
            if k not in params[1:]:
                raise ExtractError("%s.%s: unknown keyword %s" % (self.cls.name, meth, k))
            env[k] = v
        missing = [p_ for p_ in params if p_ not in env]
        if missing:
            raise ExtractError("%s.%s: unbound parameters %s" % (self.cls.name, meth, missing))
        ev = Ev(env)
        is_gen = any(isinstance(x, (ast.Yield, ast.YieldFrom)) for x in walk(fn))
        try:
            ret = ev.run(fn.body)
        except Raised:
            # a generator that yielded and then raises still delivered those items: only a raise before any yield is a refusal
            if ev.yields:
                raise ExtractError("%s.%s(%s): raises after yielding" % (self.cls.name, meth, ", ".join(map(repr, args))))
            return "raises"
        except Unknown as e:
            raise ExtractError("%s.%s(%s) not evaluable: %s" % (self.cls.name, meth, ", ".join(map(repr, args)), e))
        if is_gen:
            return ev.yields
        try:
            return Ev({}).iterate(ret, fn)
        except Unknown:
            raise ExtractError("%s.%s does not produce an iterable of (name, object) pairs" % (self.cls.name, meth))


def iterated_set(stream):
    """the attribute S such that the stream is exactly `(name, self._data[name]) for name in self.S`; otherwise a description of the stream."""
    if stream == "raises":
        return "<raises>"
    if len(stream) == 1 and isinstance(stream[0], list) and len(stream[0]) == 2:
        k = stream[0][0]
        if isinstance(k, Sym) and k[0] == "elem" and stream[0] == _family(k[1]):
            return k[1]
    return "<%s>" % ", ".join(repr(y) for y in stream)


def deref(fn, e, depth=0):
    """follow a local Name through its single plain assignment in fn (alias `reg = self._node_reg`); other expressions are returned as is."""
    if isinstance(e, ast.Name) and depth < 5:
        defs = []
        for n in walk(fn):
            tg = n.targets if isinstance(n, ast.Assign) else ([n.target] if isinstance(n, (ast.AugAssign, ast.AnnAssign, ast.For, ast.NamedExpr)) else
                                                              ([i.optional_vars for i in n.items if i.optional_vars is not None] if isinstance(n, ast.With) else []))
            for t in tg:
                if any(isinstance(x, ast.Name) and x.id == e.id for x in ast.walk(t)):
                    defs.append(n)
        if e.id not in [a.arg for a in fn.args.args] and len(defs) == 1 and isinstance(defs[0], ast.Assign) and len(defs[0].targets) == 1 \
                and isinstance(defs[0].targets[0], ast.Name):
            return deref(fn, defs[0].value, depth + 1)
    return e


def deletes_from(fn, node, reg):
    """does this statement/expression delete a key from self.<reg>?  `self.<reg>.__delitem__(k)`, `del self.<reg>[k]`, `self.<reg>.pop(k)`
    (MutableMapping.pop deletes through __delitem__), through a local alias of the registry as well."""
    def is_reg(e):
        return dotted(deref(fn, e)) == "self.%s" % reg
    for n in walk(node):
        if isinstance(n, ast.Call) and isinstance(n.func, ast.Attribute) and n.func.attr in ("__delitem__", "pop") and is_reg(n.func.value):
            return True
        if isinstance(n, ast.Call) and call_name(n) in ("operator.delitem", "delitem") and n.args and is_reg(n.args[0]):
            return True
        if isinstance(n, ast.Delete) and any(isinstance(t, ast.Subscript) and is_reg(t.value) for t in n.targets):
            return True
    return False


# ---------------------------------------------------------------------------------------------------------------------------
# R-C14-8: add -> (reassign) -> remove histories of ONE link, interpreted on the real registries (sa/concrete.py)
LINK_USER = "L"


def _link_status_enum(repo):
    """LinkStatus as an IntEnum with the member values read from base.py (each member also under its upper/lower-case alias, as the
    class's own __init__ registers them)."""
    import enum
    cls = repo.cls(BASE, "LinkStatus")
    mem = []
    for st in cls.body:
        if isinstance(st, ast.Assign) and len(st.targets) == 1 and isinstance(st.targets[0], ast.Name) and isinstance(const(st.value), int):
            n = st.targets[0].id
            for alias in (n, n.upper(), n.lower()):
                if alias not in [x[0] for x in mem]:
                    mem.append((alias, const(st.value)))
    if not mem:
        raise AnchorError("LinkStatus members not found")
    # str(member): the class's own __str__ when it is `return self.name` (Python >= 3.11 would otherwise print the number)
    strs = [f for f in cls.body if isinstance(f, ast.FunctionDef) and f.name == "__str__"]
    by_name = bool(strs) and [unparse(r.value) for r in walk(strs[0]) if isinstance(r, ast.Return)] == ["self.name"]

    class _Base(enum.IntEnum):
        def __str__(self):
            return self.name if by_name else int.__str__(self)
    return _Base("LinkStatus", mem)


# the collections.abc mix-in methods the registries / Demands inherit, written out in the interpreted subset exactly as the stdlib defines them
# in terms of the abstract methods (__getitem__, __setitem__, __delitem__, __len__, __iter__, insert, add, discard)
ABC_MIXINS = '''
class MutableSequence(object):
    def __iter__(self):
        i = 0
        try:
            while True:
                v = self[i]
                yield v
                i += 1
        except IndexError:
            return
    def __contains__(self, value):
        for v in self:
            if v is value or v == value:
                return True
        return False
    def index(self, value):
        i = 0
        for v in self:
            if v is value or v == value:
                return i
            i += 1
        raise ValueError("value not in sequence")
    def count(self, value):
        return sum(1 for v in self if v is value or v == value)
    def append(self, value):
        self.insert(len(self), value)
    def extend(self, values):
        for v in values:
            self.append(v)
    def pop(self, index=-1):
        v = self[index]
        del self[index]
        return v
    def remove(self, value):
        del self[self.index(value)]
    def clear(self):
        while len(self) > 0:
            self.pop()
    def __iadd__(self, values):
        self.extend(values)
        return self


class MutableMapping(object):
    def __contains__(self, key):
        try:
            self[key]
        except KeyError:
            return False
        return True
    def get(self, key, default=None):
        try:
            return self[key]
        except KeyError:
            return default
    def keys(self):
        return [k for k in self]
    def values(self):
        return [self[k] for k in self]
    def items(self):
        return [(k, self[k]) for k in self]
    def pop(self, key, *default):
        try:
            value = self[key]
        except KeyError:
            if default:
                return default[0]
            raise
        del self[key]
        return value
    def setdefault(self, key, default=None):
        try:
            return self[key]
        except KeyError:
            self[key] = default
        return default


class MutableSet(object):
    def remove(self, value):
        if value not in self:
            raise KeyError(value)
        self.discard(value)
    def clear(self):
        for v in list(self):
            self.discard(v)
    def isdisjoint(self, other):
        for v in other:
            if v in self:
                return False
        return True
'''


class LinkWorld(object):
    """A model made of the repository's own registries, interpreted (never imported): WaterNetworkModel without its constructor, the five
    registries built by their real constructors and _finalize_, three bare junctions N1..N3 placed in the node registry, four curves added
    through CurveRegistry.add_curve.  Patterns are only names (add_usage does not look the pattern up).  isinstance is decided by the real
    class hierarchy of elements.py, so an unreachable `elif isinstance(link, HeadPump)` after `if isinstance(link, Pump)` is simply not taken."""

    CURVES = (("CRV_A", "HEAD"), ("CRV_B", "HEAD"), ("HL_A", "HEADLOSS"), ("HL_B", "HEADLOSS"), ("VOL_A", "VOLUME"), ("VOL_B", "VOLUME"))
    PATTERNS = ("PAT_A", "PAT_B")

    def __init__(self, repo):
        import collections
        from ..concrete import World, Instance, ClassRef, stdlib_overrides, Namespace
        self.Instance = Instance
        ov, _state = stdlib_overrides()
        ov["six"] = Namespace("six", with_metaclass=lambda meta, *bases: (bases[0] if bases else object), string_types=(str,), integer_types=(int,))
        ov["wntr.network.base.LinkStatus"] = _link_status_enum(repo)
        self.world = World(repo, ov)
        self.I = self.world.interp
        # collections.abc mix-ins: classes of the interpreted world (their methods run on the repository classes' own abstract methods)
        for cd in ast.parse(ABC_MIXINS).body:
            self.world.overrides["collections.abc." + cd.name] = ClassRef(self.I, cd, self.world.ctx(BASE))
        wm = self.world.function(MODEL, "WaterNetworkModel")
        if not isinstance(wm, ClassRef):
            raise AnchorError("WaterNetworkModel is not a class of %s" % MODEL)
        # the model object: made by the repository's own constructor when this world can run it (every attribute __init__ sets is then present, whatever the
        # code under analysis added there), a bare instance otherwise; the registries and options the histories work on are put in place below either way
        try:
            import re as _re, enum as _enum
            self.world.overrides.setdefault("re", _re)
            self.wn = wm()
            if not isinstance(self.wn, Instance):
                self.wn = Instance(wm)
        except Exception:
            self.wn = Instance(wm)
        # options: only `.time` (Pattern(..., time_options=options.time)) and `.hydraulic.pattern` (name of the default pattern) are read on the
        # paths interpreted here; None = no time options / no default pattern
        self.wn._attrs.update(_options=Namespace("options", time=None, hydraulic=Namespace("options.hydraulic", pattern=None)), _controls=collections.OrderedDict())
        self.regs = collections.OrderedDict()
        for attr, cname in (("_pattern_reg", "PatternRegistry"), ("_curve_reg", "CurveRegistry"), ("_node_reg", "NodeRegistry"),
                            ("_link_reg", "LinkRegistry"), ("_sources", "SourceRegistry")):
            self.regs[attr] = self.I.call(self.world.function(MODEL, cname), [self.wn], {})
            self.wn._attrs[attr] = self.regs[attr]
        for r in self.regs.values():
            self.call(r, "_finalize_", self.wn)
        jc = self.world.function(ELEM, "Junction")
        for n in ("N1", "N2", "N3"):
            j = Instance(jc)
            j._attrs["_name"] = n
            self.store(self.regs["_node_reg"])[n] = j
        for c, t in self.CURVES:
            self.call(self.regs["_curve_reg"], "add_curve", c, t, [(0.0, 40.0), (0.05, 30.0), (0.1, 10.0)])
        for p_ in self.PATTERNS:
            self.call(self.regs["_pattern_reg"], "add_pattern", p_, [1.0, 0.5])

    def call(self, obj, meth, *a, **k):
        return self.I.call(self.I.getattr_(obj, meth), list(a), k)

    def store(self, reg, which="_data"):
        d = reg._attrs.get(which)
        if not isinstance(d, dict):
            raise AnchorError("registry attribute %s is not a dict in the interpreted model" % which)
        return d

    def records(self):
        """every usage record of every registry: {(registry attr, key, tag)}"""
        out = set()
        for attr, r in self.regs.items():
            for key, tags in self.store(r, "_usage").items():
                for t in self.I.iterate(tags):
                    out.add((attr, key, tuple(t) if isinstance(t, (list, tuple)) else t))
        return out

    def views_holding(self, name, reg=None):
        """the containers of a registry (default: the link registry) -- primary store and typed subsets -- that contain `name`"""
        lr = reg if reg is not None else self.regs["_link_reg"]
        out = []
        for attr, v in sorted(lr._attrs.items()):
            if isinstance(v, dict) and attr != "_usage" and name in v:
                out.append(attr)
            elif isinstance(v, self.Instance) and v._cls.name == "OrderedSet" and self.I.compare(ast.In(), name, v, None):
                out.append(attr)
        return out


def link_hierarchy(repo):
    """{class: [bases]} of BASE/ELEM and the leaf (concrete) classes below Link, read from the source."""
    bases = class_bases(repo)
    links = [c for c in bases if kind_of_class(c, bases) == "link" and c != "Link"]
    leaves = sorted(c for c in links if not any(c in (bases.get(o) or []) for o in links))
    return bases, links, leaves


def mro(cname, bases):
    out, todo = [], [cname]
    while todo:
        c = todo.pop(0)
        if c in out or c is None:
            continue
        out.append(c)
        todo.extend(bases.get(c, []))
    return out


def filing_setters(repo, cname, bases):
    """[(property, registry attr)] of the property setters along the class's MRO that file a usage record (contain an add_usage call)."""
    out, seen = [], set()
    for c in mro(cname, bases):
        for rel in (ELEM, BASE):
            if repo.has_cls(rel, c):
                for key, m in repo.methods(repo.cls(rel, c)).items():
                    if key.endswith(".setter") and key not in seen:
                        seen.add(key)
                        a = [u for u in usage_sites(m) if u[0] == "add_usage"]
                        if a:
                            out.append((key[:-7], a[0][1]))
    return out


def rule_histories(repo, chk, want):
    """Interpreted histories of ONE element on the repository's own registries (LinkWorld):
    R-C14-8  add -> (re-assign) -> remove: afterwards no registry holds a usage record naming the element, and the owning registry keeps no
             usage entry under its name;
    R-C14-3  ... and no view (primary store, typed subset) of the owning registry holds its name;
    R-C14-5  registry[name] = <instance of K> files the name under exactly the typed sets of K and its ancestors (table `want`);
    R-C14-4  del registry[name] of an element with a non-empty usage record raises RuntimeError and leaves every registry unchanged."""
    from ..concrete import ProgramError
    from ..src import ExtractError
    bases, links, leaves = link_hierarchy(repo)
    if len(leaves) < 3:
        raise AnchorError("Link hierarchy not found (leaves: %s)" % leaves)
    USER = LINK_USER
    delfn = {a: find_delitem(repo, c)[0] for a, c in (("_link_reg", "LinkRegistry"), ("_node_reg", "NodeRegistry"), ("_sources", "SourceRegistry"),
                                                     ("_curve_reg", "CurveRegistry"), ("_pattern_reg", "PatternRegistry"))}
    for f in delfn.values():
        chk.fn(f)

    def mine(recs):
        return sorted(r for r in recs if isinstance(r[2], tuple) and r[2] and r[2][0] == USER)

    def attempt(what, thunk):
        try:
            return thunk()
        except ProgramError as e:
            raise ExtractError("C14 history %s: the interpreted program raised %s" % (what, e))

    def verdict(lw, owner, construct, created, filed, removed_how, min_filed=()):
        left = mine(lw.records())
        views = lw.views_holding(USER, lw.regs[owner])
        orphan = USER in lw.store(lw.regs[owner], "_usage")
        for reg_, n_ in min_filed:
            if len([r for r in filed if r[0] == reg_]) < n_:
                raise ExtractError("C14 history %s: expected at least %d record(s) on %s in the interpreted model (filed %s)" % (construct, n_, reg_, filed))
        chk.expect(not left and not orphan, "R-C14-8", "%s releases every usage record of %s" % (removed_how, construct), loc(delfn[owner]),
                   "every usage record an element files while it exists must be released when it is removed: a record left behind names a user that no longer exists, and "
                   "remove_curve / remove_pattern / remove_node of the element it points at is refused for ever (interpreted history on the repository's own registries; "
                   "isinstance follows the real class hierarchy: %s is %s)" % (created, " < ".join(mro(created, bases)[:4])),
                   expected="no record naming %r afterwards" % USER,
                   found="records left: %s; own usage entry kept: %s; filed while it existed: %s" % (left, orphan, filed))
        chk.expect(not views, "R-C14-3", "%s takes %s out of every view of its registry" % (removed_how, construct), loc(delfn[owner]),
                   "a name filed under the primary store and the typed subsets on insertion must leave all of them when the element is deleted "
                   "(else counts, name lists and iterators keep a ghost)", expected="no view holds %r" % USER, found="still in %s" % views)
        chk.sample({"rule": "R-C14-8", "history": construct, "class": created, "filed": [list(map(str, r)) for r in filed], "left": [list(map(str, r)) for r in left]})
        return created

    def run_history(owner, label, add, steps, remove, min_filed=(), empty_record=False, records_gone=False):
        """add = (method of wn, args, kwargs); steps = [(text, callable(lw, elem))]; remove = method of wn"""
        lw = LinkWorld(repo)
        attempt("%s(%s)" % (add[0], label), lambda: lw.call(lw.wn, add[0], *add[1], **add[2]))
        elem = lw.store(lw.regs[owner]).get(USER)
        if not isinstance(elem, lw.Instance):
            raise ExtractError("C14 history: %s did not store %r in the %s" % (add[0], USER, owner))
        for text, step in steps:
            attempt("%s: %s" % (label, text), lambda: step(lw, elem))
        filed = mine(lw.records())
        if empty_record:
            # somebody used the element and stopped: clear_usage leaves an EMPTY usage entry under its name
            attempt("add_usage / clear_usage", lambda: (lw.call(lw.regs[owner], "add_usage", USER, ("someone", "Junction")), lw.call(lw.regs[owner], "clear_usage", USER)))
            if USER not in lw.store(lw.regs[owner], "_usage"):
                raise ExtractError("C14 history: clear_usage did not leave an empty usage entry")
        if records_gone:
            # R-C14-2: the records the element filed have already disappeared (cleared by hand, or never filed: known finding R-C14-1g):
            # releasing an absent record must not abort the removal half-way (a swallowed KeyError would leave the name in the typed views)
            for reg_, key_, tag_ in filed:
                attempt("remove_usage by hand", lambda: lw.call(lw.regs[reg_], "remove_usage", key_, tag_))
            attempt("%s(%s)" % (remove, label), lambda: lw.call(lw.wn, remove, USER))
            views = lw.views_holding(USER, lw.regs[owner])
            chk.expect(not views and not mine(lw.records()), "R-C14-2", "wn.%s completes for a %s whose usage records are already gone" % (remove, label), loc(delfn[owner]),
                       "after the element left the primary store, a release of a record that is absent must not raise into the swallowing `except KeyError`: "
                       "the remaining discards / releases would be skipped (partial removal)", expected="no view holds %r" % USER, found="still in %s" % views)
            return elem._cls.name, filed
        attempt("%s(%s)" % (remove, label), lambda: lw.call(lw.wn, remove, USER))
        how = "wn.%s" % remove
        construct = "a %s added by %s%s%s" % (label, add[0], "".join(" then " + t for t, _s in steps), " (empty usage entry under its own name)" if empty_record else "")
        return verdict(lw, owner, construct, elem._cls.name, filed, how, min_filed), filed

    def setter(prop, val, node=False):
        return ("%s = %s" % (prop, val), lambda lw, e: lw.I.setattr_(e, prop, lw.store(lw.regs["_node_reg"])[val] if node else val))

    def method(name, *a):
        return ("%s(%s)" % (name, ", ".join(map(repr, a))), lambda lw, e: lw.call(e, name, *a))

    # ---- (a) links through the public API of the model
    ends = (USER, "N1", "N2")
    two_nodes = (("_node_reg", 2),)
    any_curve = any_pattern = False
    covered = set()
    link_hist = [("pipe", ("add_pipe", ends, {}), [])]
    link_hist += [("%s pump" % t, ("add_pump", ends, dict(pump_type=t, pump_parameter=("CRV_A" if t == "HEAD" else 20.0), pattern="PAT_A")),
                   [setter("speed_pattern_name", "PAT_B")] + ([setter("pump_curve_name", "CRV_B")] if t == "HEAD" else [])) for t in ("HEAD", "POWER")]
    link_hist += [("%s pump without a speed pattern" % t, ("add_pump", ends, dict(pump_type=t, pump_parameter=("CRV_A" if t == "HEAD" else 20.0))), None) for t in ("HEAD", "POWER")]
    link_hist += [(t, ("add_valve", ends, dict(valve_type=t, initial_setting=("HL_A" if t == "GPV" else 1.0))), [setter("headloss_curve_name", "HL_B")] if t == "GPV" else [])
                  for t in ("PRV", "PSV", "PBV", "FCV", "TCV", "GPV")]
    for label, add, re_ in link_hist:
        for steps in ([[]] if re_ is None else [[], re_ + [setter("start_node", "N3", node=True)]]):
            cls_, filed = run_history("_link_reg", label, add, steps, "remove_link", two_nodes)
            covered.add(cls_)
            any_curve |= any(r[0] == "_curve_reg" for r in filed)
            any_pattern |= any(r[0] == "_pattern_reg" for r in filed)
    run_history("_link_reg", "pipe", ("add_pipe", ends, {}), [], "remove_link", two_nodes, empty_record=True)
    for label, add, re_ in link_hist:
        if re_:
            run_history("_link_reg", label, add, [], "remove_link", two_nodes, records_gone=True)
    if not (any_curve and any_pattern):
        raise ExtractError("C14 histories: no link history filed a curve and a pattern usage record: the interpreted model does not exercise the clause")
    # ---- (b) every concrete class of the Link hierarchy, with every usage-filing property set
    for cname in leaves:
        lw = LinkWorld(repo)
        lr = lw.regs["_link_reg"]
        link = attempt("%s(...)" % cname, lambda: lw.I.call(lw.world.function(ELEM, cname), [USER, "N1", "N2", lr], {}))
        for prop, reg in filing_setters(repo, cname, bases):
            if prop in ("start_node", "end_node"):
                continue
            val = {"_curve_reg": "CRV_B", "_pattern_reg": "PAT_B"}.get(reg)
            if val is None:
                raise ExtractError("C14 histories: %s.%s files on %s: no stand-in value known" % (cname, prop, reg))
            attempt("%s.%s = %s" % (cname, prop, val), lambda: lw.I.setattr_(link, prop, val))
        attempt("registry[%r] = %s" % (USER, cname), lambda: lw.I.setitem(lr, USER, link))
        filed = mine(lw.records())
        attempt("del registry[%r] (%s)" % (USER, cname), lambda: lw.I.call(lw.I.getattr_(lr, "__delitem__"), [USER], {}))
        verdict(lw, "_link_reg", "a %s holding every usage record it can hold" % cname, cname, filed, "LinkRegistry.__delitem__", two_nodes)
    # ---- (c) nodes, sources, curves, patterns through the public API
    one_pat = (("_pattern_reg", 1),)
    other = [
        ("_node_reg", "junction with a demand pattern", ("add_junction", (USER,), dict(base_demand=1.0, demand_pattern="PAT_A")), [[], [method("add_demand", 0.5, "PAT_B")]], "remove_node", one_pat),
        ("_node_reg", "junction without a demand pattern", ("add_junction", (USER,), {}), [[]], "remove_node", ()),
        ("_node_reg", "tank", ("add_tank", (USER,), {}), [[], [setter("vol_curve_name", "VOL_A")], [setter("vol_curve_name", "VOL_A"), setter("vol_curve_name", "VOL_B")]], "remove_node", ()),
        ("_node_reg", "reservoir with a head pattern", ("add_reservoir", (USER,), dict(head_pattern="PAT_A")), [[], [setter("head_pattern_name", "PAT_B")]], "remove_node", one_pat),
        ("_node_reg", "reservoir without a head pattern", ("add_reservoir", (USER,), {}), [[]], "remove_node", ()),
        ("_sources", "source", ("add_source", (USER, "N1", "CONCEN", 1.0, "PAT_A"), {}), [[]], "remove_source", (("_pattern_reg", 1), ("_node_reg", 1))),
        ("_sources", "source without a pattern", ("add_source", (USER, "N1", "CONCEN", 1.0), {}), [[]], "remove_source", (("_node_reg", 1),)),
        ("_pattern_reg", "pattern", ("add_pattern", (USER, [1.0, 2.0]), {}), [[]], "remove_pattern", ()),
    ] + [("_curve_reg", "%s curve" % t, ("add_curve", (USER, t, [(0.0, 1.0), (1.0, 2.0)]), {}), [[]], "remove_curve", ()) for t in ("HEAD", "EFFICIENCY", "HEADLOSS", "VOLUME")]
    for owner, label, add, variants, remove, minf in other:
        for k, steps in enumerate(variants):
            cls_, filed = run_history(owner, label, add, steps, remove, minf)
            if owner == "_node_reg" and label == "tank" and steps and not any(r[0] == "_curve_reg" for r in filed):
                raise ExtractError("C14 histories: the tank's volume curve record was not filed in the interpreted model")
        run_history(owner, label, add, [], remove, minf, empty_record=True)
        if minf:
            run_history(owner, label, add, [], remove, minf, records_gone=True)
    run_history("_node_reg", "tank", ("add_tank", (USER,), {}), [setter("vol_curve_name", "VOL_A")], "remove_node", (("_curve_reg", 1),), records_gone=True)
    # ---- (c') a curve whose typed view was filed by its USERS (set_curve_type on assignment), not by its own curve_type
    def used_and_released(what, add_user, remove_user):
        return ("used by %s that is removed again" % what, lambda lw, e: (lw.call(lw.wn, add_user[0], *add_user[1], **add_user[2]), lw.call(lw.wn, remove_user, add_user[1][0])))
    users = [("a HEAD pump", ("add_pump", ("U1", "N1", "N2"), dict(pump_type="HEAD", pump_parameter=USER)), "remove_link"),
             ("a GPV", ("add_valve", ("U1", "N1", "N2"), dict(valve_type="GPV", initial_setting=USER)), "remove_link"),
             ("a tank", ("add_tank", ("U1",), dict(vol_curve=USER)), "remove_node")]
    for ctype in (None, "EFFICIENCY"):
        for what, add_user, remove_user in users:
            lw_probe = LinkWorld(repo)
            attempt("add_curve", lambda: lw_probe.call(lw_probe.wn, "add_curve", USER, ctype, [(0.0, 40.0), (0.05, 30.0), (0.1, 10.0)]))
            before_ = set(lw_probe.views_holding(USER, lw_probe.regs["_curve_reg"]))
            try:
                lw_probe.call(lw_probe.wn, add_user[0], *add_user[1], **add_user[2])
            except ProgramError as e_:
                if isinstance(e_.exc, (ValueError, RuntimeError)):
                    continue      # the API refuses this curve for this kind of user (add_tank wants a VOLUME curve)
                raise ExtractError("C14 history %s: the interpreted program raised %s" % (add_user[0], e_))
            filed_by_user = set(lw_probe.views_holding(USER, lw_probe.regs["_curve_reg"])) - before_
            if not filed_by_user:
                continue          # this kind of user does not file the curve in a typed view: nothing to release
            run_history("_curve_reg", "%s curve" % (ctype or "untyped"), ("add_curve", (USER, ctype, [(0.0, 40.0), (0.05, 30.0), (0.1, 10.0)]), {}),
                        [used_and_released(what, add_user, remove_user)], "remove_curve", ())
    chk.note("C14 histories: link classes created through the public API: %s; concrete classes of the Link hierarchy: %s" % (sorted(covered), leaves))
    chk.floor("R-C14-8", 30)
    chk.floor("R-C14-3", 30)
    chk.floor("R-C14-2", 6)

    # ---- (d) filing: registry[name] = instance of K  ->  exactly the typed sets of K and its ancestors
    lw = LinkWorld(repo)
    elems = []     # (registry attr, key, class)
    for k in sorted(want):
        kind = kind_of_class(k, bases)
        owner = {"node": "_node_reg", "link": "_link_reg"}.get(kind)
        if owner is None:
            raise AnchorError("class %s of the typed-set table is neither a node nor a link" % k)
        inst = lw.Instance(lw.world.function(ELEM, k))       # a bare instance: filing only looks at the class
        key = "E_" + k
        attempt("registry[%r] = <%s>" % (key, k), lambda: lw.I.setitem(lw.regs[owner], key, inst))
        got = sorted(v for v in lw.views_holding(key, lw.regs[owner]) if v != "_data")
        exp = sorted({want[a] for a in mro(k, bases) if a in want})
        stored = "_data" in lw.views_holding(key, lw.regs[owner])
        chk.expect(got == exp and stored, "R-C14-5", "__setitem__ files a %s under %s" % (k, want[k]), loc(MODEL),
                   "interpreted: registry[name] = <%s> must put the name into the primary store and into exactly the typed sets of %s" % (k, " and ".join(mro(k, bases)[:-1] or [k])),
                   expected=exp, found="%s%s" % (got, "" if stored else " (not in _data)"))
        elems.append((owner, key, k))
    # ---- (e) refusal: an element somebody still uses is not removed, and nothing at all changes
    for owner, cname in (("_curve_reg", "Curve"), ("_pattern_reg", "Pattern"), ("_sources", "Source")):
        key = "E_" + cname
        inst = lw.Instance(lw.world.function(ELEM, cname))
        lw.store(lw.regs[owner])[key] = inst
        if owner == "_curve_reg":
            # a curve is also listed in a typed view: file it there through the registry's own method
            inst._attrs.update(_name=key, _curve_type="HEAD", _points=[])
            attempt("set_curve_type", lambda: lw.call(lw.regs[owner], "set_curve_type", key, "HEAD"))
        elems.append((owner, key, cname))
    for owner, key, cname in elems:
        attempt("add_usage", lambda: lw.call(lw.regs[owner], "add_usage", key, ("someone", "Junction")))

    def snapshot():
        return (sorted(map(str, lw.records())),
                {a: {v: sorted(lw.store(r, v)) if isinstance(r._attrs[v], dict) else sorted(lw.I.iterate(r._attrs[v]))
                     for v in sorted(r._attrs) if v != "_usage" and (isinstance(r._attrs[v], dict) or (isinstance(r._attrs[v], lw.Instance) and r._attrs[v]._cls.name == "OrderedSet"))}
                 for a, r in lw.regs.items()})
    for owner, key, cname in elems:
        before = snapshot()
        outcome = "returned normally"
        try:
            lw.I.call(lw.I.getattr_(lw.regs[owner], "__delitem__"), [key], {})
        except ProgramError as e:
            outcome = "raised %s" % type(e.exc).__name__
        after = snapshot()
        changed = [(a, v) for a in before[1] for v in before[1][a] if before[1][a][v] != after[1].get(a, {}).get(v)] + (["usage records"] if before[0] != after[0] else [])
        rcn = delfn[owner]._qual.split(".")[0] if hasattr(delfn[owner], "_qual") else owner
        chk.expect(outcome == "raised RuntimeError" and not changed, "R-C14-4",
                   "%s.__delitem__ refuses removal of a %s that is still used and leaves the model unchanged" % ({"_link_reg": "LinkRegistry", "_node_reg": "NodeRegistry", "_sources": "SourceRegistry", "_curve_reg": "CurveRegistry", "_pattern_reg": "PatternRegistry"}[owner], cname),
                   loc(delfn[owner]),
                   "interpreted on a registry whose usage entry for the element is non-empty: the removal must raise RuntimeError (not swallowed by a handler) "
                   "before anything is mutated; governing method %s" % rcn,
                   expected="raised RuntimeError, nothing changed", found="%s; changed: %s" % (outcome, changed or "nothing"))
    chk.floor("R-C14-4", len(want) + 3)


def world_snapshot(lw):
    """(usage records, {registry attr: {view: sorted names}}, control names) of an interpreted model"""
    views = {}
    for a, r in lw.regs.items():
        views[a] = {}
        for v in sorted(r._attrs):
            x = r._attrs[v]
            if v == "_usage":
                continue
            if isinstance(x, dict):
                views[a][v] = sorted(map(str, x))
            elif isinstance(x, lw.Instance) and x._cls.name == "OrderedSet":
                views[a][v] = sorted(map(str, lw.I.iterate(x)))
    ctl = lw.wn._attrs.get("_controls")
    return (sorted(map(str, lw.records())), views, sorted(map(str, ctl)) if isinstance(ctl, dict) else None)


def snapshot_diff(before, after):
    out = []
    if before[0] != after[0]:
        out.append("usage records: +%s -%s" % (sorted(set(after[0]) - set(before[0])), sorted(set(before[0]) - set(after[0]))))
    for a in before[1]:
        for v in before[1][a]:
            if before[1][a][v] != after[1].get(a, {}).get(v):
                out.append("%s.%s: %s -> %s" % (a, v, before[1][a][v], after[1].get(a, {}).get(v)))
    if before[2] != after[2]:
        out.append("controls: %s -> %s" % (before[2], after[2]))
    return out


class _MockControl(object):
    """a control that requires the given model objects (only requires() / _control_type_str() / name are read by remove_node / remove_link)"""
    _sa_mock = True

    def __init__(self, name, objs):
        self.name = name
        self._objs = list(objs)

    def requires(self):
        return list(self._objs)

    def _control_type_str(self):
        return "Control"

    def __repr__(self):
        return "<control %s>" % self.name


def rule_refusals(repo, chk):
    """Interpreted histories (LinkWorld, sa/concrete.py) whose point is what must NOT happen:
    R-C14-6  an add_* with a name that already exists in its registry is refused (ValueError) and changes nothing -- no typed view, no usage record;
    R-C14-7  add_pipe / add_pump / add_valve naming an end node that does not exist fails and leaves no usage record and no view entry behind;
    R-C14-4  remove_node / remove_link of an element a control requires: refused with RuntimeError and nothing changes; with force the element goes and the
             control stays; with with_control the element and exactly the requiring controls go; when the registry itself refuses (element still used by a
             link) with_control must not have removed the controls;
    R-C14-1c re-assigning a usage-filing setter to the value it already has keeps exactly the records it had (add-then-remove would lose the record)."""
    from ..concrete import ProgramError
    from ..src import ExtractError
    MISSING = (AttributeError, NameError)

    def attempt(lw, thunk):
        before = world_snapshot(lw)
        try:
            thunk()
            outcome = "returned normally"
        except ProgramError as e:
            if isinstance(e.exc, MISSING):
                raise ExtractError("C14 refusal histories: the interpreted program needs something the mock model lacks: %s (line %s)" % (e, e.lineno))
            outcome = "raised %s" % type(e.exc).__name__
        return outcome, snapshot_diff(before, world_snapshot(lw))

    def base_world():
        lw = LinkWorld(repo)
        lw.call(lw.wn, "add_pipe", "L1", "N1", "N2")
        lw.call(lw.wn, "add_source", "S1", "N1", "CONCEN", 1.0, "PAT_A")
        lw.call(lw.wn, "add_junction", "J4", base_demand=1.0, demand_pattern="PAT_B")
        return lw
    MODELFN = {m: repo.func(MODEL, "WaterNetworkModel." + m) for m in ("add_junction", "add_tank", "add_reservoir", "add_pipe", "add_pump", "add_valve", "add_pattern", "add_source",
                                                                      "add_control", "remove_node", "remove_link")}
    # ---- R-C14-6 duplicates
    dups = [("add_junction", ("N1",), {}), ("add_tank", ("N1",), {}), ("add_reservoir", ("N1",), {}),
            ("add_junction", ("N2",), dict(base_demand=1.0, demand_pattern="PAT_A")), ("add_reservoir", ("N2",), dict(head_pattern="PAT_A")),
            ("add_pipe", ("L1", "N2", "N3"), {}), ("add_pump", ("L1", "N2", "N3"), dict(pump_type="HEAD", pump_parameter="CRV_A", pattern="PAT_A")),
            ("add_pump", ("L1", "N2", "N3"), dict(pump_type="POWER", pump_parameter=10.0)),
            ("add_valve", ("L1", "N2", "N3"), dict(valve_type="PRV")), ("add_valve", ("L1", "N2", "N3"), dict(valve_type="GPV", initial_setting="HL_A")),
            ("add_pattern", ("PAT_A", [2.0]), {}), ("add_source", ("S1", "N2", "CONCEN", 2.0, "PAT_B"), {})]
    for meth, a, k in dups:
        lw = base_world()
        outcome, changed = attempt(lw, lambda: lw.call(lw.wn, meth, *a, **k))
        chk.expect(outcome in ("raised ValueError", "raised RuntimeError") and not changed, "R-C14-6",
                   "wn.%s(%s%s) with a name that already exists is refused and changes nothing" % (meth, ", ".join(map(repr, a[:1])), ", ..." if len(a) > 1 or k else ""), loc(MODELFN[meth]),
                   "interpreted on the repository's own registries: a second element under an existing name must be refused before anything is constructed -- a Link constructed first files usage "
                   "records on its end nodes / curve / pattern, a typed view filed first keeps a ghost (num_pipes + num_pumps > num_links)",
                   expected="ValueError, model unchanged", found="%s; changed: %s" % (outcome, changed or "nothing"))
    lw = base_world()
    c1, c2 = _MockControl("c1", []), _MockControl("c2", [])
    lw.call(lw.wn, "add_control", "c1", c1)
    outcome, changed = attempt(lw, lambda: lw.call(lw.wn, "add_control", "c1", c2))
    kept = lw.wn._attrs["_controls"].get("c1") is c1
    chk.expect(outcome in ("raised ValueError", "raised RuntimeError") and not changed and kept, "R-C14-6", "wn.add_control('c1', ...) with a name that already exists is refused and changes nothing", loc(MODELFN["add_control"]),
               "a second control under an existing name would silently replace the first", expected="ValueError, first control kept", found="%s; changed: %s; first control kept: %s" % (outcome, changed or "nothing", kept))
    chk.floor("R-C14-6", 13)
    # ---- R-C14-7 no partial registration
    partial = [("add_pipe", ("L2", "N1", "NOWHERE"), {}), ("add_pipe", ("L2", "NOWHERE", "N1"), {}),
               ("add_pump", ("L2", "N1", "NOWHERE"), dict(pump_type="HEAD", pump_parameter="CRV_A", pattern="PAT_A")),
               ("add_pump", ("L2", "N1", "NOWHERE"), dict(pump_type="POWER", pump_parameter=10.0)),
               ("add_valve", ("L2", "N1", "NOWHERE"), dict(valve_type="GPV", initial_setting="HL_A")), ("add_valve", ("L2", "NOWHERE", "N1"), dict(valve_type="TCV"))]
    for meth, a, k in partial:
        lw = base_world()
        outcome, changed = attempt(lw, lambda: lw.call(lw.wn, meth, *a, **k))
        chk.expect(outcome.startswith("raised") and not changed, "R-C14-7", "wn.%s(%r, %r, %r%s) with a missing end node fails without leaving a record" % (meth, a[0], a[1], a[2], ", ..." if k else ""), loc(MODELFN[meth]),
                   "a link whose end node does not exist raises after the other node (or a curve / pattern) was already marked as used by it: the phantom record makes get_links_for_node raise "
                   "and remove_node / remove_curve refuse for ever", expected="an exception, model unchanged", found="%s; changed: %s" % (outcome, changed or "nothing"))
    chk.floor("R-C14-7", 6)
    # ---- R-C14-4 controls that require the element
    for meth, reg, name, in (("remove_node", "_node_reg", "J4"), ("remove_link", "_link_reg", "L1")):
        def world():
            lw = base_world()
            obj = lw.store(lw.regs[reg])[name]
            other = lw.store(lw.regs["_node_reg"])["N2"]
            for cn, objs in (("needs_it", [obj]), ("needs_other", [other]), ("needs_both", [other, obj])):
                lw.call(lw.wn, "add_control", cn, _MockControl(cn, objs))
            return lw
        lw = world()
        outcome, changed = attempt(lw, lambda: lw.call(lw.wn, meth, name))
        chk.expect(outcome == "raised RuntimeError" and not changed, "R-C14-4", "wn.%s of an element a control requires is refused and changes nothing" % meth, loc(MODELFN[meth]),
                   "interpreted: three controls, two of which require the element", expected="RuntimeError, model unchanged", found="%s; changed: %s" % (outcome, changed or "nothing"))
        lw = world()
        outcome, changed = attempt(lw, lambda: lw.call(lw.wn, meth, name, force=True))
        gone = name not in lw.store(lw.regs[reg]) and not lw.views_holding(name, lw.regs[reg])
        ctl = sorted(lw.wn._attrs["_controls"])
        chk.expect(outcome == "returned normally" and gone and ctl == ["needs_both", "needs_it", "needs_other"], "R-C14-4", "wn.%s(force=True) removes the element and leaves the controls" % meth, loc(MODELFN[meth]),
                   expected="element gone, three controls kept", found="%s; element gone: %s; controls: %s" % (outcome, gone, ctl))
        lw = world()
        outcome, changed = attempt(lw, lambda: lw.call(lw.wn, meth, name, with_control=True))
        gone = name not in lw.store(lw.regs[reg]) and not lw.views_holding(name, lw.regs[reg])
        ctl = sorted(lw.wn._attrs["_controls"])
        chk.expect(outcome == "returned normally" and gone and ctl == ["needs_other"], "R-C14-4", "wn.%s(with_control=True) removes the element and exactly the controls that require it" % meth, loc(MODELFN[meth]),
                   expected="element gone, only 'needs_other' kept", found="%s; element gone: %s; controls: %s" % (outcome, gone, ctl))
    # the registry refuses (N1 is an end node of L1 and the node of S1): with_control must not have removed anything
    lw = base_world()
    n1 = lw.store(lw.regs["_node_reg"])["N1"]
    lw.call(lw.wn, "add_control", "needs_n1", _MockControl("needs_n1", [n1]))
    outcome, changed = attempt(lw, lambda: lw.call(lw.wn, "remove_node", "N1", with_control=True))
    chk.expect(outcome == "raised RuntimeError" and not changed, "R-C14-4", "wn.remove_node(with_control=True) of a node a link still uses is refused and keeps the node's controls", loc(MODELFN["remove_node"]),
               "the controls must not be deleted before the registry had its chance to refuse", expected="RuntimeError, model unchanged", found="%s; changed: %s" % (outcome, changed or "nothing"))
    # ---- R-C14-1c same-value re-assignment keeps the record
    bases = class_bases(repo)
    same = [("add_pump", ("P", "N1", "N2"), dict(pump_type="HEAD", pump_parameter="CRV_A", pattern="PAT_A"), "_link_reg", [("speed_pattern_name", "PAT_A"), ("pump_curve_name", "CRV_A")]),
            ("add_valve", ("P", "N1", "N2"), dict(valve_type="GPV", initial_setting="HL_A"), "_link_reg", [("headloss_curve_name", "HL_A")]),
            ("add_reservoir", ("P",), dict(head_pattern="PAT_A"), "_node_reg", [("head_pattern_name", "PAT_A")]),
            ("add_pipe", ("P", "N1", "N2"), {}, "_link_reg", [("start_node", "N1"), ("end_node", "N2")])]
    n1c = 0
    for meth, a, k, owner, props in same:
        for prop, val in props:
            lw = base_world()
            lw.call(lw.wn, meth, *a, **k)
            elem = lw.store(lw.regs[owner])["P"]
            if prop == "vol_curve_name":
                lw.I.setattr_(elem, prop, val)
            v = lw.store(lw.regs["_node_reg"])[val] if prop in ("start_node", "end_node") else val
            outcome, changed = attempt(lw, lambda: lw.I.setattr_(elem, prop, v))
            n1c += 1
            chk.expect(outcome == "returned normally" and not changed, "R-C14-1c", "%s.%s re-assigned to the value it already has keeps its usage record" % (elem._cls.name, prop), loc(ELEM),
                       "usage entries are sets: a setter that adds the new record before it removes the old one loses the record when both are the same (same key re-assignment must keep one record)",
                       expected="model unchanged", found="%s; changed: %s" % (outcome, changed or "nothing"))
    lw = base_world()
    lw.call(lw.wn, "add_tank", "P")
    tank = lw.store(lw.regs["_node_reg"])["P"]
    lw.I.setattr_(tank, "vol_curve_name", "VOL_A")
    outcome, changed = attempt(lw, lambda: lw.I.setattr_(tank, "vol_curve_name", "VOL_A"))
    chk.expect(outcome == "returned normally" and not changed, "R-C14-1c", "Tank.vol_curve_name re-assigned to the value it already has keeps its usage record", loc(ELEM),
               expected="model unchanged", found="%s; changed: %s" % (outcome, changed or "nothing"))


def run(repo, chk):
    bases = class_bases(repo)
    reg_classes = {n: repo.cls(MODEL, n) for n in ("PatternRegistry", "CurveRegistry", "SourceRegistry", "NodeRegistry", "LinkRegistry")}
    delitems = {n: find_delitem(repo, n)[0] for n in reg_classes}
    for f in delitems.values():
        chk.fn(f)

    # ---------------------------------------------------------------- R-C14-1
    with chk.part("R-C14-1"):
        adds = []   # (kind, reg, tag, site)
        for rel in (BASE, ELEM):
            for cname, c in repo.classes(rel).items():
                kind = kind_of_class(cname, bases)
                if kind is None:
                    continue
                for mname, m in repo.methods(c).items():
                    sites = usage_sites(m)
                    a = [s for s in sites if s[0] == "add_usage"]
                    r = [s for s in sites if s[0] == "remove_usage"]
                    for s in a:
                        adds.append((kind, s[1], s[2], "%s.%s" % (cname, mname), loc(rel, s[4]), s))
                    # setter discipline: a method that both removes and adds must use one registry and one tag
                    if a and r:
                        for s in a:
                            same = [x for x in r if x[1] == s[1] and x[2] == s[2]]
                            chk.expect(bool(same), "R-C14-1c", "%s.%s re-registers on %s tag %s" % (cname, mname, s[1], s[2]),
                                       loc(rel, s[4]), "a setter that re-registers usage must un-register the old key from the same registry with the same tag",
                                       expected="remove_usage on %s tag %s" % (s[1], s[2]), found=[(x[1], x[2]) for x in r])
        wm = repo.cls(MODEL, "WaterNetworkModel")
        for s in usage_sites(repo.func(MODEL, "WaterNetworkModel.add_source")):
            if s[0] == "add_usage":
                adds.append(("source", s[1], s[2], "WaterNetworkModel.add_source", loc(MODEL, s[4]), s))
        del_sites = {}
        for kind, rname in DELITEM_OF_KIND.items():
            del_sites[kind] = [s for s in usage_sites(delitems[rname]) if s[0] == "remove_usage"]
        add_pairs = {}
        for kind, reg, tag, where, l, s in adds:
            add_pairs.setdefault((kind, reg, tag), []).append((where, l))
        for (kind, reg, tag), wh in sorted(add_pairs.items(), key=str):
            rs = [x for x in del_sites[kind] if x[1] == reg and x[2] == tag]
            chk.expect(bool(rs), "R-C14-1a", "usage (%s, tag %s) registered by %s is removed by %s.__delitem__" % (reg, tag, kind, DELITEM_OF_KIND[kind]),
                       wh[0][1], "every add_usage(registry, tag) of a user must be undone on the same registry with the same tag when the user is deleted; registered at %s" % ", ".join(w[0] for w in wh),
                       expected="%s.remove_usage(<key>, (<name>, %s)) in %s.__delitem__" % (reg, tag, DELITEM_OF_KIND[kind]),
                       found=sorted({(x[1], x[2]) for x in del_sites[kind]}))
            chk.sample({"rule": "R-C14-1a", "kind": kind, "registry": reg, "tag": tag, "added_at": [w[0] for w in wh], "removed": bool(rs)})
        for kind, sites in del_sites.items():
            for s in sites:
                chk.expect((kind, s[1], s[2]) in add_pairs, "R-C14-1b",
                           "%s.__delitem__ removes usage (%s, tag %s) that some %s registers" % (DELITEM_OF_KIND[kind], s[1], s[2], kind),
                           loc(MODEL, s[4]), "a remove_usage on a registry/tag nobody registers on is a removal from the wrong registry (and raises a swallowed KeyError)",
                           expected="one of %s" % sorted(k[1:] for k in add_pairs if k[0] == kind), found=(s[1], s[2]))
                # usage keys are names: a loop variable over pattern_list() (Pattern objects) used bare as key is an object
                key = s[3]
                if isinstance(key, ast.Name):
                    loop = enclosing(s[4], ast.For)
                    while loop is not None and not (isinstance(loop.target, ast.Name) and loop.target.id == key.id):
                        loop = enclosing(loop, ast.For)
                    if loop is not None and isinstance(loop.iter, ast.Call) and last_attr(loop.iter) == "pattern_list":
                        pl = repo.func(ELEM, "Demands.pattern_list")
                        objs = any(isinstance(c.args[0], ast.Attribute) and c.args[0].attr == "pattern" for c in calls(pl, attr="append") if c.args)
                        chk.expect(not objs, "R-C14-1d", "%s.__delitem__ keys remove_usage by a name, not by a Pattern object" % DELITEM_OF_KIND[kind],
                                   loc(MODEL, s[4]), "Demands.pattern_list() yields Pattern objects; _usage is keyed by names", expected="<pattern>.name", found=unparse(key))
        chk.floor("R-C14-1a", 8)
        chk.floor("R-C14-1b", 9)
        chk.floor("R-C14-1c", 4)

    # ---------------------------------------------------------------- R-C14-2 / -3 / -4 / -8 and the filing part of R-C14-5: interpreted histories
    with chk.part("R-C14-2 / -3 / -4 / -8 and the filing part of R-C14-5: interpreted histories"):
        rule_histories(repo, chk, TYPED_SETS)
        rule_refusals(repo, chk)
        chk.floor("R-C14-1c", 11)
        chk.floor("R-C14-4", len(TYPED_SETS) + 3 + 7)
        # (R-C14-4: refusal while a control requires the element, force and with_control are decided by the interpreted histories of rule_refusals)
        # R-C14-4b: nothing is removed from the model before the registry had its chance to refuse: every remove_control in remove_node /
        # remove_link is dominated by the registry's __delitem__ (a refused removal leaves the controls too)
        from ..cfg import CFG
        for meth in ("remove_node", "remove_link"):
            fn = repo.func(MODEL, "WaterNetworkModel.%s" % meth)
            g = CFG(fn)
            reg = "_node_reg" if meth == "remove_node" else "_link_reg"
            dels = g.nodes_where(lambda node, d, fn=fn, reg=reg: deletes_from(fn, node, reg))     # .__delitem__(k) / del reg[k] / alias
            rcs = g.calling("remove_control")
            idom = g.dominators()
            for rc in rcs:
                chk.expect(any(g.dominates(d, rc, idom) for d in dels), "R-C14-4b", "WaterNetworkModel.%s removes the element's controls only after the registry accepted the removal" % meth,
                           loc(fn, g.node_ast(rc)), "with_control=True deletes the controls and then the registry refuses because the element is still in use: the refused removal changed the model",
                           expected="remove_control dominated by %s.__delitem__" % reg, found=g.label(rc))
            if not rcs or not dels:
                raise AnchorError("WaterNetworkModel.%s: remove_control / deletion from self.%s not found" % (meth, reg))
        # (R-C14-7: no partial registration is decided by the interpreted histories of rule_refusals)
        # R-C14-1e: guards on pattern objects are identity tests: Pattern defines __len__, an empty pattern is falsy
        falsy_classes = {cname for cname, c in repo.classes(ELEM).items() if any(isinstance(n, ast.FunctionDef) and n.name in ("__len__", "__bool__") for n in c.body)}
        chk.sample({"rule": "R-C14-1e", "classes_with_len_or_bool": sorted(falsy_classes)})
        for rname in ("NodeRegistry", "LinkRegistry", "SourceRegistry"):
            if rname not in reg_classes:
                continue
            dfn, _c = find_delitem(repo, rname)
            for lp in [n for n in walk(dfn) if isinstance(n, ast.For) and isinstance(n.iter, ast.Call) and last_attr(n.iter) == "pattern_list" and isinstance(n.target, ast.Name)]:
                v = lp.target.id
                for gd in [n for n in walk(lp) if isinstance(n, ast.If) and any(last_attr(c) == "remove_usage" for c in calls(n))]:
                    bare = isinstance(gd.test, ast.Name) and gd.test.id == v
                    chk.expect(not (bare and "Pattern" in falsy_classes), "R-C14-1e", "%s.__delitem__ tests the pattern of a demand for `is not None`, not for truthiness" % rname, loc(MODEL, gd),
                               "Pattern defines __len__: a pattern without multipliers is falsy, so its usage record is not released and the pattern can never be removed",
                               expected="if %s is not None" % v, found="if %s" % unparse(gd.test))
        # R-C14-1f: usage records are keyed by names on both sides: an add_usage keyed by a raw parameter that may be an object
        ad = repo.func(ELEM, "Junction.add_demand")
        chk.fn(ad)
        pnames = [a.arg for a in ad.args.args]
        for c in [c for c in calls(ad) if last_attr(c) == "add_usage"]:
            key = c.args[0]
            raw = isinstance(key, ast.Name) and key.id in pnames
            str_only = any(isinstance(a, ast.Assert) and ("isinstance(%s, str)" % (key.id if raw else "?")) in unparse(a) for a in walk(ad))
            chk.expect(not raw or str_only, "R-C14-1f", "Junction.add_demand keys the pattern usage by the pattern's name", loc(ad, c),
                       "the parameter may be a Pattern object (add_junction documents 'str or Pattern'); a record filed under the object is invisible to get_usage(name), "
                       "so remove_pattern of a pattern in use is not refused", expected="<pattern>.name or a str", found=unparse(key))

        # R-C14-1g: the documented way to change a demand's pattern moves the usage record like every other reference-changing setter
        tps = repo.func(ELEM, "TimeSeries.pattern_name", kind="setter")
        chk.fn(tps)
        ops = [last_attr(c) for c in calls(tps) if last_attr(c) in ("add_usage", "remove_usage")]
        chk.expect("add_usage" in ops and "remove_usage" in ops, "R-C14-1g", "TimeSeries.pattern_name setter moves the usage record from the old pattern to the new one", loc(tps),
                   "Junction.base_demand / demand_pattern are read-only and point to demand_timeseries_list[0].pattern_name = ... as the way to change a pattern; that setter only stores the "
                   "name: the new pattern can be removed while in use and the old one cannot be removed although unused", expected="remove_usage(old) and add_usage(new)", found=ops)

    # (R-C14-6: duplicate names are decided by the interpreted histories of rule_refusals)

    # ---------------------------------------------------------------- R-C14-5
    with chk.part("R-C14-5"):
        def prop_return(cls, name):
            fn = repo.methods(cls).get(name)
            if fn is None:
                raise AnchorError("%s.%s vanished" % (cls.name, name))
            rets = [s for s in walk(fn) if isinstance(s, ast.Return) and s.value is not None]
            if len(rets) != 1:
                raise AnchorError("%s.%s: expected a single return" % (cls.name, name))
            return rets[0].value, fn

        def reg_names_set(regcls, attr):
            """NodeRegistry.<attr> property -> backing set attribute."""
            v, fn = prop_return(regcls, attr)
            d = dotted(v)
            if isinstance(v, ast.Call) and call_name(v) in ("list", "OrderedSet") and v.args:
                d = dotted(v.args[0])
            if d and d.startswith("self."):
                return d[5:]
            raise AnchorError("%s.%s does not return a set attribute" % (regcls.name, attr))

        def reg_iter_set(regcls, meth):
            """the set S such that the generator produces exactly (name, self._data[name]) for name in self.S (abstract execution)."""
            got = iterated_set(GenEval(repo, regcls).stream(meth))
            if got.startswith("<"):
                raise AnchorError("%s.%s: does not iterate one typed set as (name, self._data[name]): %s" % (regcls.name, meth, got))
            return got

        kinds = [("junction", "_node_reg", "NodeRegistry"), ("tank", "_node_reg", "NodeRegistry"), ("reservoir", "_node_reg", "NodeRegistry")]
        kinds += [(k, "_link_reg", "LinkRegistry") for k in ("pipe", "pump", "valve", "head_pump", "power_pump", "prv", "psv", "pbv", "tcv", "fcv", "gpv")]
        has_num = {"junction", "tank", "reservoir", "pipe", "pump", "valve"}
        for k, reg, rcn in kinds:
            rc = reg_classes[rcn]
            views = {}
            v, f = prop_return(wm, k + "_name_list")
            inner = v.args[0] if isinstance(v, ast.Call) and call_name(v) == "list" and v.args else v
            d = dotted(inner)
            if not d or not d.startswith("self.%s." % reg):
                chk.bad("R-C14-5", "WaterNetworkModel.%s_name_list reads %s" % (k, reg), loc(f), found=unparse(v))
                continue
            views["name_list"] = reg_names_set(rc, d.split(".")[2])
            if k in has_num:
                v, f = prop_return(wm, "num_" + k + "s")
                inner = v.args[0] if isinstance(v, ast.Call) and call_name(v) == "len" and v.args else None
                d = dotted(inner) if inner is not None else None
                if not d or not d.startswith("self.%s." % reg):
                    chk.bad("R-C14-5", "WaterNetworkModel.num_%ss reads %s" % (k, reg), loc(f), found=unparse(v))
                    continue
                views["num"] = reg_names_set(rc, d.split(".")[2])
            v, f = prop_return(wm, k + "s")
            d = dotted(v)
            if not d or not d.startswith("self.%s." % reg):
                chk.bad("R-C14-5", "WaterNetworkModel.%ss reads %s" % (k, reg), loc(f), found=unparse(v))
                continue
            views["iterator"] = reg_iter_set(rc, d.split(".")[2])
            chk.expect(len(set(views.values())) == 1 and set(views.values()) == {"_" + k + "s"}, "R-C14-5",
                       "views of kind %s read one typed set" % k, loc(f),
                       "name list, count and iterator of one kind must be backed by the same set", expected="_%ss" % k, found=views)
            chk.sample({"rule": "R-C14-5", "kind": k, "views": views})
        # __call__ dispatch (wn.nodes(Junction) / wn.links(Pipe))
        for rcn, table in (("NodeRegistry", {"Junction": "_junctions", "Tank": "_tanks", "Reservoir": "_reservoirs"}),
                           ("LinkRegistry", {"Pipe": "_pipes", "Pump": "_pumps", "Valve": "_valves"})):
            fn = repo.methods(reg_classes[rcn]).get("__call__")
            if fn is None:
                raise AnchorError("%s.__call__ vanished" % rcn)
            chk.fn(fn)
            # abstract execution of the generator for each concrete type argument: which container's names are yielded with their objects
            from ..peval import Obj
            ge = GenEval(repo, reg_classes[rcn])
            got = {t: iterated_set(ge.stream("__call__", [Obj(t)])) for t in sorted(table)}
            chk.expect(got == table, "R-C14-5", "%s.__call__(type) iterates the typed set of that type" % rcn, loc(fn),
                       "wn.nodes(T) / wn.links(T) must yield (name, self._data[name]) for exactly the names in the typed set of T",
                       expected=table, found=got)
            allv = iterated_set(ge.stream("__call__", []))
            chk.expect(allv == "_data", "R-C14-5", "%s.__call__() iterates the primary store" % rcn, loc(fn),
                       "wn.nodes() / wn.links() without a type must yield every element of _data", expected="_data", found=allv)
        # adjacency view
        fn = repo.func(MODEL, "WaterNetworkModel.get_links_for_node")
        chk.fn(fn)
        # decided by running the view on the fixture model under an edit history (no text match): the answers follow the links' current end nodes
        from ._shared import adjacency_history_rules
        adjacency_history_rules(repo, chk, "R-C14-5")
        lt = None
        for n in walk(fn):
            if isinstance(n, ast.Assign) and isinstance(n.value, (ast.Set, ast.List, ast.Tuple)) and dotted(n.targets[0]) == "link_types":
                lt = {const(e) for e in n.value.elts}
        tags = set()
        for cname in ("Pipe", "Pump", "Valve"):
            v = repo.func(ELEM, "%s.link_type" % cname)
            r = [s for s in walk(v) if isinstance(s, ast.Return)]
            tags.add(const(r[0].value) if r else None)
        chk.expect(lt is not None and tags <= lt, "R-C14-5", "link usage tags (link_type of Pipe/Pump/Valve) are the tags get_links_for_node accepts", loc(fn),
                   "a link registered under a tag the adjacency view filters out disappears from get_links_for_node", expected=sorted(map(str, tags)), found=sorted(map(str, lt or [])))
        # to_graph: decided by running it on the fixture model after every step of the edit history above (real networkx), not by its text
        # end-node setters: that they store the registry's own node object and move exactly the old end's usage record is decided by running them (R-C14-5s
        # below on all 8 configurations, and the edit history above, which also checks the identity of the stored node); the former pattern clauses (text of the
        # assigned value, line order of remove_usage and the assignment) were dropped -- they fired on a shared helper for the two setters
        for which in ("start_node", "end_node"):
            chk.fn(repo.func(BASE, "Link.%s" % which, kind="setter"))
        # R-C14-5s: both setters interpreted (sa/concrete.py, LinkWorld) on a pipe for every configuration of (start, end, new node) drawn from
        # two nodes: afterwards a node's usage record holds the link iff the link starts or ends there
        from ..concrete import ProgramError
        from ..src import ExtractError
        nodes_xy = {"X": "N1", "Y": "N2"}
        for which in ("start_node", "end_node"):
            st = repo.func(BASE, "Link.%s" % which, kind="setter")
            for s0 in "XY":
                for e0 in "XY":
                    for new in "XY":
                        lw = LinkWorld(repo)
                        try:
                            lw.call(lw.wn, "add_pipe", LINK_USER, nodes_xy[s0], nodes_xy[e0])
                            link = lw.store(lw.regs["_link_reg"])[LINK_USER]
                            lw.I.setattr_(link, which, lw.store(lw.regs["_node_reg"])[nodes_xy[new]])
                        except ProgramError as e:
                            raise ExtractError("R-C14-5s Link.%s = %s on %s->%s: the interpreted program raised %s" % (which, new, s0, e0, e))
                        held = {r[1] for r in lw.records() if r[0] == "_node_reg" and isinstance(r[2], tuple) and r[2][:1] == (LINK_USER,)}
                        res = {n: (nodes_xy[n] in held) for n in "XY"}
                        ends = {new, e0} if which == "start_node" else {s0, new}
                        want = {n: (n in ends) for n in "XY"}
                        chk.expect(res == want, "R-C14-5s",
                                   "Link.%s = %s on a link %s->%s leaves usage records exactly at the link's end nodes" % (which, new, s0, e0), loc(st),
                                   "interpreted on the repository's registries: usage[node] must contain the link iff the link starts or ends at node "
                                   "(get_links_for_node, remove_node's refusal and the mass balance rows read these records)", expected=want, found=res)
        chk.floor("R-C14-5s", 16)
        chk.floor("R-C14-5", 14 + 2 + 14 + 3 + 4)



WITNESSES = [
    dict(name="graph-edges-drawn-end-to-start", file="wntr/network/io.py", old="        G.add_edge(start_node, end_node, key=name)\n", new="        G.add_edge(end_node, start_node, key=name)\n", rule="R-C14-5"),
    dict(name="graph-built-from-the-name-lists-preserving", file="wntr/network/io.py", old="    for name, node in wn.nodes():\n        G.add_node(name)\n",
         new="    for name in wn.node_name_list:\n        node = wn.get_node(name)\n        G.add_node(name)\n", silent=True),
    # ---- refusal / atomicity histories (rule_refusals)
    dict(name="setter-adds-before-it-removes", file=ELEM, old="        self._curve_reg.remove_usage(self._vol_curve_name, (self._name, 'Tank'))\n        self._curve_reg.add_usage(name, (self._name, 'Tank'))\n",
         new="        self._curve_reg.add_usage(name, (self._name, 'Tank'))\n        self._curve_reg.remove_usage(self._vol_curve_name, (self._name, 'Tank'))\n", rule="R-C14-1c"),
    dict(name="remove-link-refusal-only-when-forced", file=MODEL, old="        link = self.get_link(name)\n        if not force:\n", new="        link = self.get_link(name)\n        if force:\n", rule="R-C14-4"),
    dict(name="duplicate-link-name-checked-after-construction", file=MODEL, old="        pipe = Pipe(name, start_node_name, end_node_name, self)\n", new="        pipe = Pipe(name, start_node_name, end_node_name, self)\n        if name in self._data:\n            raise ValueError('Link name already exists')\n",
         also=[('        if name in self._data:\n            raise ValueError("Link name already exists")\n        assert (\n            isinstance(start_node_name, str) and len(start_node_name) < 32 and start_node_name.find(" ") == -1\n        ), "start_node_name must be a string with less than 32 characters and contain no spaces"\n        assert (\n            isinstance(end_node_name, str) and len(end_node_name) < 32 and end_node_name.find(" ") == -1\n        ), "end_node_name must be a string with less than 32 characters and contain no spaces"\n        assert isinstance(length, (int, float)), "length must be a float"\n', '        assert (\n            isinstance(start_node_name, str) and len(start_node_name) < 32 and start_node_name.find(" ") == -1\n        ), "start_node_name must be a string with less than 32 characters and contain no spaces"\n        assert (\n            isinstance(end_node_name, str) and len(end_node_name) < 32 and end_node_name.find(" ") == -1\n        ), "end_node_name must be a string with less than 32 characters and contain no spaces"\n        assert isinstance(length, (int, float)), "length must be a float"\n')], rule="R-C14-6"),
    dict(name="quiet-duplicate-check-hoisted-into-local", file=MODEL, silent=True, old='        if name in self._data:\n            raise ValueError("Link name already exists")\n        assert (\n            isinstance(start_node_name, str) and len(start_node_name) < 32 and start_node_name.find(" ") == -1\n        ), "start_node_name must be a string with less than 32 characters and contain no spaces"\n        assert (\n            isinstance(end_node_name, str) and len(end_node_name) < 32 and end_node_name.find(" ") == -1\n        ), "end_node_name must be a string with less than 32 characters and contain no spaces"\n        assert isinstance(length, (int, float)), "length must be a float"\n',
         new='        taken = name in self._data\n        assert (\n            isinstance(start_node_name, str) and len(start_node_name) < 32 and start_node_name.find(" ") == -1\n        ), "start_node_name must be a string with less than 32 characters and contain no spaces"\n        assert (\n            isinstance(end_node_name, str) and len(end_node_name) < 32 and end_node_name.find(" ") == -1\n        ), "end_node_name must be a string with less than 32 characters and contain no spaces"\n        assert isinstance(length, (int, float)), "length must be a float"\n        if taken:\n            raise ValueError("Link name already exists")\n'),
    dict(name="duplicate-source-name-accepted", file=MODEL, old='        if name in self._sources:\n            raise ValueError("Source name already exists")\n', new="", rule="R-C14-6"),
    dict(name="controls-removed-before-refusal", file=MODEL, old="        self._node_reg.__delitem__(name)\n        if not force and with_control:\n            for i in x:\n                self.remove_control(i)\n",
         new="        if not force and with_control:\n            for i in x:\n                self.remove_control(i)\n        self._node_reg.__delitem__(name)\n", rule="R-C14-4b"),
    dict(name="usage-before-end-node-lookup", file=BASE, old="        self._end_node = self._node_reg[end_node_name]\n        # Register the link as a user of both nodes\n        self._node_reg.add_usage(start_node_name, (link_name, self.link_type))\n",
         new="        self._node_reg.add_usage(start_node_name, (link_name, self.link_type))\n        self._end_node = self._node_reg[end_node_name]\n", rule="R-C14-7"),
    dict(name="empty-pattern-not-released", file=MODEL, old="                    if pat is not None:  # an existing pattern without multipliers is falsy", new="                    if pat:", rule="R-C14-1e"),
    dict(name="usage-keyed-by-object", file=ELEM, old="            self._pattern_reg.add_usage(pattern_key, (self.name, 'Junction'))", new="            self._pattern_reg.add_usage(pattern_name, (self.name, 'Junction'))", rule="R-C14-1f"),
    dict(name="end-setter-unconditional-remove", file=BASE, old="        if self.end_node_name != self.start_node_name:  # otherwise the start of the link still uses that node\n            self._node_reg.remove_usage(self.end_node_name,",
         new="        if True:\n            self._node_reg.remove_usage(self.end_node_name,", rule="R-C14-5s"),
    dict(name="drop-discard-tanks", file=MODEL, old="            self._tanks.discard(key)\n", new="", rule="R-C14-3"),
    dict(name="new-subset-not-discarded", file=MODEL, old='        "_gpvs",\n        "_valves",', new='        "_gpvs",', rule="R-C14-3"),
    dict(name="mutation-before-refusal", file=MODEL,
         old="        try:\n            if self._usage and key in self._usage and len(self._usage[key]) > 0:\n                raise RuntimeError(\n                    \"cannot remove %s %s, still used by %s\" % (self.__class__.__name__, key, str(self._usage[key]))",
         new="        try:\n            self._junctions.discard(key)\n            if self._usage and key in self._usage and len(self._usage[key]) > 0:\n                raise RuntimeError(\n                    \"cannot remove %s %s, still used by %s\" % (self.__class__.__name__, key, str(self._usage[key]))",
         rule="R-C14-4"),
    dict(name="num-reads-other-set", file=MODEL, old="return len(self._link_reg.pump_names)", new="return len(self._link_reg.head_pump_names)", rule="R-C14-5"),
    dict(name="tank-curve-wrong-tag", file=ELEM, old="self._curve_reg.add_usage(name, (self._name, 'Tank'))", new="self._curve_reg.add_usage(name, (self._name, 'tank'))", rule="R-C14-1"),
    dict(name="inlet-from-link-reg", file=MODEL, old="link_data = self._node_reg.get_usage(node_name)", new="link_data = self._link_reg.get_usage(node_name)", rule="R-C14-5"),
    dict(name="end-node-setter-no-remove", file=BASE,
         old="            self._node_reg.remove_usage(self.end_node_name, (self._link_name, self.link_type))\n", new="            pass\n", rule="R-C14-5"),
    dict(name="refusal-swallowed", file=MODEL, old="            return link\n        except KeyError:", new="            return link\n        except (KeyError, RuntimeError):", rule="R-C14-4"),
    # ---- typed iterators: the rule follows what is iterated, not the if/elif-with-a-loop-per-branch shape
    dict(name="call-dispatch-wrong-set", file=MODEL, old="        elif node_type == Tank:\n            for node_name in self._tanks:\n",
         new="        elif node_type == Tank:\n            for node_name in self._junctions:\n", rule="R-C14-5"),
    dict(name="call-dispatch-foreign-object", file=MODEL, old="            for name in self._pumps:\n                yield name, self._data[name]\n        elif link_type == Valve:",
         new="            for name in self._pumps:\n                yield name, self._usage[name]\n        elif link_type == Valve:", rule="R-C14-5"),
    dict(name="call-all-iterates-subset", file=MODEL, old="        if link_type == None:\n            for name, node in self._data.items():\n                yield name, node\n",
         new="        if link_type == None:\n            for name in self._pipes:\n                yield name, self._data[name]\n", rule="R-C14-5"),
    dict(name="call-select-then-loop-wrong-set", file=MODEL,
         old="        elif link_type == Pipe:\n            for name in self._pipes:\n                yield name, self._data[name]\n        elif link_type == Pump:\n            for name in self._pumps:\n                yield name, self._data[name]\n        elif link_type == Valve:\n            for name in self._valves:\n                yield name, self._data[name]\n        else:\n            raise RuntimeError(\"link_type, \" + str(link_type) + \", not recognized.\")\n",
         new="            return\n        if link_type == Pipe:\n            typed = self._pipes\n        elif link_type == Pump:\n            typed = self._head_pumps\n        elif link_type == Valve:\n            typed = self._valves\n        else:\n            raise RuntimeError(\"link_type, \" + str(link_type) + \", not recognized.\")\n        for link_name in typed:\n            yield link_name, self._data[link_name]\n",
         rule="R-C14-5"),
    dict(name="call-select-then-loop-preserving", file=MODEL,
         old="        elif link_type == Pipe:\n            for name in self._pipes:\n                yield name, self._data[name]\n        elif link_type == Pump:\n            for name in self._pumps:\n                yield name, self._data[name]\n        elif link_type == Valve:\n            for name in self._valves:\n                yield name, self._data[name]\n        else:\n            raise RuntimeError(\"link_type, \" + str(link_type) + \", not recognized.\")\n",
         new="            return\n        if link_type == Pipe:\n            typed = self._pipes\n        elif link_type == Pump:\n            typed = self._pumps\n        elif link_type == Valve:\n            typed = self._valves\n        else:\n            raise RuntimeError(\"link_type, \" + str(link_type) + \", not recognized.\")\n        for link_name in typed:\n            yield link_name, self._data[link_name]\n",
         silent=True),
    dict(name="call-dict-dispatch-preserving", file=MODEL,
         old="        elif node_type == Junction:\n            for node_name in self._junctions:\n                yield node_name, self._data[node_name]\n        elif node_type == Tank:\n            for node_name in self._tanks:\n                yield node_name, self._data[node_name]\n        elif node_type == Reservoir:\n            for node_name in self._reservoirs:\n                yield node_name, self._data[node_name]\n        else:\n            raise RuntimeError(\"node_type, \" + str(node_type) + \", not recognized.\")\n",
         new="        else:\n            table = {Junction: self._junctions, Tank: self._tanks, Reservoir: self._reservoirs}\n            if node_type not in table:\n                raise RuntimeError(f\"node_type, {node_type}, not recognized.\")\n            yield from ((n, self._data[n]) for n in table[node_type])\n",
         silent=True),
    dict(name="typed-generator-delegates-preserving", file=MODEL, old="        for node_name in self._tanks:\n            yield node_name, self._data[node_name]\n\n",
         new="        obj = self._data\n        for node_name in list(self._tanks):\n            pair = (node_name, obj[node_name])\n            yield pair\n\n", silent=True),
    dict(name="typed-generator-via-call-preserving", file=MODEL, old="        for node_name in self._reservoirs:\n            yield node_name, self._data[node_name]\n\n",
         new="        return self(Reservoir)\n\n", silent=True),
    # ---- remove_node / remove_link: the registry deletion is recognised in every spelling
    dict(name="del-statement-preserving", file=MODEL, old="        self._node_reg.__delitem__(name)\n        if not force and with_control:\n            for i in x:\n                self.remove_control(i)\n",
         new="        del self._node_reg[name]\n        if not force and with_control:\n            for control_name in x:\n                self.remove_control(control_name)\n", silent=True),
    dict(name="del-through-alias-preserving", file=MODEL, old="        self._link_reg.__delitem__(name)\n        if not force and with_control:\n",
         new="        registry = self._link_reg\n        del registry[name]\n        if not force and with_control:\n", silent=True),
    dict(name="controls-removed-before-del-statement", file=MODEL, old="        self._link_reg.__delitem__(name)\n        if not force and with_control:\n            for i in x:\n                self.remove_control(i)\n",
         new="        if not force and with_control:\n            for i in x:\n                self.remove_control(i)\n        del self._link_reg[name]\n", rule="R-C14-4b"),
    dict(name="remove-node-deletes-from-other-registry", file=MODEL, old="        self._node_reg.__delitem__(name)\n        if not force and with_control:\n",
         new="        del self._link_reg[name]\n        if not force and with_control:\n", rule="R-C14-4"),
    # ---- R-C14-8: add -> remove histories per link class, interpreted; isinstance follows the real hierarchy
    dict(name="release-cascade-shadows-headpump", file=MODEL, old='            if isinstance(link, GPValve):\n                self._curve_reg.remove_usage(link.headloss_curve_name, (link.name, "Valve"))\n            if isinstance(link, Pump):\n                self._pattern_reg.remove_usage(link.speed_pattern_name, (link.name, "Pump"))\n            if isinstance(link, HeadPump):\n                self._curve_reg.remove_usage(link.pump_curve_name, (link.name, "Pump"))\n',
         new='            if isinstance(link, Pump):\n                self._pattern_reg.remove_usage(link.speed_pattern_name, (link.name, "Pump"))\n            elif isinstance(link, HeadPump):\n                self._curve_reg.remove_usage(link.pump_curve_name, (link.name, "Pump"))\n            elif isinstance(link, GPValve):\n                self._curve_reg.remove_usage(link.headloss_curve_name, (link.name, "Valve"))\n', rule="R-C14-8"),
    dict(name="release-gpv-curve-dropped", file=MODEL, old='            if isinstance(link, GPValve):\n                self._curve_reg.remove_usage(link.headloss_curve_name, (link.name, "Valve"))\n',
         new='            if isinstance(link, GPValve):\n                self._curve_reg.remove_usage(link.name, (link.headloss_curve_name, "Valve"))\n', rule="R-C14-8"),
    dict(name="release-by-exact-type-only", file=MODEL, old='            if isinstance(link, GPValve):\n                self._curve_reg.remove_usage(link.headloss_curve_name, (link.name, "Valve"))\n            if isinstance(link, Pump):\n                self._pattern_reg.remove_usage(link.speed_pattern_name, (link.name, "Pump"))\n            if isinstance(link, HeadPump):\n                self._curve_reg.remove_usage(link.pump_curve_name, (link.name, "Pump"))\n',
         new='            for klass in type(link).__mro__[:1]:\n                if klass is GPValve:\n                    self._curve_reg.remove_usage(link.headloss_curve_name, (link.name, "Valve"))\n                elif klass is Pump:\n                    self._pattern_reg.remove_usage(link.speed_pattern_name, (link.name, "Pump"))\n                elif klass is HeadPump:\n                    self._curve_reg.remove_usage(link.pump_curve_name, (link.name, "Pump"))\n', rule="R-C14-8"),
    dict(name="release-cascade-subclass-first-preserving", file=MODEL, old='            if isinstance(link, GPValve):\n                self._curve_reg.remove_usage(link.headloss_curve_name, (link.name, "Valve"))\n            if isinstance(link, Pump):\n                self._pattern_reg.remove_usage(link.speed_pattern_name, (link.name, "Pump"))\n            if isinstance(link, HeadPump):\n                self._curve_reg.remove_usage(link.pump_curve_name, (link.name, "Pump"))\n',
         new='            if isinstance(link, HeadPump):\n                self._curve_reg.remove_usage(link.pump_curve_name, (link.name, "Pump"))\n                self._pattern_reg.remove_usage(link.speed_pattern_name, (link.name, "Pump"))\n            elif isinstance(link, Pump):\n                self._pattern_reg.remove_usage(link.speed_pattern_name, (link.name, "Pump"))\n            elif isinstance(link, GPValve):\n                self._curve_reg.remove_usage(link.headloss_curve_name, (link.name, "Valve"))\n', silent=True),
    dict(name="release-nested-subclass-test-preserving", file=MODEL, old='            if isinstance(link, GPValve):\n                self._curve_reg.remove_usage(link.headloss_curve_name, (link.name, "Valve"))\n            if isinstance(link, Pump):\n                self._pattern_reg.remove_usage(link.speed_pattern_name, (link.name, "Pump"))\n            if isinstance(link, HeadPump):\n                self._curve_reg.remove_usage(link.pump_curve_name, (link.name, "Pump"))\n',
         new='            if isinstance(link, Pump):\n                self._pattern_reg.remove_usage(link.speed_pattern_name, (link.name, "Pump"))\n                if isinstance(link, HeadPump):\n                    self._curve_reg.remove_usage(link.pump_curve_name, (link.name, "Pump"))\n            elif isinstance(link, GPValve):\n                self._curve_reg.remove_usage(link.headloss_curve_name, (link.name, "Valve"))\n', silent=True),
    dict(name="release-mro-dispatch-preserving", file=MODEL, old='            if isinstance(link, GPValve):\n                self._curve_reg.remove_usage(link.headloss_curve_name, (link.name, "Valve"))\n            if isinstance(link, Pump):\n                self._pattern_reg.remove_usage(link.speed_pattern_name, (link.name, "Pump"))\n            if isinstance(link, HeadPump):\n                self._curve_reg.remove_usage(link.pump_curve_name, (link.name, "Pump"))\n',
         new='            for klass in type(link).__mro__:\n                if klass is GPValve:\n                    self._curve_reg.remove_usage(link.headloss_curve_name, (link.name, "Valve"))\n                elif klass is Pump:\n                    self._pattern_reg.remove_usage(link.speed_pattern_name, (link.name, "Pump"))\n                elif klass is HeadPump:\n                    self._curve_reg.remove_usage(link.pump_curve_name, (link.name, "Pump"))\n', silent=True),
    # ---- typed-set filing, refusal and usage pairing are decided on interpreted histories / with temporaries resolved
    dict(name="setitem-class-table-preserving", file=MODEL, old='        if isinstance(value, Junction):\n            self._junctions.add(key)\n        elif isinstance(value, Tank):\n            self._tanks.add(key)\n        elif isinstance(value, Reservoir):\n            self._reservoirs.add(key)\n',
         new='        for node_class, typed_set in ((Junction, "_junctions"), (Tank, "_tanks"), (Reservoir, "_reservoirs")):\n            if isinstance(value, node_class):\n                getattr(self, typed_set).add(key)\n                break\n', silent=True),
    dict(name="setitem-subclass-table-preserving", file=MODEL, old='        elif isinstance(value, Pump):\n            self._pumps.add(key)\n            if isinstance(value, HeadPump):\n                self._head_pumps.add(key)\n            elif isinstance(value, PowerPump):\n                self._power_pumps.add(key)\n',
         new='        elif isinstance(value, Pump):\n            self._pumps.add(key)\n            for sub_class, sub_set in ((HeadPump, "_head_pumps"), (PowerPump, "_power_pumps")):\n                if isinstance(value, sub_class):\n                    getattr(self, sub_set).add(key)\n                    break\n', silent=True),
    dict(name="setitem-class-table-wrong-set", file=MODEL, old='        if isinstance(value, Junction):\n            self._junctions.add(key)\n        elif isinstance(value, Tank):\n            self._tanks.add(key)\n        elif isinstance(value, Reservoir):\n            self._reservoirs.add(key)\n',
         new='        for node_class, typed_set in ((Junction, "_junctions"), (Tank, "_junctions"), (Reservoir, "_reservoirs")):\n            if isinstance(value, node_class):\n                getattr(self, typed_set).add(key)\n                break\n', rule="R-C14-5"),
    dict(name="setitem-cascade-shadows-subclass", file=MODEL, old='        elif isinstance(value, Pump):\n            self._pumps.add(key)\n            if isinstance(value, HeadPump):\n                self._head_pumps.add(key)\n            elif isinstance(value, PowerPump):\n                self._power_pumps.add(key)\n',
         new='        elif isinstance(value, Pump):\n            self._pumps.add(key)\n        elif isinstance(value, HeadPump):\n            self._head_pumps.add(key)\n        elif isinstance(value, PowerPump):\n            self._power_pumps.add(key)\n', rule="R-C14-5"),
    dict(name="refusal-guard-flattened-preserving", file=MODEL, old='            if self._usage and key in self._usage and len(self._usage[key]) > 0:\n                raise RuntimeError(\n                    "cannot remove %s %s, still used by %s" % (self.__class__.__name__, key, str(self._usage[key]))\n                )\n            elif key in self._usage:\n                self._usage.pop(key)\n            node = self._data.pop(key)\n',
         new='            if key in self._usage:\n                users = self._usage[key]\n                if len(users) > 0:\n                    raise RuntimeError(\n                        "cannot remove %s %s, still used by %s" % (self.__class__.__name__, key, str(users))\n                    )\n                self._usage.pop(key)\n            node = self._data.pop(key)\n', silent=True),
    dict(name="refusal-guard-flattened-base-preserving", file=BASE, old="            if self._usage and key in self._usage and len(self._usage[key]) > 0:\n                raise RuntimeError('cannot remove %s %s, still used by %s', \n                                   self.__class__.__name__,\n                                   key,\n                                   self._usage[key])\n            elif key in self._usage:\n                self._usage.pop(key)\n            return self._data.pop(key)\n",
         new="            if key in self._usage:\n                users = self._usage[key]\n                if len(users) > 0:\n                    raise RuntimeError('cannot remove %s %s, still used by %s', self.__class__.__name__, key, users)\n                self._usage.pop(key)\n            return self._data.pop(key)\n", silent=True),
    dict(name="refusal-guard-off-by-one", file=MODEL, old='            if self._usage and key in self._usage and len(self._usage[key]) > 0:\n                raise RuntimeError(\n                    "cannot remove %s %s, still used by %s" % (self.__class__.__name__, key, str(self._usage[key]))\n                )\n            elif key in self._usage:\n                self._usage.pop(key)\n            node = self._data.pop(key)\n',
         new='            if key in self._usage:\n                users = self._usage[key]\n                if len(users) > 1:\n                    raise RuntimeError(\n                        "cannot remove %s %s, still used by %s" % (self.__class__.__name__, key, str(users))\n                    )\n                self._usage.pop(key)\n            node = self._data.pop(key)\n', rule="R-C14-4"),
    dict(name="refusal-after-pop", file=BASE, old="            if self._usage and key in self._usage and len(self._usage[key]) > 0:\n                raise RuntimeError('cannot remove %s %s, still used by %s', \n                                   self.__class__.__name__,\n                                   key,\n                                   self._usage[key])\n            elif key in self._usage:\n                self._usage.pop(key)\n            return self._data.pop(key)\n",
         new="            element = self._data.pop(key)\n            if key in self._usage:\n                users = self._usage[key]\n                if len(users) > 0:\n                    raise RuntimeError('cannot remove %s %s, still used by %s', self.__class__.__name__, key, users)\n                self._usage.pop(key)\n            return element\n", rule="R-C14-4"),
    dict(name="setter-usage-entry-in-local-preserving", file=ELEM, old="        self._curve_reg.remove_usage(self._vol_curve_name, (self._name, 'Tank'))\n        self._curve_reg.add_usage(name, (self._name, 'Tank'))\n",
         new="        user = (self._name, 'Tank')\n        self._curve_reg.remove_usage(self._vol_curve_name, user)\n        self._curve_reg.add_usage(name, user)\n", silent=True),
    dict(name="end-node-setter-locals-preserving", file=BASE, old='        if self.start_node_name != self.end_node_name:  # otherwise the end of the link still uses that node\n            self._node_reg.remove_usage(self.start_node_name, (self._link_name, self.link_type))\n        self._node_reg.add_usage(node.name, (self._link_name, self.link_type))\n',
         new='        user = (self._link_name, self.link_type)\n        old_name = self.start_node_name\n        if old_name != self.end_node_name:\n            self._node_reg.remove_usage(old_name, user)\n        self._node_reg.add_usage(node.name, user)\n', silent=True),
    dict(name="setter-usage-entry-in-local-wrong-tag", file=ELEM, old="        self._curve_reg.remove_usage(self._vol_curve_name, (self._name, 'Tank'))\n        self._curve_reg.add_usage(name, (self._name, 'Tank'))\n",
         new="        user = (self._name, 'tank')\n        self._curve_reg.remove_usage(self._vol_curve_name, user)\n        self._curve_reg.add_usage(name, user)\n", rule="R-C14-1"),
    dict(name="remove-usage-raises-on-absent-record", file=BASE, old='        if not key or key not in self._usage:\n            return\n        for arg in args:\n            self._usage[key].discard(arg)\n',
         new='        if not key:\n            return\n        for arg in args:\n            self._usage[key].discard(arg)\n', rule="R-C14-2"),
    dict(name="call-class-table-getattr-preserving", file=MODEL, old='        elif node_type == Junction:\n            for node_name in self._junctions:\n                yield node_name, self._data[node_name]\n        elif node_type == Tank:\n            for node_name in self._tanks:\n                yield node_name, self._data[node_name]\n        elif node_type == Reservoir:\n            for node_name in self._reservoirs:\n                yield node_name, self._data[node_name]\n        else:\n            raise RuntimeError("node_type, " + str(node_type) + ", not recognized.")\n',
         new='            return\n        for node_class, subset in self._subset_by_class:\n            if node_type == node_class:\n                for node_name in getattr(self, subset):\n                    yield node_name, self._data[node_name]\n                return\n        raise RuntimeError("node_type, " + str(node_type) + ", not recognized.")\n', also=[('    def __call__(self, node_type=None):\n', '    _subset_by_class = ((Junction, "_junctions"), (Tank, "_tanks"), (Reservoir, "_reservoirs"))\n\n    def __call__(self, node_type=None):\n')], silent=True),
    dict(name="call-class-table-getattr-swapped", file=MODEL, old='        elif node_type == Junction:\n            for node_name in self._junctions:\n                yield node_name, self._data[node_name]\n        elif node_type == Tank:\n            for node_name in self._tanks:\n                yield node_name, self._data[node_name]\n        elif node_type == Reservoir:\n            for node_name in self._reservoirs:\n                yield node_name, self._data[node_name]\n        else:\n            raise RuntimeError("node_type, " + str(node_type) + ", not recognized.")\n',
         new='            return\n        for node_class, subset in self._subset_by_class:\n            if node_type == node_class:\n                for node_name in getattr(self, subset):\n                    yield node_name, self._data[node_name]\n                return\n        raise RuntimeError("node_type, " + str(node_type) + ", not recognized.")\n', also=[('    def __call__(self, node_type=None):\n', '    _subset_by_class = ((Junction, "_junctions"), (Tank, "_reservoirs"), (Reservoir, "_tanks"))\n\n    def __call__(self, node_type=None):\n')], rule="R-C14-5"),
    dict(name="rename-local-preserving", file=MODEL, old="            node = self._data.pop(key)\n            self._junctions.discard(key)",
         new="            node = self._data.pop(key)\n            self._junctions.discard(key)\n            _n = node", silent=True),
]
