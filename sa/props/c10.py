"""C10 -- pausing, pickling and restarting a simulation equals running it uninterrupted.

Necessary structural clause: every piece of state the time-stepping loop carries from one iteration to the next is either kept in
the model (plain picklable attributes) or re-derived from the model when a new simulator starts; nothing loop-carried is reset to a
constant on a continued run.

Techniques (DESIGN 2b): R-C10-1, -1b, -2, -4 are T1 structural (write sets over the self-call closure of the loop, reaching
definitions, CFG must-pass / dominance, sibling agreement), with these text-level parts: "reads the model" is a substring test for
self._wn / wn on the unparsed value; R-C10-2 inspects EVERY class of the model modules (base, elements, model, controls, options, ordered_set: the pickled
object graph) for pickling / copying hooks and __slots__, and compares __getnewargs__ with __new__ by name prefix; R-C10-4 recognises the status test by its unparsed text and
compares only the SETS of the other atoms of the two guards.  R-C10-3 is T3: the defining slices of the first-step flag, the clock
arithmetic and the exit tests are evaluated by sa/peval on a dozen concrete probes (bounded to them), plus two CFG dominance facts.
R-C10-5 is T3: the prologue slice defining the rule clock is evaluated on 9 (prev_sim_time, rule_timestep) pairs and 8 fresh-run states.
R-C10-6 is T2 (c04.registration_rules): path enumeration of _get_control_managers with the control type fixed; registrations must agree on all paths.
"""
import ast
import copy

from ..src import walk, calls, call_name, last_attr, dotted, norm, loc, const, AnchorError, ExtractError, parent, unparse
from ..cfg import CFG
from ..effects import Universe, writes
from ..peval import Evaluator, Obj, Unknown, Raised

CORE = "wntr/sim/core.py"
HYD = "wntr/sim/hydraulics.py"
MODEL = "wntr/network/model.py"
BASE = "wntr/network/base.py"
ELEM = "wntr/network/elements.py"
CTRL = "wntr/network/controls.py"
OPTS = "wntr/network/options.py"

EXPLANATION = (
    "Static state inventory of the restart path. R-C10-1 (structural, T1: write sets over the methods the loop calls + reaching definitions; "
    "first-step guards resolved by evaluating the test on 3 states): for each self.X assigned inside run_sim's while loop or a method called from "
    "it, the definition reaching the loop on a continued run (sim_time != 0) must mention the model (substring test self._wn / wn), not be a "
    "constant / empty container. R-C10-1b (T1: CFG must-pass / dominators, def-use): each loop-carried local of run_sim is model-derived, holds "
    "its initial constant at every time advance, or is re-assigned before use. R-C10-2 (T1, AST presence/absence): every class of the model modules "
    "(the pickled object graph; derived from the source) defines no __slots__/__getstate__/__reduce__/__copy__ hooks; "
    "ValueCondition.__getnewargs__ names match __new__'s parameters by prefix; prologue stores and the two prologue calls touching model state sit "
    "under the first-step guard. R-C10-3 (T3, finite evaluation of the defining slices by sa/peval on 7 clocks and 12 (clock, step, duration) "
    "triples -- bounded to these probes; plus T1 dominance): the first-step flag is true exactly when sim_time == 0, each clock exit is taken iff "
    "sim_time > duration, the advance lands on the hydraulic grid, the normal exit is dominated by an advance and every advance by a call of "
    "update_network_previous_values. R-C10-4 (T1 sibling agreement; status test found by its text): _initialize_internal_graph and "
    "_update_internal_graph guard a link's connectivity bit with the same set of non-status atoms. R-C10-5 (T3, finite evaluation by sa/peval of "
    "the prologue slice that defines the rule clock -- the simulator attribute the loop multiplies with rule_timestep -- on 9 (prev_sim_time, "
    "rule_timestep) pairs on and off the rule grid, bounded to them): on a continued run clock * rule_timestep is the smallest rule instant strictly "
    "after the last accepted solution (clock == prev_sim_time // rule_timestep + 1), on a fresh run the clock is 1. R-C10-6 (T2 path enumeration of "
    "_get_control_managers, shared with C04): every control drawn from wn.controls() and the internal families is registered in the checker of its type on every "
    "path -- nothing but the control's type (in particular not the clock at restart) decides whether a new simulator knows a control. "
    "Decides this inventory, not numerical equality of the results.")
RULE_TEXT = ("one instance = one loop-carried simulator attribute / local, one model class carrying run-time state, one prologue store, "
             "one exit path; distinct = distinct constructs")
ASSUMPTIONS = [
    "state kept outside WNTRSimulator attributes, run_sim locals and model attributes (e.g. module globals) does not exist in wntr/sim/core.py (module-level assignments are inventoried)",
    "an assignment 'reads the model' if its right-hand side, or the prologue callee it sits in, mentions self._wn / wn; that the derivation is the right one is not decided",
    "R-C10-3 evaluates the clock arithmetic written in run_sim itself (assignments, with their if-structure); clock changes made inside callees of the loop "
    "(_compute_next_timestep_and_run_presolve_controls_and_rules backtracking to a control time) happen before the advance and are not part of it",
    "the flag, clock and exit semantics are checked on finitely many probe values (clocks 0, 0.0, 1, 3600, -1, 86400; whole and partial steps; durations on and off the grid)",
    "R-C10-3 checks that update_network_previous_values dominates every advance; that nothing else stores results or changes state between the advance and the exit test is not decided",
    "R-C10-4 compares the sets of atoms (unparsed text) of the two guards, not their truth tables",
    "R-C10-5 decides the value the prologue stores into the rule clock on the probed (prev_sim_time, rule_timestep) pairs (integers; sim_time = prev_sim_time + 3600 on "
    "the continued path); that wn._prev_sim_time is the time of the last accepted solution is the contract of update_network_previous_values and is not re-decided here",
]

INVARIANT = {
    # attribute: reason why a constant definition is fine although the loop touches it -- each confirmed by reading
}


def self_assigns(fn):
    """self attribute -> plain assignments self.a = value"""
    out = {}
    for n in walk(fn, skip_nested=False):
        if isinstance(n, (ast.Assign, ast.AnnAssign)):
            for t in (n.targets if isinstance(n, ast.Assign) else [n.target]):
                for e in (t.elts if isinstance(t, (ast.Tuple, ast.List)) else [t]):
                    if isinstance(e, ast.Attribute) and isinstance(e.value, ast.Name) and e.value.id == "self":
                        out.setdefault(e.attr, []).append(n)
    return out


def self_stores(fn):
    """self attribute -> statements that assign it or mutate the object behind it (self.a = .., self.a.b[i] = .., self.a.add(..))."""
    out = {}
    for recv, attr, aexpr, via, node in writes(fn):
        chain = []
        e = recv
        while isinstance(e, (ast.Attribute, ast.Subscript)):
            if isinstance(e, ast.Attribute):
                chain.append(e.attr)
            e = e.value
        if isinstance(e, ast.Name) and e.id == "self":
            first = chain[-1] if chain else attr
            if first is not None and first not in ("_wn", "wn"):      # state written into the model is kept by the model (R-C10-2)
                out.setdefault(first, []).append(node)
    # local aliases of simulator state: data = self._internal_graph.data; data[i] = v
    alias = {}
    for n in walk(fn, skip_nested=False):
        if isinstance(n, ast.Assign) and len(n.targets) == 1 and isinstance(n.targets[0], ast.Name):
            d = dotted(n.value)
            if d and d.startswith("self.") and d.split(".")[1] not in ("_wn", "wn"):
                alias[n.targets[0].id] = d.split(".")[1]
    for n in walk(fn, skip_nested=False):
        tg = n.targets if isinstance(n, ast.Assign) else ([n.target] if isinstance(n, ast.AugAssign) else [])
        for t in tg:
            if isinstance(t, ast.Subscript) and isinstance(t.value, ast.Name) and t.value.id in alias:
                out.setdefault(alias[t.value.id], []).append(n)
        # state-changing method calls on simulator-owned objects: self._change_tracker.reset_reference_point(..)
        if isinstance(n, ast.Call) and isinstance(n.func, ast.Attribute):
            d = dotted(n.func.value)
            verb = n.func.attr
            if d and d.startswith("self.") and d.count(".") == 1 and d.split(".")[1] not in ("_wn", "wn") and (
                    verb.startswith(("set_", "reset_", "remove_", "register", "deregister")) or verb in ("update", "clear")):
                out.setdefault(d.split(".")[1], []).append(n)
    return out


def self_method_calls(node):
    return [c.func.attr for c in calls(node) if isinstance(c.func, ast.Attribute) and isinstance(c.func.value, ast.Name) and c.func.value.id == "self"]


def closure(cls_methods, names):
    seen, todo = set(), list(names)
    while todo:
        n = todo.pop()
        if n in seen or n not in cls_methods:
            continue
        seen.add(n)
        todo += self_method_calls(cls_methods[n])
    return seen


def mentions_model(expr):
    t = unparse(expr)
    return "self._wn" in t or "self.wn" in t or (isinstance(expr, ast.AST) and any(isinstance(x, ast.Name) and x.id == "wn" for x in ast.walk(expr)))


def is_constant_value(v):
    """constant, empty container or bare constructor call without arguments."""
    if isinstance(v, ast.Constant):
        return True
    if isinstance(v, (ast.List, ast.Tuple, ast.Dict, ast.Set)) and not getattr(v, "elts", getattr(v, "keys", [])):
        return True
    if isinstance(v, ast.Call) and not v.args and not v.keywords:
        return True
    if isinstance(v, ast.UnaryOp) and isinstance(v.operand, ast.Constant):
        return True
    return False


# ------------------------------------------------------------------ a small concrete machine for the time/flag arithmetic of run_sim
# The facts R-C10-3 / the first-step guards decide are facts about VALUES (is the flag true exactly when sim_time == 0? where does
# the advance put sim_time?  when does the loop stop?), so they are decided by evaluating the relevant slice of the source on a finite set of
# model states with sa/peval.py -- not by matching the text of today's statements.
FREE_PROBES = (None, 0, -1, 3600)


def _machine(sim_time, duration=36000, hyd=3600, free=None, env=None, time_attrs=None, wn_attrs=None):
    """evaluator over an abstract simulator: self._wn.sim_time, self._wn.options.time.duration/hydraulic_timestep, self._hydraulic_timestep are
    concrete; any other attribute of self / self._wn is a FREE input (value from `free`, default None) and its read is recorded."""
    reads = []
    tm = Obj("wn.options.time", {"duration": duration, "hydraulic_timestep": hyd})
    tm.attrs.update(time_attrs or {})
    wn = Obj("wn", {"sim_time": sim_time, "options": Obj("wn.options", {"time": tm})})
    wn.attrs.update(wn_attrs or {})
    me = Obj("self", {"_wn": wn, "_hydraulic_timestep": hyd})

    def attr_hook(base, attr):
        if isinstance(base, Obj) and base.name in ("wn", "self") and attr not in base.attrs:
            key = base.name + "." + attr
            if key not in reads:
                reads.append(key)
            return (free or {}).get(key)
        return NotImplemented

    def call_hook(name, node, ev):
        if name == "bool" and len(node.args) == 1 and not node.keywords:
            return bool(ev.truth(ev.ev(node.args[0])))
        if name in ("math.floor", "np.floor", "numpy.floor", "math.ceil", "np.ceil", "numpy.ceil", "math.trunc", "np.trunc", "numpy.trunc") \
                and len(node.args) == 1 and not node.keywords:
            import math
            v = ev.ev(node.args[0])
            if isinstance(v, (int, float)) and not isinstance(v, bool):
                r = getattr(math, name.split(".")[1])(v)
                return r if name.startswith("math.") else float(r)       # numpy returns a float
        return NotImplemented
    e = {"self": me}
    e.update(env or {})
    return Evaluator(env=e, call=call_hook, attr=attr_hook), wn, reads


def _flat_targets(s):
    tg = s.targets if isinstance(s, ast.Assign) else [s.target]
    out = []
    for t in tg:
        out += list(t.elts) if isinstance(t, (ast.Tuple, ast.List)) else [t]
    return out


def _read_texts(node):
    """names and dotted attribute chains (with all their prefixes) read in an expression."""
    out = set()
    for x in ast.walk(node):
        if isinstance(x, ast.Name):
            out.add(x.id)
        elif isinstance(x, ast.Attribute):
            d = dotted(x)
            if d:
                out.add(d)
    return out


def backward_slice(stmts, wanted):
    """the assignments (with their enclosing if-structure) of a statement list on which the values named in `wanted` (local names / dotted
    attribute paths) depend -> (sliced statements, names wanted before the list).  Calls made for their effect are not followed (new private
    helpers are inlined by the normaliser before we get here); loops that assign a wanted name are outside the fragment."""
    wanted = set(wanted)
    out = []
    for s in reversed(stmts):
        if isinstance(s, (ast.Assign, ast.AugAssign, ast.AnnAssign)):
            if isinstance(s, ast.AnnAssign) and s.value is None:
                continue
            tt = [dotted(t) or unparse(t) for t in _flat_targets(s)]
            if any(t in wanted for t in tt):
                out.append(s)
                if isinstance(s, ast.Assign) and len(tt) == 1 and isinstance(s.targets[0], ast.Name):
                    wanted.discard(tt[0])            # a plain assignment of a local kills the earlier definitions
                wanted |= _read_texts(s.value)
                if isinstance(s, ast.AugAssign):
                    wanted |= _read_texts(s.target)
        elif isinstance(s, ast.If):
            b, wb = backward_slice(s.body, wanted)
            o, wo = backward_slice(s.orelse, wanted)
            if b or o:
                n = ast.If(test=s.test, body=b or [ast.Pass()], orelse=o)
                ast.copy_location(n, s)
                out.append(n)
                wanted = wanted | wb | wo | _read_texts(s.test)
        elif isinstance(s, (ast.For, ast.While, ast.With, ast.Try)):
            for x in walk(s):
                if isinstance(x, (ast.Assign, ast.AugAssign, ast.AnnAssign)) and any((dotted(t) or unparse(t)) in wanted for t in _flat_targets(x)):
                    raise ExtractError("line %s: %s is assigned inside a loop/with/try block (outside the evaluated fragment)" % (
                        getattr(x, "lineno", "?"), [dotted(t) or unparse(t) for t in _flat_targets(x)]))
    out.reverse()
    return out, wanted


def flag_rows(sl, flag, times=(0, 0.0, 1, 3600, 3600.0, -1, 86400)):
    """truth of local `flag` after running the slice, for every probed sim_time and every value of the free inputs the slice reads
    -> ([(sim_time, free assignment, truth)], free input names)."""
    import itertools
    free_names = []
    while True:
        rows, n0 = [], len(free_names)
        for t in times:
            for combo in itertools.product(FREE_PROBES, repeat=len(free_names)):
                fr = dict(zip(free_names, combo))
                ev, wn, reads = _machine(t, free=fr)
                try:
                    ev.run(sl)
                except Raised:
                    continue
                for r in reads:
                    if r not in free_names:
                        free_names.append(r)
                if flag not in ev.env:
                    raise ExtractError("local %s has no value on some path of its defining slice (sim_time=%r)" % (flag, t))
                rows.append((t, fr, bool(ev.truth(ev.env[flag]))))
        if len(free_names) == n0:
            return rows, free_names
        if len(free_names) > 3:
            raise ExtractError("the definition of %s reads more than 3 further inputs: %s" % (flag, free_names))


class FirstStep(object):
    """polarity of guards with respect to the one-shot first-step flag (whatever its name), decided by evaluation: a test is a 'first' guard if
    it is true in the state (flag True, sim_time 0) and false in (flag False, sim_time > 0), reading nothing else."""

    def __init__(self, flag):
        self.flag = flag

    def polarity(self, test):
        vals = []
        for fs, t in ((True, 0), (False, 3600), (False, 3600.0 * 7)):
            ev, wn, reads = _machine(t, env={self.flag: fs})
            try:
                v = bool(ev.truth(ev.ev(test)))
            except (Unknown, Raised, TypeError, ZeroDivisionError):
                return 0
            if reads:
                return 0
            vals.append(v)
        return 1 if vals == [True, False, False] else -1 if vals == [False, True, True] else 0

    def guard_of(self, stmt, root):
        """'first' / 'notfirst' / None: polarity of the nearest enclosing guard equivalent to the flag or to its negation."""
        q = stmt
        while q is not None and q is not root:
            p = parent(q)
            if isinstance(p, ast.If) and (q in p.body or q in p.orelse):
                pol = self.polarity(p.test)
                if pol:
                    return "first" if (q in p.body) == (pol == 1) else "notfirst"
            elif isinstance(p, ast.IfExp) and (q is p.body or q is p.orelse):
                pol = self.polarity(p.test)
                if pol:
                    return "first" if (q is p.body) == (pol == 1) else "notfirst"
            q = p
        return None

    def continued_value(self, v):
        """the sub-expression a conditional expression selects on a continued run."""
        while isinstance(v, ast.IfExp):
            pol = self.polarity(v.test)
            if pol == 0:
                break
            v = v.orelse if pol == 1 else v.body
        return v

    def reaching(self, stmts, defs, where, call_defs):
        """definitions of self.<attr> that reach the end of `stmts` on a continued run (first-step guards partially evaluated; a later
        unconditional assignment kills the earlier ones; method calls add the assignments of their callees as may-definitions)."""
        for s in stmts:
            if isinstance(s, ast.If):
                pol = self.polarity(s.test)
                if pol == 1:
                    self.reaching(s.orelse, defs, where, call_defs)
                elif pol == -1:
                    self.reaching(s.body, defs, where, call_defs)
                else:
                    d1 = {k: list(v) for k, v in defs.items()}
                    d2 = {k: list(v) for k, v in defs.items()}
                    self.reaching(s.body, d1, where, call_defs)
                    self.reaching(s.orelse, d2, where, call_defs)
                    _merge(defs, d1, d2)
                continue
            if isinstance(s, (ast.For, ast.While, ast.With, ast.Try)):
                d1 = {k: list(v) for k, v in defs.items()}
                inner = list(s.body) + list(getattr(s, "orelse", [])) + list(getattr(s, "finalbody", []))
                for h in getattr(s, "handlers", []):
                    inner += h.body
                self.reaching(inner, d1, where, call_defs)
                _merge(defs, {k: list(v) for k, v in defs.items()}, d1)
                continue
            if isinstance(s, (ast.FunctionDef, ast.ClassDef)):
                continue
            for m in self_method_calls(s):
                for a, lst in call_defs(m).items():
                    defs.setdefault(a, [])
                    defs[a] = defs[a] + [d for d in lst if not any(d[1] is e[1] for e in defs[a])]
            if isinstance(s, (ast.Assign, ast.AnnAssign)) and getattr(s, "value", None) is not None:
                for e in _flat_targets(s):
                    if isinstance(e, ast.Attribute) and isinstance(e.value, ast.Name) and e.value.id == "self":
                        defs[e.attr] = [(where, s)]


def _merge(defs, d1, d2):
    for k in set(d1) | set(d2):
        seen = []
        for d in d1.get(k, []) + d2.get(k, []):
            if not any(d[1] is e[1] for e in seen):
                seen.append(d)
        defs[k] = seen


def encoding_guards(fn, closed_test_polarity):
    """the `if` statements that decide, from a link status, which connectivity bit (0 / 1) is stored in a container -- found by following control
    AND data dependences back from the stores, so the container may have any name and the bit may travel through temporaries
    (`val = 0 if closed else 1; vals.append(val)`, `entry = f(link); if entry == 1: data[i] = 1`)."""
    defs = {}
    for n in walk(fn):
        if isinstance(n, (ast.Assign, ast.AnnAssign, ast.AugAssign)) and getattr(n, "value", None) is not None:
            for t in _flat_targets(n):
                if isinstance(t, ast.Name):
                    defs.setdefault(t.id, []).append(n)

    def bit(x, depth=0):
        x = x.body if isinstance(x, ast.IfExp) and bit(x.body, depth + 1) and bit(x.orelse, depth + 1) else x
        if isinstance(x, ast.Constant):
            return type(x.value) is int and x.value in (0, 1)
        if isinstance(x, ast.Name) and depth < 3 and x.id in defs:
            return all(isinstance(d, ast.Assign) and len(d.targets) == 1 and bit(d.value, depth + 1) for d in defs[x.id])
        return False
    stores = []
    for n in walk(fn):
        if isinstance(n, ast.Call) and isinstance(n.func, ast.Attribute) and n.func.attr == "append" and len(n.args) == 1 and bit(n.args[0]):
            stores.append((n, n.args[0]))
        if isinstance(n, ast.Assign) and isinstance(n.targets[0], ast.Subscript) and bit(n.value):
            stores.append((n, n.value))
    guards, seen_names, todo = [], set(), []

    def controls(node):
        q = node
        while q is not None and q is not fn:
            p = parent(q)
            if isinstance(p, ast.If) and (q in p.body or q in p.orelse) and p not in guards:
                guards.append(p)
                todo.extend(x.id for x in ast.walk(p.test) if isinstance(x, ast.Name))
            q = p
    for n, v in stores:
        controls(n)
        todo.extend(x.id for x in ast.walk(v) if isinstance(x, ast.Name))
        for x in ast.walk(v):
            if isinstance(x, ast.IfExp):
                guards.append(x)
    while todo:
        nm = todo.pop()
        if nm in seen_names or nm not in defs:
            continue
        seen_names.add(nm)
        for d in defs[nm]:
            if bit(d.value) or isinstance(d.value, ast.Compare):      # only the bit (and tests on it) is followed, not index arithmetic
                controls(d)
                for x in ast.walk(d.value):
                    if isinstance(x, ast.IfExp):
                        guards.append(x)
                    if isinstance(x, ast.Name):
                        todo.append(x.id)
    out = [gd for gd in guards if any(closed_test_polarity(x) != 0 for x in ast.walk(gd.test))]
    out.sort(key=lambda gd: (getattr(gd, "lineno", 0), getattr(gd, "col_offset", 0)))
    return out


def find_flag(prologue, loop):
    """the one-shot flag of the time loop, identified by its role: a local defined before the loop whose only assignments inside the loop
    set it to False (true at most until the first accepted step)."""
    pro_locals = set()
    for n in walk(ast.Module(body=prologue, type_ignores=[])):
        if isinstance(n, ast.Assign):
            pro_locals |= {t.id for t in _flat_targets(n) if isinstance(t, ast.Name)}
    inloop = {}
    for n in walk(ast.Module(body=loop.body, type_ignores=[])):
        if isinstance(n, (ast.Assign, ast.AugAssign, ast.AnnAssign)):
            for t in _flat_targets(n):
                if isinstance(t, ast.Name):
                    inloop.setdefault(t.id, []).append(n)
    cand = sorted(nm for nm, sts in inloop.items() if nm in pro_locals and all(isinstance(s, ast.Assign) and const(s.value, 0) is False for s in sts))
    if len(cand) == 1:
        return cand[0]
    if "first_step" in pro_locals:
        return "first_step"
    raise ExtractError("run_sim: the one-shot first-step flag was not found (candidates: %s)" % cand)


def _canonical_time_loop(loop):
    """`while COND: BODY` (COND not the constant True, no else) is read as `while True: if not (COND): break; BODY; if not (COND): break` -- the form run_sim has on
    the pinned tree (a head exit for a run that has nothing left to do, an exit after the time advance).  The two forms are the same loop: after BODY control
    returns to the head, where COND is evaluated; evaluating it once more at the end of BODY changes nothing as long as COND only reads state (it is built from
    attribute reads and comparisons here).  Done on the parsed tree of this run only."""
    t = loop.test
    if (isinstance(t, ast.Constant) and t.value is True) or loop.orelse:
        return
    if any(isinstance(n, (ast.Call, ast.NamedExpr, ast.Await, ast.Yield)) for n in ast.walk(t)):
        return                     # a condition that calls something may have effects: left as it is (the exit analysis then reports what it cannot see)

    def guard():
        g_ = ast.If(test=ast.UnaryOp(op=ast.Not(), operand=copy.deepcopy(t)), body=[ast.Break()], orelse=[])
        ast.copy_location(g_, loop)
        ast.fix_missing_locations(g_)
        for n in ast.walk(g_):
            for c in ast.iter_child_nodes(n):
                if not isinstance(c, (ast.expr_context, ast.operator, ast.unaryop, ast.boolop, ast.cmpop)):
                    c._parent = n
        g_._parent = loop
        return g_
    loop.body = [guard()] + list(loop.body) + [guard()]
    loop.test = ast.copy_location(ast.Constant(value=True), t)
    loop.test._parent = loop


def run(repo, chk):
    sim = repo.cls(CORE, "WNTRSimulator")
    base = repo.cls(CORE, "WaterNetworkSimulator")
    meths = {}
    for c in (base, sim):
        for n in c.body:
            if isinstance(n, ast.FunctionDef):
                n._rel = CORE
                n._qual = c.name + "." + n.name
                meths[n.name] = n
    rs = meths.get("run_sim")
    ini = meths.get("__init__")
    if rs is None or ini is None:
        raise AnchorError("WNTRSimulator.run_sim / __init__ vanished")
    chk.fn(rs, ini)
    loops = [n for n in rs.body if isinstance(n, ast.While)]
    if len(loops) != 1:
        raise ExtractError("run_sim: expected exactly one top-level while loop, found %d" % len(loops))
    loop = loops[0]
    _canonical_time_loop(loop)
    prologue = rs.body[:rs.body.index(loop)]
    pro_mod = ast.Module(body=prologue, type_ignores=[])
    loop_mod = ast.Module(body=loop.body, type_ignores=[])
    loop_methods = closure(meths, self_method_calls(loop_mod))
    pro_methods = closure(meths, self_method_calls(pro_mod))
    chk.extra["loop_methods"] = sorted(loop_methods)
    chk.extra["prologue_methods"] = sorted(pro_methods)
    if len(loop_methods) < 6:
        chk.error("only %d simulator methods reachable from the loop (anchors moved?)" % len(loop_methods))

    # ------------------------------------------------------------ R-C10-1 loop-carried simulator attributes
    with chk.part("R-C10-1 loop-carried simulator attributes"):
        carried = {}
        for a, sts in self_stores(loop_mod).items():
            carried.setdefault(a, []).extend([("run_sim loop", s) for s in sts])
        for m in sorted(loop_methods):
            for a, sts in self_stores(meths[m]).items():
                carried.setdefault(a, []).extend([(m, s) for s in sts])
        flag = find_flag(prologue, loop)
        fsx = FirstStep(flag)
        guard_of = fsx.guard_of
        chk.extra["first_step_flag"] = flag
        _cd_cache = {}

        def call_defs(m):
            """attribute -> [(method, assignment)] for every self.attr assignment in the closure of simulator method m."""
            if m not in _cd_cache:
                out = {}
                for mm in sorted(closure(meths, [m])):
                    for a, sts in self_assigns(meths[mm]).items():
                        out.setdefault(a, []).extend([(mm, s_) for s_ in sts])
                _cd_cache[m] = out
            return _cd_cache[m]
        def local_from_model(nm):
            """a prologue local is derived from the model if the statements its value depends on (followed through temporaries and guards) read it."""
            try:
                sl, _ = backward_slice(prologue, {nm})
            except ExtractError:
                sl = [n for n in walk(pro_mod) if isinstance(n, ast.Assign) and any(isinstance(t, ast.Name) and t.id == nm for t in _flat_targets(n))]
            return any(mentions_model(x) for x in sl)
        # definitions that can reach the loop on a continued run: reaching definitions of the prologue with the first-step guards (statement or
        # conditional expression, any spelling) partially evaluated for "not the first step"
        pro_defs = {}
        fsx.reaching(prologue, pro_defs, "run_sim prologue", call_defs)
        pro_defs = {a: [(m, s_, None) for m, s_ in lst] for a, lst in pro_defs.items() if lst}
        init_defs = self_assigns(ini)
        for m in closure(meths, self_method_calls(ini)):
            if m != "__init__":
                for a, sts in self_assigns(meths[m]).items():
                    init_defs.setdefault(a, []).extend(sts)
        inv = []
        for a in sorted(carried):
            where = carried[a][0]
            defs = pro_defs.get(a, [])     # definitions that can reach the loop on a continued run
            construct = "loop-carried simulator state self.%s is re-derived from the model when a continued run starts" % a
            if a in INVARIANT:
                chk.ok("R-C10-1", "self.%s: %s" % (a, INVARIANT[a]), loc(rs))
                continue
            if defs:
                bad = []
                for m, s, g in defs:
                    val = s.value if isinstance(s, (ast.Assign, ast.AnnAssign)) else getattr(s, "value", None)
                    if val is not None and m == "run_sim prologue":
                        val = fsx.continued_value(val)     # `a if first_step else b` defines b on a continued run
                    fn_reads_model = m != "run_sim prologue" and mentions_model(meths[m])
                    if val is not None and (mentions_model(val) or fn_reads_model) and not (m == "run_sim prologue" and is_constant_value(val)):
                        continue
                    if val is not None and not is_constant_value(val) and m == "run_sim prologue":
                        # derived from other prologue values: accept when those come from the model
                        names = {x.id for x in ast.walk(val) if isinstance(x, ast.Name)}
                        if names and all(local_from_model(nm) for nm in names if nm not in ("int", "float", "len", "dict", "list", "bool", "self")):
                            continue
                    bad.append((m, s))
                inv.append({"attr": a, "written_in": where[0], "continued_run_definitions": ["%s: %s" % (m, norm(s)) for m, s, g in defs]})
                if bad:
                    m, s = bad[0]
                    chk.bad("R-C10-1", construct, loc(rs if m == "run_sim prologue" else meths[m], s),
                            "self.%s is assigned in the loop (%s: %s) and the definition reaching the loop on a continued run does not read the model: %s" % (
                                a, where[0], norm(where[1]), norm(s)), expected="a value derived from self._wn", found=norm(s))
                else:
                    chk.ok("R-C10-1", construct, loc(rs), "; ".join("%s: %s" % (m, norm(s)) for m, s, g in defs)[:300])
            else:
                idefs = init_defs.get(a, [])
                inv.append({"attr": a, "written_in": where[0], "continued_run_definitions": ["__init__: %s" % norm(s) for s in idefs]})
                if not idefs:
                    chk.bad("R-C10-1", construct, loc(rs, where[1]), "self.%s is written in the loop but has no definition before it" % a)
                    continue
                const_defs = [s for s in idefs if isinstance(s, ast.Assign) and is_constant_value(s.value)]
                s = idefs[0]
                chk.expect(not const_defs, "R-C10-1", construct, loc(ini, s),
                           "self.%s is assigned in the loop (%s: %s); a new simulator starts it from the constant %s and nothing in the prologue re-derives it from "
                           "the model: a continued run differs from the uninterrupted one whenever this state is non-trivial at the pause" % (
                               a, where[0], norm(where[1]), norm(s)), expected="a prologue assignment reading self._wn", found=norm(s))
        chk.sample({"rule": "R-C10-1", "inventory": inv[:20]})
        chk.floor("R-C10-1", 5)

        # ------------------------------------------------------------ R-C10-7 nothing the loop reads remembers WHERE the run was started
        # A simulator attribute that the prologue sets from the clock (sim_time / _prev_sim_time: the time at which THIS run_sim call starts) has, on a continued
        # run, another value than in an uninterrupted run that passed the same instant -- unless the loop itself keeps it moving (re-assigns it on the way round, as
        # the rule clock is advanced).  Such an attribute that the loop or a method it calls READS and never re-assigns makes the continued run depend on the
        # pause point.
        def clock_text(e, depth=0):
            """does the value depend on the clock -- directly, or through locals the prologue assigns (followed through their definitions)?"""
            if "sim_time" in unparse(e):
                return True
            if depth > 4:
                return False
            for nm in {x.id for x in ast.walk(e) if isinstance(x, ast.Name)}:
                for d_ in walk(pro_mod):
                    if isinstance(d_, ast.Assign) and any(isinstance(t_, ast.Name) and t_.id == nm for t_ in _flat_targets(d_)) and clock_text(d_.value, depth + 1):
                        return True
            return False
        loop_reads = set()
        for fnode in [loop_mod] + [meths[m] for m in sorted(loop_methods)]:
            in_log = set()           # reads that only feed a log message do not influence the run
            for c_ in walk(fnode):
                if isinstance(c_, ast.Call) and (call_name(c_) or "").split(".")[0] in ("logger", "logging", "warnings"):
                    in_log |= {id(x) for x in ast.walk(c_)}
            for n_ in walk(fnode):
                if isinstance(n_, ast.Attribute) and isinstance(n_.ctx, ast.Load) and isinstance(n_.value, ast.Name) and n_.value.id == "self" and id(n_) not in in_log:
                    loop_reads.add(n_.attr)
        n7 = 0
        for a, lst in sorted(pro_defs.items()):
            clocked = [(m, s_) for m, s_, _g in lst if isinstance(s_, (ast.Assign, ast.AugAssign)) and clock_text(s_.value)]
            if not clocked:
                continue
            n7 += 1
            moving = a in carried
            chk.expect(moving or a not in loop_reads, "R-C10-7", "self.%s, set from the clock when run_sim starts, is advanced by the loop itself (or not read by it)" % a, loc(rs, clocked[0][1]),
                       "set from the time at which this call of run_sim starts and never re-assigned on the way round the loop: a continued run reads another value than an "
                       "uninterrupted run at the same instant", expected="re-assigned inside the loop (or a method it calls), or unused there",
                       found="%s; read by the loop: %s; written by the loop: %s" % (norm(clocked[0][1]), a in loop_reads, moving))
        chk.floor("R-C10-7", 1)

        # loop-carried locals of run_sim: assigned in the loop and read in the loop before being assigned on some path -> must not start from a
        # constant that depends on elapsed time; enumerated and classified
        loc_assigned = {}
        for n in walk(loop_mod):
            if isinstance(n, (ast.Assign, ast.AugAssign)):
                for t in (n.targets if isinstance(n, ast.Assign) else [n.target]):
                    for e in (t.elts if isinstance(t, (ast.Tuple, ast.List)) else [t]):
                        if isinstance(e, ast.Name):
                            loc_assigned.setdefault(e.id, []).append(n)
        g = CFG(rs)
        idom = g.dominators()
        head = g.loop_heads[loop]
        loop_ids = {id(x) for x in ast.walk(loop)}
        in_loop = lambda i: id(g.node_ast(i)) in loop_ids
        after_head = g.reachable(head)
        fwd = g.view(drop_back=True)
        import networkx as nx
        # local aliases of simulator/model objects (wn = self._wn): resolved before a store target is compared
        n_assign = {}
        for n in walk(rs):
            if isinstance(n, (ast.Assign, ast.AugAssign, ast.AnnAssign, ast.For)):
                for t in _flat_targets(n):
                    if isinstance(t, ast.Name):
                        n_assign.setdefault(t.id, []).append(n)
        alias = {nm: dotted(sts[0].value) for nm, sts in n_assign.items()
                 if len(sts) == 1 and isinstance(sts[0], ast.Assign) and (dotted(sts[0].value) or "").startswith("self.")}

        def canon(t):
            d = dotted(t)
            if d and "." in d and d.split(".")[0] in alias:      # a store THROUGH an alias; binding the alias name itself stores nothing
                d = alias[d.split(".")[0]] + d[len(d.split(".")[0]):]
            return d

        def stores_to(text):
            return g.nodes_where(lambda node, d: isinstance(node, (ast.Assign, ast.AugAssign, ast.AnnAssign)) and any(canon(t) == text for t in _flat_targets(node)))
        # the time advance = pause point: the first store to the model clock on the accepted-step path (later stores of the same sequence, e.g. the
        # removal of the overstep, are dominated by it), however it is spelled (+=, a = a + h, through an alias)
        clock_stores = [i for i in stores_to("self._wn.sim_time") if in_loop(i)]
        adv = [a_ for a_ in clock_stores if not any(b_ != a_ and g.dominates(b_, a_, idom) for b_ in clock_stores)]

        def local_assigns(nm):
            return [i for i in g.nodes_where(lambda node, d: isinstance(node, (ast.Assign, ast.AugAssign, ast.AnnAssign))
                                             and any(isinstance(t, ast.Name) and t.id == nm for t in _flat_targets(node))) if in_loop(i)]

        def reads_name(node, nm):
            if isinstance(node, ast.AugAssign) and isinstance(node.target, ast.Name) and node.target.id == nm:
                return True
            return any(isinstance(x, ast.Name) and x.id == nm and isinstance(x.ctx, ast.Load) for x in ast.walk(node))

        def same_const(x, y):
            return type(x) is type(y) and x == y
        pro_local_defs = {nm: [n for n in walk(pro_mod) if isinstance(n, ast.Assign) and any(isinstance(t, ast.Name) and t.id == nm for t in _flat_targets(n))]
                          for nm in loc_assigned}
        NOCONST = object()

        def init_const(nm):
            vals = [const(p.value, NOCONST) for p in pro_local_defs.get(nm, [])]
            if vals and all(v is not NOCONST and same_const(v, vals[0]) for v in vals) and all(len(p.targets) == 1 and isinstance(p.targets[0], ast.Name) for p in pro_local_defs[nm]):
                return vals[0]
            return NOCONST
        # (A) pause-invariant locals: whenever the clock is advanced (the only points where a run can end and be continued) the local holds the
        # constant a new run initialises it with -- every other assignment in the loop is followed by a re-assignment of that constant before an advance
        K = {}
        for nm in sorted(loc_assigned):
            c = init_const(nm)
            if c is NOCONST or not adv:
                continue
            las = local_assigns(nm)
            back = [i for i in las if isinstance(g.node_ast(i), ast.Assign) and len(g.node_ast(i).targets) == 1 and isinstance(g.node_ast(i).targets[0], ast.Name)
                    and same_const(const(g.node_ast(i).value, NOCONST), c)]
            other = [i for i in las if i not in back]
            if all(g.must_pass(o, set(adv), back)[0] for o in other):
                K[nm] = c

        def unobservable(nm):
            """(B) the value the local has when the loop is entered is never used: on every path from the loop head a plain re-assignment comes
        before any use.  Branches whose test is decided by the pause-invariant locals (A) -- which hold their initial constants at loop entry -- are
        followed only in the decided direction, for their first evaluation."""
            env = {k: v for k, v in K.items() if k != nm}
            kills = [i for i in local_assigns(nm) if isinstance(g.node_ast(i), ast.Assign) and not reads_name(g.node_ast(i).value, nm)
                     and all(isinstance(t, ast.Name) for t in g.node_ast(i).targets)]
            reads = {i for i in after_head if g.node_ast(i) is not None and i not in kills and reads_name(g.node_ast(i), nm)}
            decided = []
            for i, d in g.g.nodes(data=True):
                if d["kind"] != "test" or not in_loop(i):
                    continue
                used = {x.id for x in ast.walk(d["node"]) if isinstance(x, ast.Name)}
                if not used or not used <= set(env):
                    continue
                try:
                    ev = Evaluator(env=dict(env))
                    out = bool(ev.truth(ev.ev(d["node"])))
                except (Unknown, Raised, TypeError):
                    continue
                # the decision is only valid while the locals still hold their entry values: no assignment of them between the loop head and the test
                dirty = False
                for v in used:
                    for x in local_assigns(v):
                        if x in fwd and head in fwd and i in fwd and nx.has_path(fwd, head, x) and nx.has_path(fwd, x, i):
                            dirty = True
                if not dirty:
                    decided.append((i, out))
            w = g.can_reach_avoiding(head, reads, set(kills) | {i for i, o in decided})
            if w is not None:
                return False, g.path_text(w)
            for i, out in decided:
                for sc in g.succ_on(i, out):
                    w = g.can_reach_avoiding(sc, reads, set(kills))
                    if w is not None:
                        return False, g.path_text([i] + w)
            return True, None
        for nm in sorted(loc_assigned):
            pdefs = pro_local_defs[nm]
            if not pdefs:
                chk.ok("R-C10-1b", "run_sim local %s is loop-local scratch (no definition before the loop)" % nm, loc(rs, loc_assigned[nm][0]))
                continue
            construct = "run_sim local %s carried across iterations is re-derived from the model on a continued run" % nm
            derived = any(mentions_model(p.value) or guard_of(p, rs) is not None for p in pdefs) or local_from_model(nm)
            if derived:
                chk.ok("R-C10-1b", construct, loc(rs, pdefs[0]), "; ".join(norm(p) for p in pdefs))
            elif nm in K:
                chk.ok("R-C10-1b", "run_sim local %s: holds its initial constant %r at every time advance, i.e. at every possible pause point" % (nm, K[nm]), loc(rs, pdefs[0]))
            else:
                okb, wit = unobservable(nm)
                if okb:
                    chk.ok("R-C10-1b", "run_sim local %s: the value it has when the loop is entered is re-assigned before any use" % nm, loc(rs, pdefs[0]))
                else:
                    chk.bad("R-C10-1b", construct, loc(rs, pdefs[0]),
                            "local %s is initialised to %s before the loop and updated inside it; a continued run uses that initial value (%s) while the "
                            "uninterrupted run carries the updated one" % (nm, norm(pdefs[0].value), wit), found=[norm(p) for p in pdefs])
        chk.floor("R-C10-1b", 3)
        chk.expect(bool(adv), "R-C10-1b", "the time advance of the loop (the pause point) is identified", loc(rs), found=len(clock_stores))
        chk.extra["pause_invariant_locals"] = {k: repr(v) for k, v in K.items()}

    # ------------------------------------------------------------ R-C10-4 initialisation agrees with the loop's own update
    with chk.part("R-C10-4 initialisation agrees with the loop's own update"):
        # the connectivity graph is loop-carried state: what a new simulator derives from the model at the start of a continued run must be what the
        # uninterrupted run's update rule would have produced -- both encode a link from the same atoms (its status), nothing else
        from .c09 import closed_test_polarity, status_encoding_table
        ig_, ug_ = meths.get("_initialize_internal_graph"), meths.get("_update_internal_graph")
        if ig_ is None or ug_ is None:
            raise AnchorError("_initialize_internal_graph / _update_internal_graph vanished")
        gi_ = encoding_guards(ig_, closed_test_polarity)
        gu_ = encoding_guards(ug_, closed_test_polarity)
        if not gi_ or not gu_:
            raise ExtractError("status encodings of the internal graph not found")

        def atoms_of(guards):
            out = set()
            for gd in guards:
                out |= set(status_encoding_table(gd.test)[2])
            return out
        ai, au = atoms_of(gi_), atoms_of(gu_)
        chk.expect(ai == au, "R-C10-4", "the initial connectivity graph of a (continued) run is derived from the same link facts as the per-step update", loc(ig_, gi_[0]),
                   "a new simulator encodes links from %s in addition to the status, the update inside the loop from %s: a graph entry set from run-time flags at restart "
                   "is never refreshed by the update (it only reacts to status changes), so the continued run keeps a stale entry the uninterrupted run never had" % (sorted(ai) or "nothing", sorted(au) or "nothing"),
                   expected=sorted(au), found=sorted(ai))

        # ... and with the same KIND of test: a status may be held as a LinkStatus member or as the plain number a control action was given
        # (ControlAction(link, 'status', 0) stores the int itself); `==` treats both alike, `is` only recognises the member.  If the initialisation and the
        # update disagree in kind, a link closed by such an action is cut by the update of the uninterrupted run and joined by the initialisation of the continued one.
        def test_kinds(guards):
            kinds = set()
            for gd in guards:
                for cmp_ in ast.walk(gd.test):
                    if isinstance(cmp_, ast.Compare) and any("Closed" in unparse(x) for x in [cmp_.left] + list(cmp_.comparators)):
                        for op in cmp_.ops:
                            kinds.add("identity" if isinstance(op, (ast.Is, ast.IsNot)) else "equality" if isinstance(op, (ast.Eq, ast.NotEq)) else
                                      "membership" if isinstance(op, (ast.In, ast.NotIn)) else type(op).__name__)
            return kinds
        ki, ku = test_kinds(gi_), test_kinds(gu_)
        chk.expect(ki == ku and bool(ki), "R-C10-4", "the initialisation and the per-step update of the connectivity graph test the status in the same way (equality / identity)", loc(ig_, gi_[0]),
                   "a status stored as a plain number compares equal to LinkStatus.Closed but is not identical to it: a link closed that way is cut by one of the two functions and joined "
                   "by the other, so the continued run starts from a graph the uninterrupted run never had", expected=sorted(ku), found=sorted(ki))

    # ------------------------------------------------------------ R-C10-2 model-side state is plain picklable attributes
    with chk.part("R-C10-2 model-side state is plain picklable attributes"):
        # every class whose instances are part of the pickled model graph: all classes of the model modules (elements, registries, controls, conditions, actions,
        # options, the ordered set they use) -- derived from the source, so a class added later is covered
        MODEL_MODULES = (BASE, ELEM, MODEL, CTRL, OPTS, "wntr/utils/ordered_set.py")
        rt_classes = []
        for rel in MODEL_MODULES:
            if not repo.exists(rel):
                raise AnchorError("module vanished: %s" % rel)
            for c in ast.walk(repo.tree(rel)):
                if isinstance(c, ast.ClassDef):
                    rt_classes.append((rel, c))
        for need in ("Node", "Link", "Junction", "Tank", "Pipe", "HeadPump", "Valve", "WaterNetworkModel", "TankLevelCondition", "ValueCondition", "SimTimeCondition", "Control", "Rule", "ControlAction"):
            if need not in {c.name for _r, c in rt_classes}:
                raise AnchorError("class %s vanished from the model modules" % need)
        hooks = ("__getstate__", "__setstate__", "__reduce__", "__reduce_ex__", "__deepcopy__", "__copy__")
        n_hook = 0
        for rel, c in rt_classes:
            found = []
            for n in c.body:
                if isinstance(n, ast.FunctionDef) and n.name in hooks:
                    found.append(n.name)
            # __slots__ is compatible with pickling only when every attribute the class's methods store is a slot: else the store raises / is lost
            slots = [n for n in c.body if isinstance(n, ast.Assign) and any(isinstance(t, ast.Name) and t.id == "__slots__" for t in n.targets)]
            if slots:
                found.append("__slots__")
            n_hook += 1
            chk.expect(not found, "R-C10-2", "%s keeps its state in plain instance attributes (no pickling / copying hook, no __slots__)" % c.name, loc(rel, c),
                       "a pickling hook can drop or rename run-time fields between pause and restart", found=found)
        vc = repo.cls(CTRL, "ValueCondition")
        vm = {n.name: n for n in vc.body if isinstance(n, ast.FunctionDef)}
        if "__new__" in vm and "__getnewargs__" in vm:
            new_params = [a.arg for a in vm["__new__"].args.args][1:]
            ret = [r for r in walk(vm["__getnewargs__"]) if isinstance(r, ast.Return)]
            elts = ret[0].value.elts if ret and isinstance(ret[0].value, ast.Tuple) else []
            got = [unparse(e).replace("self._", "") for e in elts]
            chk.expect(len(elts) == len(new_params) and all(g.startswith(p[:6]) or p in g for g, p in zip(got, new_params)), "R-C10-2",
                       "ValueCondition.__getnewargs__ returns the arguments of __new__ in order", loc(CTRL, vm["__getnewargs__"]),
                       expected=new_params, found=got)
        elif "__new__" in vm:
            chk.bad("R-C10-2", "ValueCondition defines __new__ with arguments but no __getnewargs__ (unpickling fails)", loc(CTRL, vm["__new__"]))
        # prologue stores to the model only under first_step
        n_p = 0
        for recv, attr, ae, via, node in writes(ast.Module(body=prologue, type_ignores=[])):
            rv = unparse(recv)
            if rv.startswith("self._wn") or rv == "wn":
                n_p += 1
                chk.expect(guard_of(node, rs) == "first", "R-C10-2", "prologue store %s.%s happens only on a first step" % (rv, attr), loc(rs, node),
                           "run_sim overwrites model-side run-time state before the loop on a continued run", found=norm(node))
        for c in calls(ast.Module(body=prologue, type_ignores=[])):
            nm = call_name(c) or ""
            if nm.endswith("update_network_previous_values") or nm.endswith("reset_initial_values"):
                n_p += 1
                chk.expect(guard_of(c, rs) == "first" or guard_of(parent(c), rs) == "first", "R-C10-2", "prologue call %s happens only on a first step" % nm.split(".")[-1], loc(rs, c))
        chk.floor("R-C10-2", 60)

    # ------------------------------------------------------------ R-C10-3 continuation point
    with chk.part("R-C10-3 continuation point"):
        # the flag's definition is evaluated, not matched: the slice of the prologue that defines it is run for several model clocks (and for every
        # value of whatever else it reads); the flag must be true exactly when sim_time == 0, independent of everything else
        fsl, _w = backward_slice(prologue, {flag})
        if not fsl:
            raise ExtractError("run_sim: no definition of %s before the loop" % flag)
        rows, free_in = flag_rows(fsl, flag)
        wrong = [(t, fr, v) for t, fr, v in rows if v != (t == 0)]
        chk.expect(bool(rows) and not wrong, "R-C10-3", "%s is exactly `sim_time == 0`" % flag, loc(rs, fsl[0]),
                   "the flag that guards the first-step-only initialisation must be true on a fresh model (sim_time == 0) and false on every continued run, "
                   "whatever else the model holds%s" % ("; its definition also reads %s" % free_in if free_in else ""),
                   expected="truth(%s) == (sim_time == 0)" % flag,
                   found=["sim_time=%r %s-> %s" % (t, "".join("%s=%r " % kv for kv in sorted(fr.items())), v) for t, fr, v in wrong[:4]] or None)

        # loop exits, classified by evaluation: a `break` is a TIME exit if the conditions on its path can be evaluated from the model clock, the
        # duration and the hydraulic timestep alone (after running the clock arithmetic of the iteration that precedes it); the other breaks depend on
        # the solver / the controls (error exits) and are not pause points of a successful run
        def exit_paths():
            out = []
            for b_ in g.nodes_where(lambda node, d: isinstance(node, ast.Break)):
                brk = g.node_ast(b_)
                chain, q = [], brk
                while q is not None and q is not loop:
                    p_ = parent(q)
                    if isinstance(p_, (ast.For, ast.While)) and p_ is not loop:
                        chain = None
                        break
                    if isinstance(p_, ast.If):
                        chain.append((p_, q in p_.body, q))
                    q = p_
                if chain is None or q is not loop:
                    continue            # break of an inner loop / not of the time loop
                out.append((b_, list(reversed(chain))))
            return out

        def run_exit(chain, t, h, D):
            """-> (taken?, sim_time when the last test is evaluated) or None when the path conditions are not a function of the clock."""
            top = chain[0][0] if chain else None
            q = top
            while parent(q) is not loop and parent(q) is not None:
                q = parent(q)
            if q not in loop.body:
                return None
            segs, tests = [loop.body[:loop.body.index(q)]], []
            if q is not top:
                return None                                   # the outermost guard is wrapped in something that is not an `if` (with/try)
            for k, (ifn, in_body, child) in enumerate(chain):
                tests.append((ifn.test, in_body))
                branch = ifn.body if in_body else ifn.orelse
                if k + 1 < len(chain):
                    nxt = chain[k + 1][0]
                    if nxt not in branch:
                        return None
                    segs.append(branch[:branch.index(nxt)])
            wanted, sls = {"self._wn.sim_time"}, [None] * len(segs)
            for k in reversed(range(len(segs))):
                wanted |= _read_texts(tests[k][0])
                sls[k], wanted = backward_slice(segs[k], wanted)
            slp, _ = backward_slice(prologue, wanted)
            ev, wn, reads = _machine(t, duration=D, hyd=h)
            try:
                ev.run(slp)
                taken = True
                for k in range(len(segs)):
                    ev.run(sls[k])
                    if bool(ev.truth(ev.ev(tests[k][0]))) != tests[k][1]:
                        taken = False
                        break
            except (Unknown, Raised, TypeError, ZeroDivisionError):
                return None
            if reads:
                return None
            return taken, wn.attrs["sim_time"]
        PROBES = [(0, 3600, 36000), (32400, 3600, 36000), (36000, 3600, 36000), (1800, 3600, 36000), (5000.0, 3600, 36000), (35000, 3600, 36000),
                  (0, 3600, 0), (7200, 1800, 9000), (7200, 1800, 8999), (0, 900.0, 86400), (39600, 3600, 36000), (9000, 1800, 8999)]
        time_exits = []
        for b_, chain in exit_paths():
            try:
                res = [run_exit(chain, t, h, D) for t, h, D in PROBES] if chain else [None]
            except ExtractError:
                res = [None]
            if all(r is not None for r in res):
                time_exits.append((b_, chain, res))
        chk.extra["time_exits"] = [norm(ch[-1][0].test) for b_, ch, r in time_exits]
        bad_exit = [(PROBES[i], r) for b_, ch, res in time_exits for i, r in enumerate(res) if r[0] != (r[1] > PROBES[i][2])]
        # exits reached after the time advance of the same iteration end the run; an exit tested before anything else in the iteration
        # (loop head) serves a continued run that has no step left.  Every one of them must be taken iff the clock it sees is past the duration.
        after_adv = [e for e in time_exits if adv and any(g.dominates(a_, e[0], idom) for a_ in adv)]
        chk.expect(len(after_adv) == 1 and not bad_exit, "R-C10-3", "the loop ends normally only when sim_time > duration",
                   loc(rs, time_exits[0][1][-1][0]) if time_exits else loc(rs),
                   "a run must stop after the last step at or before the duration and not earlier: a part that stops early (or late) makes the continued run "
                   "start at a different time than the uninterrupted one passes through", expected="one clock-dependent exit after the time advance, and every clock-dependent exit taken iff sim_time > duration",
                   found=[norm(ch[-1][0].test) for b_, ch, r in time_exits] + ["(sim_time,h,duration)=%r -> exit %r at sim_time %r" % (pr, r[0], r[1]) for pr, r in bad_exit[:3]])
        head = [e for e in time_exits if e not in after_adv]
        past = [i for i, (t_, h_, d_) in enumerate(PROBES) if t_ > d_]
        chk.expect(any(all(e[2][i][0] for i in past) for e in head), "R-C10-3", "a continued run whose clock is already past the duration leaves the loop before solving a step", loc(rs),
                   "the uninterrupted run stops at the bottom-of-loop test; a run continued from the paused model (sim_time = last step + h > duration) must not report one more step",
                   expected="a clock-dependent exit tested before the first solve of the iteration", found=[norm(ch[-1][0].test) for b_, ch, r in head] or "no exit before the time advance")
        time_exits = after_adv
        if time_exits:
            nb, nchain, nres = time_exits[0]
            chk.expect(bool(adv) and any(g.dominates(a_, nb, idom) for a_ in adv), "R-C10-3",
                       "the normal exit is reached only after sim_time was advanced by the hydraulic timestep (a continued run starts at the next grid time)", loc(rs))
            # the advance returns to the grid: the clock arithmetic of one iteration is evaluated on whole and partial steps
            grid = lambda t, h: (t + h) - ((t + h) % h)
            off = [(PROBES[i], r[1]) for i, r in enumerate(nres) if not isinstance(r[1], (int, float)) or abs(r[1] - grid(PROBES[i][0], PROBES[i][1])) > 1e-9]
            chk.expect(not off, "R-C10-3", "the time advance adds one hydraulic timestep and removes the overstep (returns to the grid after a partial step)",
                       loc(rs, g.node_ast(adv[0])) if adv else loc(rs), expected="sim_time' = (sim_time + h) - (sim_time + h) % h",
                       found=["(sim_time,h,duration)=%r -> %r" % o for o in off[:4]] or None)
            # and a call of update_network_previous_values dominates every advance (only this dominance is checked; that nothing between the
            # advance and the exit test stores results or changes state again is NOT decided)
            upv = [u for u in g.calling("update_network_previous_values") if in_loop(u)]
            chk.expect(bool(upv) and bool(adv) and all(any(g.dominates(u, a_, idom) for u in upv) for a_ in adv), "R-C10-3",
                       "the accepted state is recorded (update_network_previous_values) before every time advance", loc(rs))
        chk.floor("R-C10-3", 4)

    # ------------------------------------------------------------ R-C10-5 the rule clock of a continued run
    with chk.part("R-C10-5 the rule clock of a continued run"):
        # R-C10-1 only decides that the rule clock is re-derived from the model; WHICH value matters: rules are evaluated at the instants
        # clock * rule_timestep, the uninterrupted run has evaluated them at every instant <= the last accepted solution (prev_sim_time) BEFORE that
        # solution, so a continued run must resume at the first rule instant STRICTLY AFTER prev_sim_time (resuming AT it re-evaluates the rules with
        # the solution of the pause instant, which the uninterrupted run never does; resuming later skips an instant).
        # The clock attribute is identified by its role: the simulator attribute the loop multiplies with the rule timestep.
        clocks = set()
        for m in sorted(loop_methods):
            for n in walk(meths[m]):
                if isinstance(n, ast.BinOp) and isinstance(n.op, ast.Mult):
                    for a_, b_ in ((n.left, n.right), (n.right, n.left)):
                        for x in ast.walk(a_):
                            if isinstance(x, ast.Attribute) and isinstance(x.value, ast.Name) and x.value.id == "self" and (dotted(b_) or "").endswith("rule_timestep"):
                                clocks.add(x.attr)
        clocks = {c for c in clocks if c in carried}
        if len(clocks) != 1:
            raise ExtractError("rule clock of the time loop not identified (simulator attributes multiplied with rule_timestep and advanced by the loop: %s)" % sorted(clocks))
        clock = sorted(clocks)[0]
        csl, _w = backward_slice(prologue, {"self." + clock})
        c5 = "a continued run resumes rule evaluation at the first rule instant strictly after the last accepted solution (self.%s)" % clock
        c5f = "a fresh run starts rule evaluation at the first positive rule instant (self.%s == 1)" % clock
        if not csl:
            chk.bad("R-C10-5", c5, loc(rs), "run_sim assigns no value to the rule clock self.%s before the loop" % clock)
        else:
            def clock_after(sim_time, prev, rt):
                ev, wn, reads = _machine(sim_time, time_attrs={"rule_timestep": rt}, wn_attrs={"_prev_sim_time": prev})
                try:
                    ev.run(csl)
                except Raised as e:
                    raise ExtractError("the definition of self.%s raises on (sim_time=%r, prev_sim_time=%r, rule_timestep=%r)" % (clock, sim_time, prev, rt))
                return ev.env["self"].attrs.get(clock)
            RPROBES = [(3600, 600), (3700, 600), (4199, 600), (4200, 600), (599, 600), (600, 600), (7200, 360), (7300, 360), (0, 600)]
            site = [n for n in walk(ast.Module(body=csl, type_ignores=[])) if isinstance(n, (ast.Assign, ast.AnnAssign)) and any(dotted(t) == "self." + clock for t in _flat_targets(n))]
            where = loc(rs, site[-1] if site else csl[0])
            off = []
            for prev, rt in RPROBES:
                v = clock_after(prev + 3600, prev, rt)
                want = prev // rt + 1
                if not (isinstance(v, (int, float)) and not isinstance(v, bool) and v == want):
                    off.append("prev_sim_time=%r rule_timestep=%r -> clock %r, i.e. next rule instant %s (expected clock %r, instant %r)" % (
                        prev, rt, v, v * rt if isinstance(v, (int, float)) else "?", want, want * rt))
            chk.expect(not off, "R-C10-5", c5, where,
                       "the value stored into the rule clock on the not-first-step path of run_sim's prologue, evaluated on %d (prev_sim_time, rule_timestep) pairs on and "
                       "off the rule grid: clock * rule_timestep must be the smallest multiple of the rule timestep that is > prev_sim_time" % len(RPROBES),
                       expected="clock == floor(prev_sim_time / rule_timestep) + 1", found=off[:4] or None)
            off = []
            for prev in (None, -1, 0, 3600):
                for rt in (600, 360):
                    v = clock_after(0, prev, rt)
                    if not (isinstance(v, (int, float)) and not isinstance(v, bool) and v == 1):
                        off.append("sim_time=0 prev_sim_time=%r rule_timestep=%r -> clock %r" % (prev, rt, v))
            chk.expect(not off, "R-C10-5", c5f, where, "rules are evaluated at the positive multiples of the rule timestep, not before the first hydraulic solution",
                       expected="clock == 1", found=off[:4] or None)
        chk.floor("R-C10-5", 2)

    # ---------------------------------------------------------------- R-C10-6 the control bookkeeping of a new simulator is a function of the model alone
    with chk.part("R-C10-6 the control bookkeeping of a new simulator is a function of the model alone"):
        # (T2 path enumeration shared with C04, c04.registration_rules: every control drawn from wn.controls() and from the internal families is registered in the
        #  checker of its type on EVERY path through _get_control_managers -- a registration that also depends on a test about something else, e.g. the clock at the
        #  moment the simulator is created, makes a continued run drop controls the uninterrupted run keeps)
        from .c04 import registration_rules
        ctype = repo.cls(CTRL, "_ControlType")
        members = [t.id for s_ in ctype.body if isinstance(s_, ast.Assign) for t in s_.targets if isinstance(t, ast.Name)]
        if len(members) < 4:
            raise AnchorError("_ControlType members not found")
        registration_rules(repo, chk, "R-C10-6", members)
        chk.floor("R-C10-6", 5)


_FS_OLD = "        if self._wn.sim_time == 0:\n            first_step = True\n        else:\n            first_step = False\n"
_RI_OLD = ("        if first_step:\n            self._rule_iter = 1\n        else:\n"
           "            self._rule_iter = int(self._wn._prev_sim_time // self._wn.options.time.rule_timestep) + 1\n")
_ENC_OLD = ("            if link.status == wntr.network.LinkStatus.Closed:\n                vals.append(0)\n                vals.append(0)\n"
            "            else:\n                vals.append(1)\n                vals.append(1)\n")
WITNESSES = [
    dict(name="backtracking-capped-at-the-start-of-this-run", file=CORE, old="        if first_step:  # we don't want to backtrack if the sim time is 0\n            presolve_controls_to_run = [(c, 0) for c, b in presolve_controls_to_run]\n",
         new="        max_backtrack = self._wn.sim_time - self._start_time\n        presolve_controls_to_run = [(c, min(b, max_backtrack)) for c, b in presolve_controls_to_run]\n",
         also=[("        trial = -1\n        max_trials = self._wn.options.hydraulic.trials\n", "        self._start_time = self._wn.sim_time\n        trial = -1\n        max_trials = self._wn.options.hydraulic.trials\n")], rule="R-C10-7"),
    dict(name="start-clock-kept-for-a-log-message-only-preserving", file=CORE, old="        trial = -1\n        max_trials = self._wn.options.hydraulic.trials\n",
         new="        self._start_time = self._wn.sim_time\n        trial = -1\n        max_trials = self._wn.options.hydraulic.trials\n",
         also=[("            if not resolve:\n                if not first_step:", "            logger.debug('running since %s', self._start_time)\n            if not resolve:\n                if not first_step:")], silent=True),
    dict(name="passed-time-controls-dropped-at-restart", file=CORE, old="        for c_name, c in self._wn.controls():\n            categorize_control(c)\n",
         new="        for c_name, c in self._wn.controls():\n            if self._wn.sim_time > 0 and getattr(c.condition, '_threshold', None) is not None and c.condition._threshold < self._wn.sim_time:\n                continue\n            categorize_control(c)\n", rule="R-C10-6"),
    dict(name="restart-graph-from-isolation-flags", file=CORE, old="            if link.status == wntr.network.LinkStatus.Closed:\n                vals.append(0)",
         new="            if link.status == wntr.network.LinkStatus.Closed or link._is_isolated:\n                vals.append(0)", rule="R-C10-4"),
    dict(name="rule-clock-reset-on-restart", file=CORE, old="            self._rule_iter = int(self._wn._prev_sim_time // self._wn.options.time.rule_timestep) + 1\n",
         new="            self._rule_iter = 1\n", rule="R-C10-1"),
    dict(name="isolated-sets-not-seeded", file=CORE,
         old="        self._prev_isolated_junctions = OrderedSet(name for name, junction in self._wn.junctions() if junction._is_isolated)\n", new="", rule="R-C10-1"),
    dict(name="new-loop-carried-counter", file=CORE, old="            first_step = False\n            self._wn.sim_time += self._hydraulic_timestep\n",
         new="            first_step = False\n            self._steps_done += 1\n            self._wn.sim_time += self._hydraulic_timestep\n", rule="R-C10-1"),
    dict(name="prologue-resets-prev-time-always", file=CORE, old="        if first_step:\n            wntr.sim.hydraulics.update_network_previous_values(self._wn)\n            self._wn._prev_sim_time = -1\n",
         new="        wntr.sim.hydraulics.update_network_previous_values(self._wn)\n        self._wn._prev_sim_time = -1\n", rule="R-C10-2"),
    dict(name="tank-condition-drops-state-on-pickle", file=CTRL, old="    def _reset(self):\n        self._last_value = getattr(self._source_obj, self._source_attr)",
         new="    def __getstate__(self):\n        d = dict(self.__dict__)\n        d.pop('_last_value', None)\n        return d\n\n    def _reset(self):\n        self._last_value = getattr(self._source_obj, self._source_attr)", rule="R-C10-2"),
    dict(name="exit-before-advance", file=CORE, old="            if self._wn.sim_time > self._wn.options.time.duration:\n                break\n",
         new="            if self._wn.sim_time >= self._wn.options.time.duration:\n                break\n", rule="R-C10-3"),
    dict(name="first-step-from-prev-time", file=CORE, old="        if self._wn.sim_time == 0:\n            first_step = True", new="        if self._wn._prev_sim_time is None:\n            first_step = True", rule="R-C10-3"),
    dict(name="first-step-also-from-prev-time", file=CORE, old=_FS_OLD, new="        first_step = bool(self._wn.sim_time == 0 or self._wn._prev_sim_time is None)\n", rule="R-C10-3"),
    dict(name="first-step-inverted", file=CORE, old=_FS_OLD, new="        first_step = bool(self._wn.sim_time)\n", rule="R-C10-3"),
    dict(name="advance-keeps-overstep", file=CORE, old="            self._wn.sim_time -= overstep\n", new="", rule="R-C10-3"),
    dict(name="resolve-flag-not-cleared-at-advance", file=CORE, old="            resolve = False\n            if not isinstance(self._report_timestep, str)",
         new="            if not isinstance(self._report_timestep, str)", rule="R-C10-1b"),
    dict(name="trial-counter-not-reset-per-step", file=CORE, old="                trial = 0\n                self._compute_next_timestep", new="                self._compute_next_timestep", rule="R-C10-1b"),
    dict(name="rule-clock-reset-by-conditional-expression", file=CORE, old=_RI_OLD, new="        self._rule_iter = 1 if first_step else 1\n", rule="R-C10-1"),
    dict(name="rule-clock-override-only-on-first-step", file=CORE, old=_RI_OLD,
         new="        self._rule_iter = 1\n        if first_step:\n            self._rule_iter = int(self._wn._prev_sim_time // self._wn.options.time.rule_timestep) + 1\n", rule="R-C10-1"),
    dict(name="restart-graph-from-isolation-flags-through-temporary", file=CORE, old=_ENC_OLD,
         new="            entry = 0 if (link.status == wntr.network.LinkStatus.Closed or link._is_isolated) else 1\n            vals.append(entry)\n            vals.append(entry)\n", rule="R-C10-4"),
    dict(name="continued-run-solves-a-step-past-the-duration", file=CORE,
         old="            if not resolve and self._wn.sim_time > self._wn.options.time.duration:\n                # a continued run of a model that was paused at (or after) its duration has no step left to solve\n                break\n\n", new="", rule="R-C10-3"),
    dict(name="quiet-loop-condition-instead-of-head-break", file=CORE,
         old="            if not resolve and self._wn.sim_time > self._wn.options.time.duration:\n                # a continued run of a model that was paused at (or after) its duration has no step left to solve\n                break\n\n",
         new="            if (not resolve) and not (self._wn.sim_time <= self._wn.options.time.duration):\n                break\n\n", silent=True),
    dict(name="rule-clock-resumes-at-the-pause-instant", file=CORE, old="            self._rule_iter = int(self._wn._prev_sim_time // self._wn.options.time.rule_timestep) + 1\n",
         new="            self._rule_iter = int(np.ceil(self._wn._prev_sim_time / self._wn.options.time.rule_timestep))\n", rule="R-C10-5"),
    dict(name="rule-clock-skips-an-instant", file=CORE, old="            self._rule_iter = int(self._wn._prev_sim_time // self._wn.options.time.rule_timestep) + 1\n",
         new="            self._rule_iter = int(self._wn._prev_sim_time // self._wn.options.time.rule_timestep) + 2\n", rule="R-C10-5"),
    dict(name="rule-clock-of-a-fresh-run-at-zero", file=CORE, old="        if first_step:\n            self._rule_iter = 1\n", new="        if first_step:\n            self._rule_iter = 0\n", rule="R-C10-5"),
    # ---- behaviour-preserving spellings that must stay quiet
    dict(name="quiet-rule-clock-int-of-quotient", file=CORE, old="            self._rule_iter = int(self._wn._prev_sim_time // self._wn.options.time.rule_timestep) + 1\n",
         new="            self._rule_iter = int(self._wn._prev_sim_time / self._wn.options.time.rule_timestep) + 1\n", silent=True),
    dict(name="quiet-rule-clock-math-floor-hoisted", file=CORE, old="            self._rule_iter = int(self._wn._prev_sim_time // self._wn.options.time.rule_timestep) + 1\n",
         new="            rule_dt = self._wn.options.time.rule_timestep\n            done = math.floor(self._wn._prev_sim_time / rule_dt)\n            self._rule_iter = done + 1\n",
         also=[("\nimport numpy as np\n", "\nimport math\nimport numpy as np\n")], silent=True),
    dict(name="quiet-rule-clock-np-floor-conditional-expression", file=CORE, old=_RI_OLD,
         new="        self._rule_iter = 1 if first_step else int(np.floor(self._wn._prev_sim_time / self._wn.options.time.rule_timestep)) + 1\n", silent=True),
    dict(name="quiet-first-step-bool-expression", file=CORE, old=_FS_OLD, new="        first_step = bool(self._wn.sim_time == 0)\n", silent=True),
    dict(name="quiet-first-step-hoisted-clock-and-negation", file=CORE, old=_FS_OLD, new="        now = self._wn.sim_time\n        continued = now != 0\n        first_step = not continued\n", silent=True),
    dict(name="quiet-first-step-conditional-expression", file=CORE, old=_FS_OLD, new="        first_step = False if self._wn.sim_time else True\n", silent=True),
    dict(name="quiet-merged-first-step-blocks", file=CORE,
         old="        else:\n            self._rule_iter = int(self._wn._prev_sim_time // self._wn.options.time.rule_timestep) + 1\n\n        if first_step:\n"
             "            wntr.sim.hydraulics.update_network_previous_values(self._wn)\n            self._wn._prev_sim_time = -1\n",
         new="            wntr.sim.hydraulics.update_network_previous_values(self._wn)\n            self._wn._prev_sim_time = -1\n"
             "        else:\n            self._rule_iter = int(self._wn._prev_sim_time // self._wn.options.time.rule_timestep) + 1\n", silent=True),
    dict(name="quiet-rule-clock-conditional-expression", file=CORE, old=_RI_OLD,
         new="        self._rule_iter = 1 if first_step else int(self._wn._prev_sim_time // self._wn.options.time.rule_timestep) + 1\n", silent=True),
    dict(name="quiet-rule-clock-default-then-override", file=CORE, old=_RI_OLD,
         new="        self._rule_iter = 1\n        if not first_step:\n            self._rule_iter = int(self._wn._prev_sim_time // self._wn.options.time.rule_timestep) + 1\n", silent=True),
    dict(name="quiet-rule-clock-inverted-branches", file=CORE, old=_RI_OLD,
         new="        if first_step == False:\n            self._rule_iter = int(self._wn._prev_sim_time // self._wn.options.time.rule_timestep) + 1\n        else:\n            self._rule_iter = 1\n", silent=True),
    dict(name="quiet-first-step-guard-as-comparison", file=CORE, old="        if first_step:\n            wntr.sim.hydraulics.update_network_previous_values(self._wn)\n",
         new="        if first_step != False:\n            wntr.sim.hydraulics.update_network_previous_values(self._wn)\n", silent=True),
    dict(name="quiet-first-step-guard-on-the-clock", file=CORE, old="        if first_step:\n            wntr.sim.hydraulics.update_network_previous_values(self._wn)\n",
         new="        if self._wn.sim_time == 0:\n            wntr.sim.hydraulics.update_network_previous_values(self._wn)\n", silent=True),
    dict(name="quiet-exit-test-negated-and-hoisted", file=CORE, old="            if self._wn.sim_time > self._wn.options.time.duration:\n                break\n",
         new="            end_of_run = self._wn.options.time.duration\n            if not (self._wn.sim_time <= end_of_run):\n                break\n", silent=True),
    dict(name="quiet-advance-spelled-out", file=CORE,
         old="            self._wn.sim_time += self._hydraulic_timestep\n            overstep = float(self._wn.sim_time) % self._hydraulic_timestep\n            self._wn.sim_time -= overstep\n",
         new="            advanced = self._wn.sim_time + self._hydraulic_timestep\n            self._wn.sim_time = advanced - float(advanced) % self._hydraulic_timestep\n", silent=True),
    dict(name="quiet-flag-and-resolve-renamed", file=CORE, old=_FS_OLD,
         new="        if self._wn.sim_time == 0:\n            fresh_start = True\n        else:\n            fresh_start = False\n",
         also=[("        if first_step:\n            self._rule_iter = 1", "        if fresh_start:\n            self._rule_iter = 1"),
               ("        if first_step:\n            wntr.sim.hydraulics.update_network_previous_values", "        if fresh_start:\n            wntr.sim.hydraulics.update_network_previous_values"),
               ("                if not first_step:\n                    \"\"\"", "                if not fresh_start:\n                    \"\"\""),
               ("and_rules(first_step)", "and_rules(fresh_start)"),
               ("            if not first_step and not resolve:", "            if not fresh_start and not solve_again:"),
               ("            first_step = False\n            self._wn.sim_time +=", "            fresh_start = False\n            self._wn.sim_time +="),
               ("        resolve = False\n        # this is used", "        solve_again = False\n        # this is used"),
               ("            if not resolve:\n", "            if not solve_again:\n"),
               ("            if not resolve and self._wn.sim_time > self._wn.options.time.duration:", "            if not solve_again and self._wn.sim_time > self._wn.options.time.duration:"),
               ("                resolve = True\n", "                solve_again = True\n"),
               ("            resolve = False\n            if not isinstance", "            solve_again = False\n            if not isinstance"),
               ("        trial = -1\n", "        n_solves = -1\n"),
               ("                trial = 0\n", "                n_solves = 0\n"),
               ("                trial += 1\n                if trial > max_trials:", "                n_solves += 1\n                if n_solves > max_trials:"),
               ("format(self._get_time(), trial, str(iter_count)", "format(self._get_time(), n_solves, str(iter_count)")],
         silent=True),
    dict(name="quiet-graph-entry-through-temporary", file=CORE, old=_ENC_OLD,
         new="            entry = 0 if link.status == wntr.network.LinkStatus.Closed else 1\n            vals.append(entry)\n            vals.append(entry)\n", silent=True),
    dict(name="quiet-graph-entry-through-temporary-statement", file=CORE, old=_ENC_OLD,
         new="            entry = 1\n            if link.status == wntr.network.LinkStatus.Closed:\n                entry = 0\n            vals.append(entry)\n            vals.append(entry)\n", silent=True),
    dict(name="quiet-graph-encoding-containers-renamed", file=CORE, old="            if link.status == wntr.network.LinkStatus.Closed:\n                vals.append(0)\n                vals.append(0)\n            else:\n                vals.append(1)\n                vals.append(1)\n",
         new="            if link.status == wntr.network.LinkStatus.Closed:\n                entries.append(0)\n                entries.append(0)\n            else:\n                entries.append(1)\n                entries.append(1)\n",
         also=[("        vals = []\n        for link_name, link in itertools.chain", "        entries = []\n        for link_name, link in itertools.chain"),
               ("        vals = np.array(vals, dtype=self._int_dtype)", "        vals = np.array(entries, dtype=self._int_dtype)")], silent=True),
]
