"""C10 -- pausing, pickling and restarting a simulation equals running it uninterrupted.

Necessary structural clause: every piece of state the time-stepping loop carries from one iteration to the next is either kept in
the model (plain picklable attributes) or re-derived from the model when a new simulator starts; nothing loop-carried is reset to a
constant on a continued run.
"""
import ast

from ..src import walk, calls, call_name, last_attr, dotted, norm, loc, const, AnchorError, ExtractError, parent, unparse
from ..cfg import CFG
from ..effects import Universe, writes

CORE = "wntr/sim/core.py"
HYD = "wntr/sim/hydraulics.py"
MODEL = "wntr/network/model.py"
BASE = "wntr/network/base.py"
ELEM = "wntr/network/elements.py"
CTRL = "wntr/network/controls.py"
OPTS = "wntr/network/options.py"

EXPLANATION = (
    "Static state inventory of the restart path: (R-C10-1) the loop-carried attributes of WNTRSimulator -- self.X assigned inside run_sim's "
    "while loop or in a method called from it -- are enumerated; for each, the definition that reaches the loop when run_sim is entered on a "
    "continued run (sim_time != 0) must read the model (self._wn): an assignment of a constant / empty container in __init__ or in the "
    "prologue, not overridden by a model-derived one, loses state on restart; loop-carried locals of run_sim are classified the same way; "
    "(R-C10-2) every run-time field the loop writes on the model lives in a class without __slots__/__getstate__/__reduce__, "
    "ValueCondition.__getnewargs__ agrees with __new__, and the prologue overwrites model-side run-time state only under the first_step guard; "
    "(R-C10-3) first_step is `sim_time == 0`, the loop leaves only after sim_time was advanced past the duration, and the advance returns to "
    "the hydraulic grid, so a continued run starts at the next grid time. Decides this inventory, not numerical equality of the results.")
RULE_TEXT = ("one instance = one loop-carried simulator attribute / local, one model class carrying run-time state, one prologue store, "
             "one exit path; distinct = distinct constructs")
ASSUMPTIONS = [
    "state kept outside WNTRSimulator attributes, run_sim locals and model attributes (e.g. module globals) does not exist in wntr/sim/core.py (module-level assignments are inventoried)",
    "an assignment 'reads the model' if its right-hand side, or the prologue callee it sits in, mentions self._wn / wn; that the derivation is the right one is not decided",
]

INVARIANT = {
    # attribute: reason why a constant definition is fine although the loop touches it -- each confirmed by reading
}


def self_assigns(fn):
    """self attribute -> plain assignments self.a = value"""
    out = {}
    for n in walk(fn, skip_nested=False):
        if isinstance(n, (ast.Assign, ast.AnnAssign)):
            for t in (n.targets if isinstance(n, ast.Assign) else [n.target]):
                for e in (t.elts if isinstance(t, (ast.Tuple, ast.List)) else [t]):
                    if isinstance(e, ast.Attribute) and isinstance(e.value, ast.Name) and e.value.id == "self":
                        out.setdefault(e.attr, []).append(n)
    return out


def self_stores(fn):
    """self attribute -> statements that assign it or mutate the object behind it (self.a = .., self.a.b[i] = .., self.a.add(..))."""
    out = {}
    for recv, attr, aexpr, via, node in writes(fn):
        chain = []
        e = recv
        while isinstance(e, (ast.Attribute, ast.Subscript)):
            if isinstance(e, ast.Attribute):
                chain.append(e.attr)
            e = e.value
        if isinstance(e, ast.Name) and e.id == "self":
            first = chain[-1] if chain else attr
            if first is not None and first not in ("_wn", "wn"):      # state written into the model is kept by the model (R-C10-2)
                out.setdefault(first, []).append(node)
    # local aliases of simulator state: data = self._internal_graph.data; data[i] = v
    alias = {}
    for n in walk(fn, skip_nested=False):
        if isinstance(n, ast.Assign) and len(n.targets) == 1 and isinstance(n.targets[0], ast.Name):
            d = dotted(n.value)
            if d and d.startswith("self.") and d.split(".")[1] not in ("_wn", "wn"):
                alias[n.targets[0].id] = d.split(".")[1]
    for n in walk(fn, skip_nested=False):
        tg = n.targets if isinstance(n, ast.Assign) else ([n.target] if isinstance(n, ast.AugAssign) else [])
        for t in tg:
            if isinstance(t, ast.Subscript) and isinstance(t.value, ast.Name) and t.value.id in alias:
                out.setdefault(alias[t.value.id], []).append(n)
        # state-changing method calls on simulator-owned objects: self._change_tracker.reset_reference_point(..)
        if isinstance(n, ast.Call) and isinstance(n.func, ast.Attribute):
            d = dotted(n.func.value)
            verb = n.func.attr
            if d and d.startswith("self.") and d.count(".") == 1 and d.split(".")[1] not in ("_wn", "wn") and (
                    verb.startswith(("set_", "reset_", "remove_", "register", "deregister")) or verb in ("update", "clear")):
                out.setdefault(d.split(".")[1], []).append(n)
    return out


def self_method_calls(node):
    return [c.func.attr for c in calls(node) if isinstance(c.func, ast.Attribute) and isinstance(c.func.value, ast.Name) and c.func.value.id == "self"]


def closure(cls_methods, names):
    seen, todo = set(), list(names)
    while todo:
        n = todo.pop()
        if n in seen or n not in cls_methods:
            continue
        seen.add(n)
        todo += self_method_calls(cls_methods[n])
    return seen


def mentions_model(expr):
    t = unparse(expr)
    return "self._wn" in t or "self.wn" in t or (isinstance(expr, ast.AST) and any(isinstance(x, ast.Name) and x.id == "wn" for x in ast.walk(expr)))


def is_constant_value(v):
    """constant, empty container or bare constructor call without arguments."""
    if isinstance(v, ast.Constant):
        return True
    if isinstance(v, (ast.List, ast.Tuple, ast.Dict, ast.Set)) and not getattr(v, "elts", getattr(v, "keys", [])):
        return True
    if isinstance(v, ast.Call) and not v.args and not v.keywords:
        return True
    if isinstance(v, ast.UnaryOp) and isinstance(v.operand, ast.Constant):
        return True
    return False


def guard_of(stmt, root):
    """'first' / 'notfirst' / None: nearest enclosing `if first_step` polarity."""
    q = stmt
    while q is not None and q is not root:
        p = parent(q)
        if isinstance(p, ast.If):
            t = unparse(p.test)
            if t in ("first_step", "first_step is True", "first_step == True"):
                return "first" if q in p.body else "notfirst"
            if t in ("not first_step", "first_step is False"):
                return "notfirst" if q in p.body else "first"
        q = p
    return None


def run(repo, chk):
    sim = repo.cls(CORE, "WNTRSimulator")
    base = repo.cls(CORE, "WaterNetworkSimulator")
    meths = {}
    for c in (base, sim):
        for n in c.body:
            if isinstance(n, ast.FunctionDef):
                n._rel = CORE
                n._qual = c.name + "." + n.name
                meths[n.name] = n
    rs = meths.get("run_sim")
    ini = meths.get("__init__")
    if rs is None or ini is None:
        raise AnchorError("WNTRSimulator.run_sim / __init__ vanished")
    chk.fn(rs, ini)
    loops = [n for n in rs.body if isinstance(n, ast.While)]
    if len(loops) != 1:
        raise ExtractError("run_sim: expected exactly one top-level while loop, found %d" % len(loops))
    loop = loops[0]
    prologue = rs.body[:rs.body.index(loop)]
    pro_mod = ast.Module(body=prologue, type_ignores=[])
    loop_mod = ast.Module(body=loop.body, type_ignores=[])
    loop_methods = closure(meths, self_method_calls(loop_mod))
    pro_methods = closure(meths, self_method_calls(pro_mod))
    chk.extra["loop_methods"] = sorted(loop_methods)
    chk.extra["prologue_methods"] = sorted(pro_methods)
    if len(loop_methods) < 6:
        chk.error("only %d simulator methods reachable from the loop (anchors moved?)" % len(loop_methods))

    # ------------------------------------------------------------ R-C10-1 loop-carried simulator attributes
    carried = {}
    for a, sts in self_stores(loop_mod).items():
        carried.setdefault(a, []).extend([("run_sim loop", s) for s in sts])
    for m in sorted(loop_methods):
        for a, sts in self_stores(meths[m]).items():
            carried.setdefault(a, []).extend([(m, s) for s in sts])
    pro_defs = {}
    for a, sts in self_assigns(pro_mod).items():
        pro_defs.setdefault(a, []).extend([("run_sim prologue", s, guard_of(s, rs)) for s in sts])
    for m in sorted(pro_methods):
        for a, sts in self_assigns(meths[m]).items():
            pro_defs.setdefault(a, []).extend([(m, s, None) for s in sts])
    init_defs = self_assigns(ini)
    for m in closure(meths, self_method_calls(ini)):
        if m != "__init__":
            for a, sts in self_assigns(meths[m]).items():
                init_defs.setdefault(a, []).extend(sts)
    inv = []
    for a in sorted(carried):
        where = carried[a][0]
        defs = [d for d in pro_defs.get(a, []) if d[2] != "first"]     # definitions that can reach the loop on a continued run
        construct = "loop-carried simulator state self.%s is re-derived from the model when a continued run starts" % a
        if a in INVARIANT:
            chk.ok("R-C10-1", "self.%s: %s" % (a, INVARIANT[a]), loc(rs))
            continue
        if defs:
            bad = []
            for m, s, g in defs:
                val = s.value if isinstance(s, (ast.Assign, ast.AnnAssign)) else getattr(s, "value", None)
                fn_reads_model = m != "run_sim prologue" and mentions_model(meths[m])
                if val is not None and (mentions_model(val) or fn_reads_model) and not (m == "run_sim prologue" and is_constant_value(val)):
                    continue
                if val is not None and not is_constant_value(val) and m == "run_sim prologue":
                    # derived from other prologue values: accept when those come from the model
                    names = {x.id for x in ast.walk(val) if isinstance(x, ast.Name)}
                    if names and all(any(isinstance(p, ast.Assign) and any(isinstance(t, ast.Name) and t.id == nm for t in p.targets) and mentions_model(p.value)
                                         for p in walk(pro_mod)) for nm in names if nm not in ("int", "float", "len", "dict", "list")):
                        continue
                bad.append((m, s))
            inv.append({"attr": a, "written_in": where[0], "continued_run_definitions": ["%s: %s" % (m, norm(s)) for m, s, g in defs]})
            if bad:
                m, s = bad[0]
                chk.bad("R-C10-1", construct, loc(rs if m == "run_sim prologue" else meths[m], s),
                        "self.%s is assigned in the loop (%s: %s) and the definition reaching the loop on a continued run does not read the model: %s" % (
                            a, where[0], norm(where[1]), norm(s)), expected="a value derived from self._wn", found=norm(s))
            else:
                chk.ok("R-C10-1", construct, loc(rs), "; ".join("%s: %s" % (m, norm(s)) for m, s, g in defs)[:300])
        else:
            idefs = init_defs.get(a, [])
            inv.append({"attr": a, "written_in": where[0], "continued_run_definitions": ["__init__: %s" % norm(s) for s in idefs]})
            if not idefs:
                chk.bad("R-C10-1", construct, loc(rs, where[1]), "self.%s is written in the loop but has no definition before it" % a)
                continue
            const_defs = [s for s in idefs if isinstance(s, ast.Assign) and is_constant_value(s.value)]
            s = idefs[0]
            chk.expect(not const_defs, "R-C10-1", construct, loc(ini, s),
                       "self.%s is assigned in the loop (%s: %s); a new simulator starts it from the constant %s and nothing in the prologue re-derives it from "
                       "the model: a continued run differs from the uninterrupted one whenever this state is non-trivial at the pause" % (
                           a, where[0], norm(where[1]), norm(s)), expected="a prologue assignment reading self._wn", found=norm(s))
    chk.sample({"rule": "R-C10-1", "inventory": inv[:20]})
    chk.floor("R-C10-1", 5)

    # loop-carried locals of run_sim: assigned in the loop and read in the loop before being assigned on some path -> must not start from a
    # constant that depends on elapsed time; enumerated and classified
    loc_assigned = {}
    for n in walk(loop_mod):
        if isinstance(n, (ast.Assign, ast.AugAssign)):
            for t in (n.targets if isinstance(n, ast.Assign) else [n.target]):
                for e in (t.elts if isinstance(t, (ast.Tuple, ast.List)) else [t]):
                    if isinstance(e, ast.Name):
                        loc_assigned.setdefault(e.id, []).append(n)
    LOCAL_OK = {
        "trial": "counter of re-solves within one time step; reset to 0 at the start of every step",
        "resolve": "flag of the re-solve loop within one time step; False at every accepted step, i.e. at every possible pause point",
        "first_step": "derived from sim_time == 0 in the prologue",
    }
    for nm in sorted(loc_assigned):
        pdefs = [n for n in walk(pro_mod) if isinstance(n, ast.Assign) and any(isinstance(t, ast.Name) and t.id == nm for t in n.targets)]
        if not pdefs:
            chk.ok("R-C10-1b", "run_sim local %s is loop-local scratch (no definition before the loop)" % nm, loc(rs, loc_assigned[nm][0]))
            continue
        derived = any(mentions_model(p.value) or guard_of(p, rs) is not None for p in pdefs)
        chk.expect(derived or nm in LOCAL_OK, "R-C10-1b", "run_sim local %s carried across iterations is re-derived from the model on a continued run" % nm, loc(rs, pdefs[0]),
                   "local %s is initialised to %s before the loop and updated inside it" % (nm, norm(pdefs[0].value)),
                   found=[norm(p) for p in pdefs]) if not (nm in LOCAL_OK and not derived) else chk.ok(
            "R-C10-1b", "run_sim local %s: %s" % (nm, LOCAL_OK[nm]), loc(rs, pdefs[0]))
    chk.floor("R-C10-1b", 3)
    # `resolve` / `trial` exemption re-checked: the accepted-step path sets resolve = False before the time advance
    g = CFG(rs)
    adv = g.nodes_where(lambda node, d: isinstance(node, ast.AugAssign) and unparse(node.target) == "self._wn.sim_time" and isinstance(node.op, ast.Add))
    rf = g.nodes_where(lambda node, d: isinstance(node, ast.Assign) and unparse(node.targets[0]) == "resolve" and const(node.value) is False and node.lineno > loop.lineno)
    idom = g.dominators()
    chk.expect(bool(adv) and bool(rf) and all(any(g.dominates(r, a, idom) for r in rf) for a in adv), "R-C10-1b",
               "every time advance is dominated by `resolve = False` (no pause point inside a re-solve)", loc(rs), found=(len(adv), len(rf)))

    # ------------------------------------------------------------ R-C10-4 initialisation agrees with the loop's own update
    # the connectivity graph is loop-carried state: what a new simulator derives from the model at the start of a continued run must be what the
    # uninterrupted run's update rule would have produced -- both encode a link from the same atoms (its status), nothing else
    from .c09 import status_guards, status_encoding_table
    ig_, ug_ = meths.get("_initialize_internal_graph"), meths.get("_update_internal_graph")
    if ig_ is None or ug_ is None:
        raise AnchorError("_initialize_internal_graph / _update_internal_graph vanished")
    is_vals = lambda n: isinstance(n, ast.Call) and isinstance(n.func, ast.Attribute) and n.func.attr == "append" and unparse(n.func.value) == "vals"
    is_data = lambda n: isinstance(n, ast.Assign) and (unparse(n.targets[0]).startswith("data[") or "_internal_graph" in unparse(n.targets[0]))
    gi_ = status_guards(ig_, lambda n: is_vals(n) or is_data(n))
    gu_ = status_guards(ug_, is_data)
    if not gi_ or not gu_:
        raise ExtractError("status encodings of the internal graph not found")

    def atoms_of(guards):
        out = set()
        for gd in guards:
            out |= set(status_encoding_table(gd.test)[2])
        return out
    ai, au = atoms_of(gi_), atoms_of(gu_)
    chk.expect(ai == au, "R-C10-4", "the initial connectivity graph of a (continued) run is derived from the same link facts as the per-step update", loc(ig_, gi_[0]),
               "a new simulator encodes links from %s in addition to the status, the update inside the loop from %s: a graph entry set from run-time flags at restart "
               "is never refreshed by the update (it only reacts to status changes), so the continued run keeps a stale entry the uninterrupted run never had" % (sorted(ai) or "nothing", sorted(au) or "nothing"),
               expected=sorted(au), found=sorted(ai))

    # ------------------------------------------------------------ R-C10-2 model-side state is plain picklable attributes
    rt_classes = [(BASE, "Node"), (BASE, "Link"), (ELEM, "Junction"), (ELEM, "Tank"), (ELEM, "Reservoir"), (ELEM, "Pipe"), (ELEM, "Pump"),
                  (ELEM, "HeadPump"), (ELEM, "PowerPump"), (ELEM, "Valve"), (MODEL, "WaterNetworkModel"), (CTRL, "TankLevelCondition"),
                  (CTRL, "ValueCondition"), (CTRL, "SimTimeCondition"), (CTRL, "TimeOfDayCondition"), (CTRL, "Control"), (CTRL, "Rule"),
                  (CTRL, "ControlAction")]
    hooks = ("__getstate__", "__setstate__", "__reduce__", "__reduce_ex__", "__slots__", "__deepcopy__", "__copy__")
    for rel, cn in rt_classes:
        if not repo.has_cls(rel, cn):
            raise AnchorError("class %s vanished from %s" % (cn, rel))
        c = repo.cls(rel, cn)
        found = []
        for n in c.body:
            if isinstance(n, ast.FunctionDef) and n.name in hooks:
                found.append(n.name)
            if isinstance(n, ast.Assign) and any(isinstance(t, ast.Name) and t.id in hooks for t in n.targets):
                found.append("__slots__")
        chk.expect(not found, "R-C10-2", "%s keeps its run-time state in plain instance attributes (no %s)" % (cn, "/".join(hooks[:5])), loc(rel, c),
                   "a pickling hook can drop or rename run-time fields between pause and restart", found=found)
    vc = repo.cls(CTRL, "ValueCondition")
    vm = {n.name: n for n in vc.body if isinstance(n, ast.FunctionDef)}
    if "__new__" in vm and "__getnewargs__" in vm:
        new_params = [a.arg for a in vm["__new__"].args.args][1:]
        ret = [r for r in walk(vm["__getnewargs__"]) if isinstance(r, ast.Return)]
        elts = ret[0].value.elts if ret and isinstance(ret[0].value, ast.Tuple) else []
        got = [unparse(e).replace("self._", "") for e in elts]
        chk.expect(len(elts) == len(new_params) and all(g.startswith(p[:6]) or p in g for g, p in zip(got, new_params)), "R-C10-2",
                   "ValueCondition.__getnewargs__ returns the arguments of __new__ in order", loc(CTRL, vm["__getnewargs__"]),
                   expected=new_params, found=got)
    elif "__new__" in vm:
        chk.bad("R-C10-2", "ValueCondition defines __new__ with arguments but no __getnewargs__ (unpickling fails)", loc(CTRL, vm["__new__"]))
    # prologue stores to the model only under first_step
    n_p = 0
    for recv, attr, ae, via, node in writes(ast.Module(body=prologue, type_ignores=[])):
        rv = unparse(recv)
        if rv.startswith("self._wn") or rv == "wn":
            n_p += 1
            chk.expect(guard_of(node, rs) == "first", "R-C10-2", "prologue store %s.%s happens only on a first step" % (rv, attr), loc(rs, node),
                       "run_sim overwrites model-side run-time state before the loop on a continued run", found=norm(node))
    for c in calls(ast.Module(body=prologue, type_ignores=[])):
        nm = call_name(c) or ""
        if nm.endswith("update_network_previous_values") or nm.endswith("reset_initial_values"):
            n_p += 1
            chk.expect(guard_of(c, rs) == "first" or guard_of(parent(c), rs) == "first", "R-C10-2", "prologue call %s happens only on a first step" % nm.split(".")[-1], loc(rs, c))
    chk.floor("R-C10-2", len(rt_classes) + 2)

    # ------------------------------------------------------------ R-C10-3 continuation point
    fs = [n for n in walk(pro_mod) if isinstance(n, ast.If) and any(isinstance(s, ast.Assign) and unparse(s.targets[0]) == "first_step" for s in n.body)]
    ok_fs = False
    if fs:
        t = unparse(fs[0].test)
        tv = [const(s.value) for s in fs[0].body if isinstance(s, ast.Assign) and unparse(s.targets[0]) == "first_step"]
        ev = [const(s.value) for s in fs[0].orelse if isinstance(s, ast.Assign) and unparse(s.targets[0]) == "first_step"]
        ok_fs = t in ("self._wn.sim_time == 0", "self._wn.sim_time == 0.0") and tv == [True] and ev == [False]
    else:
        a = [n for n in walk(pro_mod) if isinstance(n, ast.Assign) and unparse(n.targets[0]) == "first_step"]
        ok_fs = bool(a) and unparse(a[0].value) in ("self._wn.sim_time == 0", "self._wn.sim_time == 0.0")
    chk.expect(ok_fs, "R-C10-3", "first_step is exactly `sim_time == 0`", loc(rs), found=unparse(fs[0].test) if fs else None)
    # normal loop exit: break under `sim_time > duration`, dominated by the advance
    exits = g.nodes_where(lambda node, d: isinstance(node, ast.Break))
    normal = []
    for b in exits:
        p = parent(g.node_ast(b))
        if isinstance(p, ast.If) and "options.time.duration" in unparse(p.test):
            normal.append((b, p))
    chk.expect(len(normal) == 1 and unparse(normal[0][1].test).replace(" ", "") == "self._wn.sim_time>self._wn.options.time.duration", "R-C10-3",
               "the loop ends normally only when sim_time > duration", loc(rs), found=[unparse(p.test) for b, p in normal])
    if normal:
        chk.expect(all(g.dominates(a, normal[0][0], idom) for a in adv[:1]) and bool(adv), "R-C10-3",
                   "the normal exit is reached only after sim_time was advanced by the hydraulic timestep (a continued run starts at the next grid time)", loc(rs))
        # the advance returns to the grid: sim_time -= sim_time % hydraulic_timestep
        txt = unparse(ast.Module(body=loop.body, type_ignores=[]))
        chk.expect("self._wn.sim_time += self._hydraulic_timestep" in txt and "% self._hydraulic_timestep" in txt and "self._wn.sim_time -= overstep" in txt, "R-C10-3",
                   "the time advance adds one hydraulic timestep and removes the overstep (returns to the grid after a partial step)", loc(rs))
        # and nothing between the advance and the exit test stores results or changes state again
        upv = g.calling("update_network_previous_values")
        chk.expect(bool(upv) and all(any(g.dominates(u, a, idom) for u in upv if g.g.nodes[u]["line"] > loop.lineno) for a in adv), "R-C10-3",
                   "the accepted state is recorded (update_network_previous_values) before every time advance", loc(rs))
    chk.floor("R-C10-3", 4)


WITNESSES = [
    dict(name="restart-graph-from-isolation-flags", file=CORE, old="            if link.status == wntr.network.LinkStatus.Closed:\n                vals.append(0)",
         new="            if link.status == wntr.network.LinkStatus.Closed or link._is_isolated:\n                vals.append(0)", rule="R-C10-4"),
    dict(name="rule-clock-reset-on-restart", file=CORE, old="            self._rule_iter = int(self._wn._prev_sim_time // self._wn.options.time.rule_timestep) + 1\n",
         new="            self._rule_iter = 1\n", rule="R-C10-1"),
    dict(name="isolated-sets-not-seeded", file=CORE,
         old="        self._prev_isolated_junctions = OrderedSet(name for name, junction in self._wn.junctions() if junction._is_isolated)\n", new="", rule="R-C10-1"),
    dict(name="new-loop-carried-counter", file=CORE, old="            first_step = False\n            self._wn.sim_time += self._hydraulic_timestep\n",
         new="            first_step = False\n            self._steps_done += 1\n            self._wn.sim_time += self._hydraulic_timestep\n", rule="R-C10-1"),
    dict(name="prologue-resets-prev-time-always", file=CORE, old="        if first_step:\n            wntr.sim.hydraulics.update_network_previous_values(self._wn)\n            self._wn._prev_sim_time = -1\n",
         new="        wntr.sim.hydraulics.update_network_previous_values(self._wn)\n        self._wn._prev_sim_time = -1\n", rule="R-C10-2"),
    dict(name="tank-condition-drops-state-on-pickle", file=CTRL, old="    def _reset(self):\n        self._last_value = getattr(self._source_obj, self._source_attr)",
         new="    def __getstate__(self):\n        d = dict(self.__dict__)\n        d.pop('_last_value', None)\n        return d\n\n    def _reset(self):\n        self._last_value = getattr(self._source_obj, self._source_attr)", rule="R-C10-2"),
    dict(name="exit-before-advance", file=CORE, old="            if self._wn.sim_time > self._wn.options.time.duration:\n                break\n",
         new="            if self._wn.sim_time >= self._wn.options.time.duration:\n                break\n", rule="R-C10-3"),
    dict(name="first-step-from-prev-time", file=CORE, old="        if self._wn.sim_time == 0:\n            first_step = True", new="        if self._wn._prev_sim_time is None:\n            first_step = True", rule="R-C10-3"),
]
