"""C16 -- runs terminate with well-formed results and never hide a failed step (path rules on run_sim / solve).

The rules are stated over ROLES as far as the data flow below carries; the operands that remain after resolution ARE compared as text
(see the last item).  Techniques (DESIGN 2b): R-C16-1, -2, -3, -6 are T1 structural (CFG reachability with cut branch edges, dominators,
reaching definitions / origins); R-C16-4 is T3 (initialize_results_dict / save_results / get_results run by the in-house interpreter on a mock model,
pandas replaced by sa/minipandas.py); R-C16-7 is T1 error discipline with a small table of library contracts; R-C16-5 is T1 (must-pass / dominance for advance, duration test, continue)
plus T2+T3 for "timestep is an integer >= 1": the formula of TimeOptions.__setattr__ is extracted symbolically and then only evaluated on
6 sample values (-7/2, 0, 2/5, 1, 79/10, 3600).

* a statement CFG (sa/cfg.py) is enriched with reaching definitions (class Flow below).  Every expression a rule looks at is
  first *resolved*: a local name with one reaching, call-free definition whose inputs are not rewritten in between is replaced
  by that definition (`t = self._wn.sim_time ... int(t)` reads `int(self._wn.sim_time)`); names with several definitions or
  call results are followed to their *origins* (`solver_status` -> element 0 of `_solver_helper(...)`), through copies, tuple
  packing/unpacking and conditional expressions.
* the POLARITY of a branch test is not matched as text: either the test is evaluated on two values its role can take (solver status
  0/1, trial counter far below / far above the bound, convergence_error False/True; sa/peval.py) which yields the OUTCOME edge on
  which the fact holds, or it is decomposed into the literals each outcome implies (`not`, and/or, ==/!=, </>=, `x == False`),
  so `if a != 0: return` and `if a == 0: ...` guard the same edge.  Path obligations are then reachability questions on the CFG
  with those edges cut.
* a failed status may be followed by a retry: from the failure edge of a status test the obligations (no store/save/append, warn, set
  error_code, leave the loop, raise iff convergence_error) are decided on the executions that make NO further `_solver_helper` call
  and on which later tests of the same, not re-assigned status variable fail too - so `solve; if failed and backup: solve; if failed:`
  and `for attempt in attempts: solve; if not failed: break` followed by `if failed:` are one shape, however "failed" is spelled
  (== 0, == SolverStatus.error with the value read from solvers.py, `not status`).
* the objects are found by role: the results object is what run_sim returns, the clock is what is advanced by the hydraulic
  timestep attribute that _setup_sim_options fills from options.time.hydraulic_timestep, the status / message / count variables
  are whatever receives the elements of _solver_helper's triple, the tables of hydraulics.py are the positional parameters.
* what is still matched as TEXT after that: the OPERANDS of the literals -- R-C16-2 recognises the tolerance test by the regex
  for an attribute `self.<..tol..>` and `abs(` / `norm(`, `len(...)`, fsolve's `ier`, and the failure reports by four message substrings; R-C16-3
  compares the appended argument with `int(<clock>)`, the duplicate test with `<res>.time[-1]` and isinstance type names as unparsed text
  and needs the clock attribute to be named sim_time; R-C16-5 needs the duration literal to end in `options.time.duration`; R-C16-6 reads format specs by regex on string constants.
"""
import ast
import re

import networkx as nx
import sympy as sp

from ..src import walk, call_name, dotted, const, loc, unparse, norm, AnchorError, ExtractError, last_attr, str_consts
from ..cfg import CFG
from ..symx import SymExec, Opaque
from ..peval import Evaluator, Unknown

CORE = "wntr/sim/core.py"
SOLV = "wntr/sim/solvers.py"
HYD = "wntr/sim/hydraulics.py"
OPT = "wntr/network/options.py"
RES = "wntr/sim/results.py"

EXPLANATION = (
    "T1 structural rules on a statement CFG of WNTRSimulator.run_sim, NewtonSolver.solve and _solver_helper with reaching definitions (variables "
    "identified by what flows into them; branch polarity by evaluating the test on two role values; the remaining operands compared as text / regex). "
    "R-C16-1: every path from a solver call to store_results_in_network passes a test decided by the status of that solve; from the failure and "
    "trial-limit edges every exit raises (only, and always, under convergence_error) or passes warnings.warn and `results.error_code = "
    "ResultsStatus.error` and leaves the loop, never reaching store/save/append. R-C16-2: every return of solve/_solver_helper is a (SolverStatus, "
    "message, count) triple, `converged` only behind the tolerance test (regex on self.*tol*, abs/norm) or fsolve's ier == 1, exceptions and maxiter "
    "give `error` (message substrings), loops are range loops. R-C16-3: each save_results is followed by exactly one results.time.append(int(sim_time)) "
    "or a raise, behind the duplicate-time test (text comparison). R-C16-4 (T3, one mock model with every element family, three saved steps): after initialize_results_dict, save_results per "
    "step and get_results every node / link table has one column per element, one row per reported time and holds the values the elements had when saved. R-C16-7 "
    "(T1): the handlers that report SolverStatus.error cover the failure signals of the external routine they guard (table of library contracts; catch-all around "
    "the caller-supplied solver). R-C16-5: the accepted path advances the clock by the hydraulic timestep before the duration test, every continue "
    "is dominated by the trial increment and test (T1); the timestep formula of TimeOptions.__setattr__ is extracted (T2) and checked to be an integer "
    ">= 1 on 6 sample values only (T3). R-C16-6: no format spec on the possibly-None iteration count; report_timestep classified by the same isinstance "
    "types in set-up and loop; solve's loop variable pre-bound. Decides control-flow discipline, not finiteness of numbers.")
RULE_TEXT = "one instance = one path obligation (source node, target set, required via set / cut edges) or one family/key table entry"
ASSUMPTIONS = ["only explicit raise statements and try/except edges are modelled as exceptional flow", "termination when back-tracking keeps producing new partial steps is not decided",
               "a local alias of an attribute chain is assumed to keep its value across calls (only explicit stores between definition and use invalidate it)",
               "operands of branch tests are recognised by text / regex after resolution (self.*tol*, abs( / norm(, <res>.time[-1], int(<clock>), options.time.duration, four error-message substrings)",
               "R-C16-5 checks `hydraulic timestep is an integer >= 1` on the sample values -7/2, 0, 2/5, 1, 79/10, 3600, not for every input"]


# ===================================================================================================== data flow on the CFG
PURE_CALLS = {"int", "float", "len", "str", "bool", "abs", "min", "max", "isinstance", "round", "tuple", "list", "repr"}
_COMPS = (ast.ListComp, ast.SetComp, ast.GeneratorExp, ast.DictComp)


def _copy(n):
    """deep copy of an AST by its fields only (the trees carry _parent back links, which copy.deepcopy would follow)."""
    if isinstance(n, list):
        return [_copy(x) for x in n]
    if not isinstance(n, ast.AST):
        return n
    new = n.__class__()
    for f in n._fields:
        if hasattr(n, f):
            setattr(new, f, _copy(getattr(n, f)))
    for a in ("lineno", "col_offset", "end_lineno", "end_col_offset"):
        if hasattr(n, a):
            setattr(new, a, getattr(n, a))
    return new


def _copy_replace(n, target, repl):
    if n is target:
        return _copy(repl)
    if isinstance(n, list):
        return [_copy_replace(x, target, repl) for x in n]
    if not isinstance(n, ast.AST):
        return n
    new = n.__class__()
    for f in n._fields:
        if hasattr(n, f):
            setattr(new, f, _copy_replace(getattr(n, f), target, repl))
    for a in ("lineno", "col_offset", "end_lineno", "end_col_offset"):
        if hasattr(n, a):
            setattr(new, a, getattr(n, a))
    return new


def _first_ifexp(e):
    """the conditional expression that is evaluated first in e, provided nothing impure is evaluated before its test; else None."""
    state = {"hit": None, "stop": False}

    def visit(n):
        if state["hit"] is not None or state["stop"]:
            return
        if isinstance(n, ast.IfExp):
            state["hit"] = n
            return
        if isinstance(n, (ast.Lambda,) + _COMPS):
            return
        if isinstance(n, ast.BoolOp):
            visit(n.values[0])
            if state["hit"] is None and not all(Flow.pure(v) for v in n.values[1:]):
                state["stop"] = True
            return
        for c in ast.iter_child_nodes(n):
            visit(c)
            if state["hit"] is not None or state["stop"]:
                return
        if isinstance(n, ast.Call) and not Flow.pure(n):
            state["stop"] = True
    visit(e)
    return state["hit"]


def lower_conditional_expressions(fn):
    """copy of fn in which `x = a if c else b` / `return a if c else b` (also inside a tuple, a call argument...) is the
    statement `if c: x = a  else: x = b`, so that conditional expressions and if statements have one CFG shape."""
    new = _copy(fn)
    for a in ("_rel", "_qual"):
        if hasattr(fn, a):
            setattr(new, a, getattr(fn, a))

    def split(s, depth=0):
        if depth > 6 or not isinstance(s, (ast.Assign, ast.AnnAssign, ast.AugAssign, ast.Return, ast.Expr)) or getattr(s, "value", None) is None:
            return s
        ie = _first_ifexp(s.value)
        if ie is None:
            return s
        a, b = _copy_replace(s, ie, ie.body), _copy_replace(s, ie, ie.orelse)
        r = ast.If(test=_copy(ie.test), body=[split(a, depth + 1)], orelse=[split(b, depth + 1)])
        for at in ("lineno", "col_offset", "end_lineno", "end_col_offset"):
            if hasattr(s, at):
                setattr(r, at, getattr(s, at))
        return r

    def block(stmts):
        out = []
        for s in stmts:
            if isinstance(s, (ast.FunctionDef, ast.AsyncFunctionDef, ast.ClassDef)):
                out.append(s)
                continue
            for f in ("body", "orelse", "finalbody"):
                b = getattr(s, f, None)
                if isinstance(b, list) and b and isinstance(b[0], ast.stmt):
                    setattr(s, f, block(b))
            for h in getattr(s, "handlers", []) or []:
                h.body = block(h.body)
            out.append(split(s))
        return out
    new.body = block(new.body)
    for n in ast.walk(new):
        for c in ast.iter_child_nodes(n):
            c._parent = n
    return new


def _target_names(t):
    if isinstance(t, ast.Name):
        return [t.id]
    if isinstance(t, (ast.Tuple, ast.List)):
        return [n for e in t.elts for n in _target_names(e)]
    if isinstance(t, ast.Starred):
        return _target_names(t.value)
    return []


class Leaf(object):
    """one origin of a value: kind in expr / param / unbound / opaque (loop target, augmented assignment, import...)."""
    __slots__ = ("kind", "ast", "node", "name")

    def __init__(self, kind, a, node, name=None):
        self.kind, self.ast, self.node, self.name = kind, a, node, name

    def text(self):
        return unparse(self.ast) if self.ast is not None else "<%s %s>" % (self.kind, self.name)

    def __repr__(self):
        return "Leaf(%s, %s @%s)" % (self.kind, self.text()[:60], self.node)


_PARAM, _UNBOUND = "param", "unbound"


class Flow(object):
    """CFG of one function + reaching definitions + def-use resolution."""

    def __init__(self, fn):
        self.source_fn = fn
        fn = lower_conditional_expressions(fn)
        self.fn = fn
        self.g = CFG(fn)
        self.G = self.g.g
        self.defs = {}      # node -> [(name, value ast | None | _PARAM | _UNBOUND, may)]
        self.stores = {}    # node -> [dotted text of attribute / subscript-base targets]
        self._collect()
        self._reach()
        self._between = {}
        self._rcache = {}

    # -------------------------------------------------------------------------------------------- definitions
    def _bind(self, t, value, out, st):
        if isinstance(t, ast.Name):
            out.append((t.id, value, False))
        elif isinstance(t, (ast.Tuple, ast.List)):
            if isinstance(value, (ast.Tuple, ast.List)) and len(value.elts) == len(t.elts) and not any(isinstance(e, ast.Starred) for e in list(t.elts) + list(value.elts)):
                for e, v in zip(t.elts, value.elts):
                    self._bind(e, v, out, st)
            else:
                for i, e in enumerate(t.elts):
                    if isinstance(e, ast.Starred) or value is None or any(isinstance(x, ast.Starred) for x in t.elts):
                        self._bind(e.value if isinstance(e, ast.Starred) else e, None, out, st)
                    else:
                        self._bind(e, ast.Subscript(value=value, slice=ast.Constant(value=i), ctx=ast.Load()), out, st)
        elif isinstance(t, ast.Attribute):
            d = dotted(t)
            st.append(d if d is not None else "?")
        elif isinstance(t, ast.Subscript):
            d = dotted(t.value)
            st.append(d if d is not None else "?")

    def _collect(self):
        assigned = set()
        for i, d in self.G.nodes(data=True):
            out, st = [], []
            kind, n = d["kind"], d["node"]
            if kind == "except":
                if getattr(n, "name", None):
                    out.append((n.name, None, False))
            elif kind == "loophead":
                s = d.get("stmt")
                if isinstance(s, ast.For):
                    tmp = []
                    self._bind(s.target, None, tmp, st)
                    out.extend((nm, None, True) for nm, _, _ in tmp)   # zero iterations bind nothing
            elif kind == "stmt":
                if n is None:
                    out.append((d["label"].split(" ", 1)[-1], None, False))
                elif isinstance(n, ast.Assign):
                    for t in n.targets:
                        self._bind(t, n.value, out, st)
                elif isinstance(n, ast.AnnAssign):
                    if n.value is not None:
                        self._bind(n.target, n.value, out, st)
                elif isinstance(n, ast.AugAssign):
                    self._bind(n.target, None, out, st)
                elif isinstance(n, ast.With):
                    for it in n.items:
                        if it.optional_vars is not None:
                            self._bind(it.optional_vars, None, out, st)
                elif isinstance(n, (ast.Import, ast.ImportFrom)):
                    for a in n.names:
                        out.append(((a.asname or a.name).split(".")[0], None, False))
                elif isinstance(n, ast.Delete):
                    for t in n.targets:
                        self._bind(t, None, out, st)
            for e in self.own_exprs(i):
                for x in walk(e):
                    if isinstance(x, ast.NamedExpr):
                        out.append((x.target.id, None, False))
            self.defs[i] = out
            self.stores[i] = st
            assigned.update(nm for nm, _, _ in out)
        a = self.fn.args
        params = [x.arg for x in a.posonlyargs + a.args + a.kwonlyargs] + [x.arg for x in (a.vararg, a.kwarg) if x is not None]
        self.params = params
        self.defs[self.g.entry] = [(p, _PARAM, False) for p in params] + [(nm, _UNBOUND, False) for nm in sorted(assigned) if nm not in params]
        self.locals = assigned | set(params)

    def own_exprs(self, i):
        """the expressions evaluated AT node i (not the nested blocks of a with statement)."""
        d = self.G.nodes[i]
        n = d["node"]
        if n is None or d["kind"] == "except":
            return []
        if isinstance(n, ast.With):
            return [it.context_expr for it in n.items]
        return [n]

    def _reach(self):
        G = self.G
        gen, kill = {}, {}
        for i in G.nodes:
            gen[i] = frozenset((nm, i) for nm, _, _ in self.defs[i])
            kill[i] = frozenset(nm for nm, _, may in self.defs[i] if not may)
        self.gen, self.kill = gen, kill
        self.IN = self.propagate({self.g.entry: frozenset()})

    def _out(self, i, inset):
        k = self.kill[i]
        return self.gen[i] | frozenset(d for d in inset if d[0] not in k)

    def propagate(self, seeds, graph=None):
        """forward may-analysis from the seed nodes (node -> IN set); only nodes reachable from the seeds get an entry."""
        G = graph if graph is not None else self.G
        IN = {i: frozenset(s) for i, s in seeds.items()}
        work = list(seeds)
        while work:
            a = work.pop()
            out = self._out(a, IN[a])
            for _, b, d in G.out_edges(a, data=True):
                contrib = out | IN[a] if d.get("cond") == "exc" else out
                cur = IN.get(b)
                new = contrib if cur is None else cur | contrib
                if cur is None or new != cur:
                    IN[b] = new
                    work.append(b)
        return IN

    def flow_from(self, node):
        """reaching definitions restricted to the executions that pass `node` (what holds downstream of it)."""
        return self.propagate({node: self.IN.get(node, frozenset())})

    def flow_from_edge(self, t, outcome, graph=None):
        m = {}
        for b in self.g.succ_on(t, outcome):
            m[b] = self._out(t, self.IN.get(t, frozenset()))
        return self.propagate(m, graph) if m else {}

    def given(self, t, outcome, avoid=()):
        """the CFG of the executions that left test t on `outcome`: a later test that implies exactly the same literals on one of its
        edges (and whose inputs are not rewritten in between, on the paths that do not pass a node of avoid) leaves on that edge too,
        so its other edge is removed."""
        want = {repr(l) for l in self.implied(t, outcome)}
        g = self.G.copy()
        g.remove_edges_from([(t, b) for b in self.g.succ_on(t, not outcome)])
        if not want:
            return g
        for t2 in self.tests():
            if t2 == t:
                continue
            for o2 in (True, False):
                if {repr(l) for l in self.implied(t2, o2)} == want and self.stable(t, t2, self.rtest(t2), avoid) and t2 in nx.descendants(self.G, t):
                    g.remove_edges_from([(t2, b) for b in self.g.succ_on(t2, not o2)])
        return g

    def reaching(self, name, at, rmap=None):
        """[(def node, value)] of the definitions of `name` that reach the entry of node `at`."""
        ins = (rmap or {}).get(at)
        if ins is None:
            ins = self.IN.get(at, frozenset())
        out = []
        for nm, dn in ins:
            if nm == name:
                for n2, v, _ in self.defs[dn]:
                    if n2 == name:
                        out.append((dn, v))
        return sorted(out, key=lambda x: x[0])

    # ---------------------------------------------------------------------------------------------- resolution
    @staticmethod
    def pure(e):
        for x in ast.walk(e):
            if isinstance(x, ast.Call) and not (isinstance(x.func, ast.Name) and x.func.id in PURE_CALLS):
                return False
            if isinstance(x, (ast.Await, ast.Yield, ast.YieldFrom, ast.NamedExpr, ast.Lambda) + _COMPS):
                return False
        return True

    @staticmethod
    def reads(e):
        """maximal dotted chains and bare names read by e."""
        out = set()

        def visit(n):
            d = dotted(n) if isinstance(n, (ast.Attribute, ast.Name)) else None
            if d is not None:
                out.add(d)
                return
            for c in ast.iter_child_nodes(n):
                visit(c)
        visit(e)
        return out

    def between(self, d, u, avoid=()):
        """nodes that may execute after definition node d and before use node u without d (or a node of avoid) being executed again."""
        key = (d, u, tuple(sorted(avoid)))
        if key not in self._between:
            H = self.G.copy()
            H.remove_nodes_from([n for n in avoid if n not in (d, u)])
            H.remove_edges_from(list(H.in_edges(d)))
            after = nx.descendants(H, d)
            before = nx.ancestors(H, u) if u in H else set()
            self._between[key] = (after & before) - {d}
        return self._between[key]

    def stable(self, d, u, value, avoid=()):
        """no explicit store between d and u rewrites something `value` reads."""
        rd = self.reads(value)
        if not rd:
            return True
        for n in self.between(d, u, avoid):
            written = list(self.stores[n]) + [nm for nm, _, _ in self.defs[n]]
            for w in written:
                if w == "?":
                    return False
                for r in rd:
                    if r == w or r.startswith(w + ".") or w.startswith(r + "."):
                        return False
        return True

    def resolve(self, expr, at, rmap=None, depth=0, used=None):
        """copy of expr with every local name that has ONE reaching, call-free, still valid definition replaced by it."""
        flow = self

        class T(ast.NodeTransformer):
            def __init__(self):
                self.bound = []

            def visit_Name(self, n):
                if not isinstance(n.ctx, ast.Load) or any(n.id in b for b in self.bound) or depth > 8:
                    return n
                ds = flow.reaching(n.id, at, rmap)
                if len(ds) != 1:
                    return n
                dn, v = ds[0]
                if not isinstance(v, ast.AST) or not flow.pure(v) or not flow.stable(dn, at, v):
                    return n
                if used is not None:
                    used.add(dn)
                return flow.resolve(v, dn, rmap, depth + 1, used)

            def _comp(self, n):
                names = set()
                for gnr in n.generators:
                    names.update(_target_names(gnr.target))
                n.generators[0].iter = self.visit(n.generators[0].iter)
                self.bound.append(names)
                for k, gnr in enumerate(n.generators):
                    if k:
                        gnr.iter = self.visit(gnr.iter)
                    gnr.ifs = [self.visit(x) for x in gnr.ifs]
                for f in ("elt", "key", "value"):
                    if hasattr(n, f):
                        setattr(n, f, self.visit(getattr(n, f)))
                self.bound.pop()
                return n
            visit_ListComp = visit_SetComp = visit_GeneratorExp = visit_DictComp = _comp

            def visit_Lambda(self, n):
                a = n.args
                self.bound.append({x.arg for x in a.posonlyargs + a.args + a.kwonlyargs} | {x.arg for x in (a.vararg, a.kwarg) if x is not None})
                n.body = self.visit(n.body)
                self.bound.pop()
                return n
        return T().visit(_copy(expr))

    def rnode(self, i):
        """resolved copies of the expressions evaluated at node i."""
        if i not in self._rcache:
            self._rcache[i] = [self.resolve(e, i) for e in self.own_exprs(i)]
        return self._rcache[i]

    def rtext(self, e, at, rmap=None):
        return unparse(self.resolve(e, at, rmap))

    def origins(self, expr, at, rmap=None, _seen=None):
        """the leaf expressions whose value may flow into `expr` at node `at` (through copies, packing/unpacking, x if c else y)."""
        seen = _seen or frozenset()
        if isinstance(expr, ast.Name) and isinstance(expr.ctx, ast.Load):
            if expr.id not in self.locals:
                return [Leaf("expr", expr, at)]
            ds = self.reaching(expr.id, at, rmap)
            out = []
            for dn, v in ds:
                if v is _PARAM:
                    out.append(Leaf("param", None, dn, expr.id))
                elif v is _UNBOUND:
                    out.append(Leaf("unbound", None, at, expr.id))
                elif v is None:
                    out.append(Leaf("opaque", None, dn, expr.id))
                elif (expr.id, dn) in seen:
                    continue
                else:
                    out.extend(self.origins(v, dn, rmap, seen | {(expr.id, dn)}))
            return out
        if isinstance(expr, ast.IfExp):
            return self.origins(expr.body, at, rmap, seen) + self.origins(expr.orelse, at, rmap, seen)
        if isinstance(expr, ast.Subscript) and isinstance(const(expr.slice), int) and not isinstance(const(expr.slice), bool):
            k = const(expr.slice)
            out = []
            for lf in self.origins(expr.value, at, rmap, seen):
                if lf.kind == "expr" and isinstance(lf.ast, (ast.Tuple, ast.List)) and -len(lf.ast.elts) <= k < len(lf.ast.elts):
                    out.extend(self.origins(lf.ast.elts[k], lf.node, rmap, seen))
                elif lf.kind == "expr":
                    out.append(Leaf("expr", ast.Subscript(value=lf.ast, slice=ast.Constant(value=k), ctx=ast.Load()), lf.node))
                else:
                    out.append(lf)
            return out
        return [Leaf("expr", expr, at)]

    # ------------------------------------------------------------------------------------------------- queries
    def own_calls(self, i):
        out = []
        for e in self.own_exprs(i):
            out.extend(c for c in walk(e) if isinstance(c, ast.Call))
        return out

    def call_target(self, c, at):
        """dotted name of the callee with local aliases of the receiver / function resolved."""
        d = dotted(self.resolve(c.func, at))
        return d if d is not None else (call_name(c) or "")

    def calling(self, suffix):
        out = []
        for i in sorted(self.G.nodes):
            for c in self.own_calls(i):
                nm = self.call_target(c, i)
                if nm == suffix or nm.endswith("." + suffix):
                    out.append(i)
                    break
        return out

    def tests(self):
        """if tests and the heads of `while <condition>` loops (True edge: into the body, False edge: loop left by its condition)."""
        out = []
        for i, d in sorted(self.G.nodes(data=True)):
            if d["kind"] == "test":
                out.append(i)
            elif d["kind"] == "loophead" and isinstance(d.get("stmt"), ast.While) and not isinstance(d["node"], ast.Constant):
                out.append(i)
        return out

    def rtest(self, i):
        return self.rnode(i)[0]

    def implied(self, i, outcome):
        return literals(self.rtest(i), outcome)

    def edges_implying(self, pred):
        """[(test node, outcome)] of the branch edges on which a literal satisfying pred is known to hold."""
        out = []
        for t in self.tests():
            for o in (True, False):
                if any(pred(l) for l in self.implied(t, o)):
                    out.append((t, o))
        return out

    def cut(self, edges, drop_back=False):
        g = self.g.view(drop_back=drop_back)
        for t, o in edges:
            g.remove_edges_from([(t, b) for b in self.g.succ_on(t, o)])
        return g

    def only_behind(self, node, edges, src=None, drop_back=False):
        """every path from src (default: entry) to node runs through one of the edges."""
        g = self.cut(edges, drop_back=drop_back)
        src = self.g.entry if src is None else src
        return not (node in g and src in g and nx.has_path(g, src, node))

    def flag_tests(self):
        """{x: {test node: polarity}} for the tests that are a bare local name x (or `not x`) which several assignments of expressions reach
        (`if a: x = p else: x = q ... if x:`); polarity: the outcome of the test on which x is true."""
        out = {}
        for t in self.tests():
            e, pos = self.G.nodes[t]["node"], True
            while isinstance(e, ast.UnaryOp) and isinstance(e.op, ast.Not):
                e, pos = e.operand, not pos
            if isinstance(e, ast.Name) and e.id in self.locals:
                ds = self.reaching(e.id, t)
                if len(ds) >= 2 and all(isinstance(v, ast.AST) for _, v in ds):
                    out.setdefault(e.id, {})[t] = pos
        return out

    def behind(self, node, pred, src=None, drop_back=False):
        """every path from src (default: entry) to node runs through a branch edge on which a literal satisfying pred holds.  Besides the
        literals of the test itself, a test of a flag variable implies the literals of the expression that was assigned to the flag on
        the path taken (decided on the product of the CFG with `which assignment of the flag is current`)."""
        edges = self.edges_implying(pred)
        if self.only_behind(node, edges, src, drop_back):
            return True
        src = self.g.entry if src is None else src
        plain = {(t, b) for t, o in edges for b in self.g.succ_on(t, o)}
        for x, tests in sorted(self.flag_tests().items()):
            defs_x = {n for n in self.G.nodes if any(nm == x and not may for nm, _, may in self.defs[n])}
            start = {(src, d) for d, _ in self.reaching(x, src)} or {(src, None)}
            seen, work, hit = set(start), list(start), False
            while work and not hit:
                a, d = work.pop()
                nd = a if a in defs_x and a != self.g.entry else d
                for _, b, data in self.G.out_edges(a, data=True):
                    if (a, b) in plain or (drop_back and data.get("back")):
                        continue
                    if a in tests and d is not None and data.get("cond") in (True, False):
                        vals = [v for nm, v, _ in self.defs[d] if nm == x and isinstance(v, ast.AST)]
                        if vals:
                            rv = self.resolve(vals[0], d)
                            if self.stable(d, a, rv, avoid=defs_x) and any(pred(l) for l in literals(rv, data["cond"] == tests[a])):
                                continue
                    st = (b, nd)
                    if b == node:
                        hit = True
                        break
                    if st not in seen:
                        seen.add(st)
                        work.append(st)
            if not hit:
                return True
        return False

    def line(self, i):
        return self.G.nodes[i]["line"]


# ---------------------------------------------------------------------------------------------------- literals of a test
class Lit(object):
    """kind: eq (a == b, sides sorted by text) / gt (a > b) / is / in / truth (a is true); sign False negates."""
    __slots__ = ("kind", "a", "b", "sign", "xa", "xb")

    def __init__(self, kind, xa, xb, sign):
        self.kind, self.xa, self.xb, self.sign = kind, xa, xb, sign
        self.a = unparse(xa)
        self.b = unparse(xb) if xb is not None else ""

    def sides(self):
        return [(self.a, self.xa), (self.b, self.xb)]

    def __repr__(self):
        return "%s%s(%s, %s)" % ("" if self.sign else "not ", self.kind, self.a, self.b)


def _cmp_lit(op, l, r, val):
    if isinstance(op, (ast.Eq, ast.NotEq, ast.Is, ast.IsNot)):
        pos = isinstance(op, (ast.Eq, ast.Is)) == val
        for x, y in ((l, r), (r, l)):
            if isinstance(y, ast.Constant) and isinstance(y.value, bool) and isinstance(op, (ast.Eq, ast.NotEq)):
                return literals(x, pos == y.value)       # x == False  ~  not x
        a, b = sorted((l, r), key=unparse)
        return [Lit("eq" if isinstance(op, (ast.Eq, ast.NotEq)) else "is", a, b, pos)]
    if isinstance(op, ast.Gt):
        return [Lit("gt", l, r, val)]
    if isinstance(op, ast.Lt):
        return [Lit("gt", r, l, val)]
    if isinstance(op, ast.LtE):
        return [Lit("gt", l, r, not val)]
    if isinstance(op, ast.GtE):
        return [Lit("gt", r, l, not val)]
    if isinstance(op, (ast.In, ast.NotIn)):
        return [Lit("in", l, r, isinstance(op, ast.In) == val)]
    return []


def literals(e, val):
    """the literals that are known to hold when the truth value of test e is `val`."""
    if isinstance(e, ast.UnaryOp) and isinstance(e.op, ast.Not):
        return literals(e.operand, not val)
    if isinstance(e, ast.BoolOp):
        conj = isinstance(e.op, ast.And)
        if conj == val:
            return [l for v in e.values for l in literals(v, val)]
        return literals(e.values[0], val) if len(e.values) == 1 else []
    if isinstance(e, ast.Compare):
        if len(e.ops) == 1:
            return _cmp_lit(e.ops[0], e.left, e.comparators[0], val)
        if val:
            out, left = [], e.left
            for op, r in zip(e.ops, e.comparators):
                out.extend(_cmp_lit(op, left, r, True))
                left = r
            return out
        return []
    if isinstance(e, ast.Call) and isinstance(e.func, ast.Name) and e.func.id == "bool" and len(e.args) == 1 and not e.keywords:
        return literals(e.args[0], val)
    if isinstance(e, ast.Constant):
        return []
    return [Lit("truth", e, None, val)]


def truth_under(test, bind):
    """truth value of the test when the names/dotted chains are bound by bind(text) (raise Unknown for the rest); None if undetermined."""
    def ca(d):
        return bind(d)
    try:
        ev = Evaluator(env={}, class_attr=ca)
        return bool(ev.truth(ev.ev(test)))
    except (Unknown, ExtractError, TypeError, ValueError, ZeroDivisionError):
        return None


def decided_by(test, roles, lo, hi, other=None):
    """outcome (True/False) the test has for role value `hi` when it is decided by the role alone and flips between lo and hi; else None.
    roles: set of name/dotted texts; other: value for every other name (None -> unknown)."""
    mentioned = {d for d in Flow.reads(test)}
    if not (mentioned & set(roles)):
        return None

    def binder(v):
        def b(d):
            if d in roles:
                return v
            if other is not None:
                return other(d)
            raise Unknown(d)
        return b
    a, b = truth_under(test, binder(lo)), truth_under(test, binder(hi))
    if a is None or b is None or a == b:
        return None
    return b


def enum_values(repo, rel, name):
    c = repo.cls(rel, name)
    return {n.targets[0].id: const(n.value) for n in c.body if isinstance(n, ast.Assign) and isinstance(n.targets[0], ast.Name)}


def the_loop(g):
    heads = [h for n, h in g.loop_heads.items() if isinstance(n, ast.While)]
    if len(heads) != 1:
        raise AnchorError("run_sim: expected exactly one while loop, found %d" % len(heads))
    return heads[0]


def _status_of(fl, tup, at, rmap=None):
    """{'error','converged',...} the first element of a returned triple can be (dotted SolverStatus member names); '?' for anything else."""
    out = set()
    for lf in fl.origins(tup.elts[0], at, rmap):
        d = dotted(lf.ast) if lf.kind == "expr" else None
        if d is not None and d.split(".")[-2:-1] == ["SolverStatus"]:
            out.add(d.split(".")[-1])
        else:
            out.add("?")
    return out


def returned_values(fl, start=None, rmap=None, graph=None):
    """[(return node, [Leaf])] for the Return nodes reachable from start (default: all)."""
    g = fl.g
    rets = g.nodes_where(lambda node, d: isinstance(node, ast.Return))
    if start is not None:
        reach = set()
        for s in start:
            reach |= g.reachable(s, graph)
        rets = [r for r in rets if r in reach]
    out = []
    for r in rets:
        v = g.node_ast(r).value
        out.append((r, fl.origins(v, r, rmap) if v is not None else [Leaf("expr", ast.Constant(value=None), r)]))
    return out


# ------------------------------------------------------------------------------------------------ R-C16-7 failures of external numerical routines
# how the library routines the solve path may hand its matrices / residual function to SIGNAL failure (from their documentation; an exception class named here
# stands for itself and its subclasses).  A callee in a failure-converting try block that is not listed cannot be decided (ExtractError).
_EXC_PARENTS = {"MatrixRankWarning": "UserWarning", "UserWarning": "Warning", "Warning": "Exception", "LinAlgError": "ValueError", "LinAlgWarning": "RuntimeWarning",
                "RuntimeWarning": "Warning", "NoConvergence": "Exception", "ValueError": "Exception", "RuntimeError": "Exception", "ArithmeticError": "Exception",
                "OverflowError": "ArithmeticError", "FloatingPointError": "ArithmeticError", "ZeroDivisionError": "ArithmeticError", "Exception": "BaseException"}
_LINEAR_SOLVERS = {   # callee (last component) -> failure signals on a singular / ill-posed system
    "spsolve": ("MatrixRankWarning",),        # warns `Matrix is exactly singular` (an exception only under a warnings filter "error", checked below) and returns NaN
    "splu": ("RuntimeError",), "spilu": ("RuntimeError",), "factorized": ("RuntimeError",),      # SuperLU: RuntimeError("Factor is exactly singular")
    "solve": ("LinAlgError",), "inv": ("LinAlgError",), "lu_factor": ("LinAlgWarning",), "lstsq": ("LinAlgError",),
}
_QUIET = {"solve_triangular", "dot", "matmul", "norm", "max", "abs", "toarray", "tocsr", "tocsc", "transpose", "T"}


def _covers(handler_types, signal):
    if handler_types is None:
        return True            # bare except
    cur = signal
    while cur is not None:
        if cur in handler_types:
            return True
        cur = _EXC_PARENTS.get(cur)
    return False


def _handler_types(h):
    if h.type is None:
        return None
    ts = h.type.elts if isinstance(h.type, ast.Tuple) else [h.type]
    return {(dotted(t) or unparse(t)).split(".")[-1] for t in ts}


def external_failure_rules(repo, chk):
    """R-C16-7 (T1, error discipline with a small table of library contracts): wherever the solve path converts the failure of an external numerical routine into
    SolverStatus.error, the handlers of that try block catch every way the routine signals failure.
    (a) NewtonSolver.solve: the linear solve's try block -- for each listed linear-algebra callee in the body, each of its failure signals is covered by a handler
        that returns SolverStatus.error; a signal that is a warning needs a module-level warnings filter turning it into an exception;
    (b) _solver_helper: a call of the caller-supplied `solver` function runs user-visible residual code and scipy's nonlinear solvers, which fail by raising anything
        (NoConvergence, ValueError, OverflowError from the compiled evaluator, ...): its try block needs a catch-all handler yielding SolverStatus.error."""
    solve = repo.func(SOLV, "NewtonSolver.solve")
    chk.fn(solve)
    tries = [t for t in walk(solve) if isinstance(t, ast.Try) and any("SolverStatus.error" in unparse(h) for h in t.handlers)]
    if not tries:
        raise AnchorError("NewtonSolver.solve: no try block reporting SolverStatus.error (the linear solve's guard) found")
    modsrc = repo.tree(SOLV)
    filters = [c for c in ast.walk(modsrc) if isinstance(c, ast.Call) and (call_name(c) or "").endswith(("filterwarnings", "simplefilter")) and c.args and const(c.args[0]) == "error"]
    n = 0
    for t in tries:
        callees = []
        for c in walk(ast.Module(body=t.body, type_ignores=[])):
            if isinstance(c, ast.Call):
                nm = (call_name(c) or "?").split(".")[-1]
                # a method of an object returned by a listed routine (lu = splu(..); lu.solve(..)) fails through the factorisation already made
                recv = c.func.value if isinstance(c.func, ast.Attribute) else None
                if isinstance(recv, ast.Name) and any(isinstance(a, ast.Assign) and any(isinstance(tg, ast.Name) and tg.id == recv.id for tg in a.targets)
                                                   and isinstance(a.value, ast.Call) and (call_name(a.value) or "").split(".")[-1] in _LINEAR_SOLVERS for a in walk(solve)):
                    continue
                if nm in _LINEAR_SOLVERS:
                    callees.append((nm, c))
                elif nm not in _QUIET and not nm.startswith("_") and nm not in ("range", "len", "str", "float", "int"):
                    if False:
                        pass
                    else:
                        raise ExtractError("NewtonSolver.solve: the failure signals of `%s` (line %d) are not in the table of library contracts" % (unparse(c.func), c.lineno))
        if not callees:
            raise ExtractError("NewtonSolver.solve: no linear-algebra routine recognised inside the try block at line %d" % t.lineno)
        err_handlers = [h for h in t.handlers if "SolverStatus.error" in unparse(h)]
        for nm, c in callees:
            for sig in _LINEAR_SOLVERS[nm]:
                covered = any(_covers(_handler_types(h), sig) for h in err_handlers)
                is_warning = _covers({"Warning"}, sig)
                raised = (not is_warning) or any(len(f.args) >= 3 and unparse(f.args[2]).endswith(sig) or any(k.arg == "category" and unparse(k.value).endswith(sig) for k in f.keywords)
                                                 or len(f.args) < 3 and not f.keywords for f in filters)
                n += 1
                chk.expect(covered and raised, "R-C16-7", "NewtonSolver.solve reports a failed %s(...) as SolverStatus.error [signal %s]" % (nm, sig), loc(solve, c),
                           "%s signals a singular / unusable system by %s; the handlers of the enclosing try catch %s%s: the failure leaves solve() as a raw exception (run_sim neither "
                           "warns nor raises its 'did not converge' error, no error_code, the backup solver is never tried)" % (
                               nm, sig, [sorted(_handler_types(h)) if _handler_types(h) is not None else "everything" for h in t.handlers],
                               "" if raised else " and no warnings filter turns the warning into an exception"),
                           expected="a handler for %s (or a superclass) returning SolverStatus.error" % sig, found=[unparse(h.type) if h.type is not None else "bare except" for h in t.handlers])
    sh = repo.func(CORE, "_solver_helper")
    chk.fn(sh)
    sparam = sh.args.args[1].arg if len(sh.args.args) >= 2 else None
    if sparam is None:
        raise AnchorError("_solver_helper: parameter list changed")
    m = 0
    for t in [t for t in walk(sh) if isinstance(t, ast.Try)]:
        ext = [c for c in walk(ast.Module(body=t.body, type_ignores=[])) if isinstance(c, ast.Call) and isinstance(c.func, ast.Name) and c.func.id == sparam]
        if not ext:
            continue
        m += 1
        catch_all = [h for h in t.handlers if _handler_types(h) is None or _handler_types(h) & {"Exception", "BaseException"}]
        ok = bool(catch_all) and all("SolverStatus.error" in unparse(h) for h in catch_all)
        chk.expect(ok, "R-C16-7", "_solver_helper reports every failure of the caller-supplied solver as SolverStatus.error", loc(sh, t),
                   "scipy's nonlinear solvers and the residual callback they run fail by raising (NoConvergence, ValueError, LinAlgError, OverflowError from the compiled evaluator ...); a "
                   "handler list that names some of them lets the others escape run_sim as raw exceptions: no warning, no error_code, no partial results", expected="except: / except Exception: "
                   "-> SolverStatus.error", found=[unparse(h.type) if h.type is not None else "bare except" for h in t.handlers])
    if m < 1:
        raise AnchorError("_solver_helper: no try block around a call of the caller-supplied solver found")
    chk.floor("R-C16-7", 2)


# ------------------------------------------------------------------------------------------------ R-C16-4 result tables, on a mock model
def results_table_rules(repo, chk):
    """R-C16-4 (T3, bounded to one mock model and three saved steps): initialize_results_dict, save_results (once per step, element values changing in between,
    one junction isolated at one step) and get_results are run by the in-house interpreter (pandas replaced by sa/minipandas.py).  Every node table (head, demand,
    pressure, leak_demand) then has one column per node and every link table (flowrate, velocity, status, setting) one per link, one row per reported time, indexed
    by results.time, and each cell holds what the element had when that step was saved (pressure = head - elevation, 0 for isolated junctions and reservoirs)."""
    import collections
    import math
    from ..concrete import World, stdlib_overrides, Namespace, ProgramError, NDArr
    from ..minipandas import pandas_namespace, MiniFrame, Matrix
    fns = {n: repo.func(HYD, n) for n in ("initialize_results_dict", "save_results", "get_results")}
    chk.fn(*fns.values())
    ov, _st = stdlib_overrides()
    npn = ov["numpy"]

    def array(x, dtype=None, copy=True):
        x = list(x)
        if x and all(isinstance(r, (list, tuple)) for r in x):
            return Matrix(x)
        if not x:
            return Matrix([])
        return NDArr(x, dtype)
    ov["numpy"] = Namespace("numpy", **dict({k_: getattr(npn, k_) for k_ in dir(npn) if not k_.startswith("_")}, array=array))
    ov["pandas"] = pandas_namespace()
    world = World(repo, ov, fuel=20000000)
    init, save, getr = (world.function(HYD, n) for n in ("initialize_results_dict", "save_results", "get_results"))

    class Rec(object):
        _sa_mock = True
        _sa_foreign = True

        def __init__(self, label, **kw):
            self._label = label
            self.__dict__.update(kw)

        def __repr__(self):
            return "<%s>" % self._label
    J = collections.OrderedDict((n, Rec(n, head=0.0, demand=0.0, leak_demand=0.0, elevation=10.0 + i, _is_isolated=False)) for i, n in enumerate(("J1", "J2")))
    T = collections.OrderedDict([("T1", Rec("T1", head=0.0, demand=0.0, leak_demand=0.0, elevation=30.0))])
    R = collections.OrderedDict([("R1", Rec("R1", head=0.0, demand=0.0, leak_demand=0.0))])
    P = collections.OrderedDict([("P1", Rec("P1", flow=0.0, diameter=0.3, status=1, roughness=100.0))])
    HP = collections.OrderedDict([("HP", Rec("HP", flow=0.0, status=1, start_node_name="R1", end_node_name="J1", get_head_curve_coefficients=lambda: (50.0, 2.0, 1.5)))])
    PP = collections.OrderedDict([("PP", Rec("PP", flow=0.0, status=1))])
    V = collections.OrderedDict([("V1", Rec("V1", flow=0.0, diameter=0.2, status=2, setting=25.0))])
    # the registries iterate in insertion order, which is NOT junctions + tanks + reservoirs (pipes + pumps + valves): labels and data must still agree
    nodes = collections.OrderedDict([("R1", R["R1"]), ("J1", J["J1"]), ("T1", T["T1"]), ("J2", J["J2"])])
    links = collections.OrderedDict([("V1", V["V1"]), ("P1", P["P1"]), ("PP", PP["PP"]), ("HP", HP["HP"])])
    for o in nodes.values():
        o.leak_status = True
    it = lambda d: (lambda *a: list(d.items()))
    wn = Rec("model", nodes=it(nodes), links=it(links), junctions=it(J), tanks=it(T), reservoirs=it(R), pipes=it(P), head_pumps=it(HP), power_pumps=it(PP), valves=it(V),
             pumps=it(collections.OrderedDict(list(HP.items()) + list(PP.items()))), get_node=lambda n: nodes[n], get_link=lambda n: links[n],
             num_nodes=len(nodes), num_links=len(links), node_name_list=list(nodes), link_name_list=list(links), junction_name_list=list(J), tank_name_list=list(T),
             reservoir_name_list=list(R), pipe_name_list=list(P), head_pump_name_list=list(HP), power_pump_name_list=list(PP), valve_name_list=list(V),
             pump_name_list=list(HP) + list(PP))
    results = Rec("results", time=[], node=None, link=None, error_code=None)
    want = {k: [] for k in ("head", "demand", "pressure", "leak_demand", "flowrate", "velocity", "status", "setting")}
    try:
        node_res, link_res = init(wn)
        for step in range(3):
            for i, (n, o) in enumerate(nodes.items()):
                o.head, o.demand = 40.0 + 7 * step + i, 0.001 * (step + 1) * (i + 1)
                o.leak_demand = 0.0005 * step * (i + 1) if n in J or n in T else 0.0
            J["J2"]._is_isolated = step == 1
            T["T1"].leak_status = step != 1           # the leak of the tank is switched off for one step: its leak_demand is saved all the same
            for i, (n, o) in enumerate(links.items()):
                o.flow = (-1) ** i * 0.01 * (step + 1) * (i + 1)
                o.status = (step + i) % 3
            V["V1"].setting = 25.0 + step
            want["head"].append({n: o.head for n, o in nodes.items()})
            want["demand"].append({n: o.demand for n, o in nodes.items()})
            want["leak_demand"].append({n: (o.leak_demand if n not in R else 0.0) for n, o in nodes.items()})
            want["pressure"].append({n: (0.0 if n in R or (n in J and o._is_isolated) else o.head - o.elevation) for n, o in nodes.items()})
            want["flowrate"].append({n: o.flow for n, o in links.items()})
            want["status"].append({n: o.status for n, o in links.items()})
            want["velocity"].append({n: (abs(o.flow) * 4.0 / (math.pi * o.diameter ** 2) if n in P or n in V else 0) for n, o in links.items()})
            want["setting"].append({n: (o.roughness if n in P else (o.setting if n in V else 1)) for n, o in links.items()})
            save(wn, node_res, link_res)
            results.time.append(3600 * step)
        getr(wn, results, node_res, link_res)
    except ProgramError as e:
        if isinstance(e.exc, (AttributeError, NameError)):
            raise ExtractError("the result bookkeeping needs something the mock model does not provide: %s (line %s)" % (e, e.lineno))
        chk.bad("R-C16-4", "initialize_results_dict / save_results / get_results complete on a model with every element family", loc(fns["save_results"]), found="%s (line %s)" % (e, e.lineno))
        return
    for fam, tables, keys, names in (("node", results.node, ("head", "demand", "pressure", "leak_demand"), list(nodes)), ("link", results.link, ("flowrate", "velocity", "status", "setting"), list(links))):
        chk.expect(isinstance(tables, dict) and set(tables) == set(keys), "R-C16-4", "results.%s holds the tables %s" % (fam, ", ".join(keys)), loc(fns["get_results"]),
                   found=sorted(tables) if isinstance(tables, dict) else repr(tables))
        if not isinstance(tables, dict):
            continue
        for k in keys:
            fr = tables.get(k)
            if not isinstance(fr, MiniFrame):
                chk.bad("R-C16-4", "results.%s[%r] is a table indexed by the reported times with one column per %s" % (fam, k, fam), loc(fns["get_results"]), found=repr(fr))
                continue
            bad_ = []
            if list(fr.index) != results.time:
                bad_.append("index %s instead of results.time %s" % (list(fr.index), results.time))
            if sorted(fr.columns) != sorted(names):
                bad_.append("columns %s instead of %s" % (list(fr.columns), names))
            else:
                for t_, row in enumerate(want[k]):
                    for n, v in row.items():
                        got = fr[n].values[t_] if t_ < len(fr) else None
                        if not (isinstance(got, (int, float)) and abs(got - v) <= 1e-12 * max(1.0, abs(v))):
                            bad_.append("[%s, t=%d]: %r, the element had %r" % (n, results.time[t_], got, v))
            chk.expect(not bad_, "R-C16-4", "results.%s[%r] is a table indexed by the reported times with one column per %s holding the saved values" % (fam, k, fam), loc(fns["get_results"]),
                       "three steps saved on a mock model (2 junctions, one isolated at the second step, tank, reservoir, pipe, head pump, power pump, valve)", found=bad_[:4])
    chk.floor("R-C16-4", 10)


def report_grid_rules(repo, chk):
    """R-C16-8 (T3, WNTRSimulator._setup_sim_options interpreted on mock time options; finite grid of option triples).  run_sim saves a row whenever the clock is a
    multiple of the report step, and the clock advances by hydraulic steps: there is a row at EVERY report instant only if the report step the simulator settles on is
    a positive multiple of the hydraulic step it settles on (after the pattern step and the report step have both had their say).  Otherwise rows appear only at the
    common multiples and report instants are silently skipped."""
    from .c12 import concrete_sim_steps, concrete_world
    sso = repo.func(CORE, "WNTRSimulator._setup_sim_options")
    chk.fn(sso)
    world = concrete_world(repo)
    n = 0
    for hyd in (900, 1800, 3600):
        for pat in (600, 900, 1200, 1800, 3600, 7200):
            for rep in (900, 1800, 2700, 3600, 5400, 7200):
                h, r = concrete_sim_steps(world, hyd, pat, rep)
                if not isinstance(h, (int, float)):
                    raise ExtractError("_setup_sim_options on (hydraulic %s, pattern %s, report %s): %s" % (hyd, pat, rep, h))
                n += 1
                ok = isinstance(r, (int, float)) and h > 0 and r >= h and r % h == 0 and r <= rep and h <= min(hyd, pat, rep)
                if ok and (hyd, pat, rep) not in ((3600, 1200, 1800), (3600, 1800, 2700), (1800, 600, 900), (3600, 3600, 3600)):
                    continue                 # the discharged bulk is summarised in one instance below; a few named triples are listed individually
                chk.expect(ok, "R-C16-8", "hydraulic %s s, pattern %s s, report %s s: the report step in force is a multiple of the hydraulic step in force" % (hyd, pat, rep), loc(sso),
                           "rows are saved when the clock (advancing by hydraulic steps) is a multiple of the report step", expected="report = k x hydraulic, both no longer than asked for",
                           found="hydraulic %s, report %s" % (h, r))
    chk.expect(n == 108, "R-C16-8", "all 108 option triples of the grid were evaluated", loc(sso), found=n)
    chk.floor("R-C16-8", 5)


def run(repo, chk):
    external_failure_rules(repo, chk)
    report_grid_rules(repo, chk)
    rs = repo.func(CORE, "WNTRSimulator.run_sim")
    chk.fn(rs)
    fl = Flow(rs)
    g = fl.g
    head = the_loop(g)
    so = repo.func(CORE, "WNTRSimulator._setup_sim_options")
    chk.fn(so)

    # ---------------------------------------------------------------- roles
    with chk.part("roles"):
        # the results object is what run_sim returns
        rnames = {unparse(g.node_ast(r).value) for r in g.nodes_where(lambda node, d: isinstance(node, ast.Return)) if g.node_ast(r).value is not None}
        if len(rnames) != 1 or not re.match(r"^\w+$", next(iter(rnames))):
            raise AnchorError("run_sim: expected one returned results variable, found %s" % sorted(rnames))
        res = next(iter(rnames))

        # attributes _setup_sim_options fills from options.time.* and from its convergence_error parameter
        fso = Flow(so)

        def setup_attr(pred, what):
            out = set()
            for i in sorted(fso.G.nodes):
                a = fso.g.node_ast(i)
                if isinstance(a, ast.Assign) and len(a.targets) == 1 and dotted(a.targets[0]) and dotted(a.targets[0]).startswith("self.") and pred(fso.resolve(a.value, i)):
                    out.add(dotted(a.targets[0]))
            if not out:
                raise AnchorError("_setup_sim_options: attribute holding %s not found" % what)
            return out
        hyd_attrs = setup_attr(lambda v: (dotted(v) or "").endswith("options.time.hydraulic_timestep"), "options.time.hydraulic_timestep")
        rep_attrs = setup_attr(lambda v: (dotted(v) or "").endswith("options.time.report_timestep"), "options.time.report_timestep")
        conv_roles = {"convergence_error"} | setup_attr(lambda v: isinstance(v, ast.Name) and v.id == "convergence_error", "the convergence_error argument")
        if "convergence_error" not in fl.params:
            raise AnchorError("run_sim: parameter convergence_error vanished")

        solves = fl.calling("_solver_helper")
        stores = fl.calling("store_results_in_network")
        saves = fl.calling("save_results")
        appends = []
        for i in sorted(fl.G.nodes):
            if isinstance(g.node_ast(i), ast.Expr) and any(fl.call_target(c, i) == res + ".time.append" for c in fl.own_calls(i)):
                appends.append(i)
        if not (solves and stores and saves and appends):
            raise AnchorError("run_sim: anchors missing (solves=%s stores=%s saves=%s appends=%s)" % (solves, stores, saves, appends))

        # a value has role k of the solver triple if every origin is element k of a _solver_helper(...) call
        def triple_role(expr, at):
            ks, nodes = set(), set()
            for lf in fl.origins(expr, at):
                if lf.kind == "unbound":
                    continue        # e.g. the status assigned in a loop over solver attempts: an empty attempt list gives a NameError, not a status
                a = lf.ast if lf.kind == "expr" else None
                if isinstance(a, ast.Subscript) and isinstance(a.value, ast.Call) and (call_name(a.value) or "").split(".")[-1] == "_solver_helper" and isinstance(const(a.slice), int):
                    ks.add(const(a.slice))
                    nodes.add(lf.node)
                else:
                    return None, set()
            return (ks.pop(), nodes) if len(ks) == 1 else (None, set())

        def role_names(test, at, k):
            """names in the (resolved) test that hold element k of the solver triple -> {name: solve nodes}"""
            out = {}
            for n in ast.walk(test):
                if isinstance(n, ast.Name) and isinstance(n.ctx, ast.Load) and n.id in fl.locals:
                    kk, nodes = triple_role(n, at)
                    if kk == k:
                        out[n.id] = nodes
            return out

        sstat = enum_values(repo, SOLV, "SolverStatus")
        rstat = enum_values(repo, RES, "ResultsStatus")
        chk.expect(sstat.get("error") == 0 and sstat.get("converged") == 1, "R-C16-2", "SolverStatus.error == 0 (the value run_sim tests)", loc(SOLV, repo.cls(SOLV, "SolverStatus")), found=sstat)

        def enum_const(d):
            p = d.split(".")
            if len(p) >= 2 and p[-2] == "SolverStatus" and p[-1] in sstat:
                return sstat[p[-1]]
            if len(p) >= 2 and p[-2] == "ResultsStatus" and p[-1] in rstat:
                return rstat[p[-1]]
            raise Unknown(d)

        # failure tests: decided by the status of the last solve alone, true for error (0) and false for converged (1) on one edge
        ftests = {}     # test node -> (outcome on which the solve has failed, solve nodes whose status is tested)
        fnames = {}     # test node -> the status variables it reads
        for t in fl.tests():
            rt = fl.rtest(t)
            sn = role_names(rt, t, 0)
            if not sn:
                continue
            o = decided_by(rt, set(sn), sstat.get("converged", 1), sstat.get("error", 0), other=enum_const)
            if o is not None:
                ftests[t] = (o, set().union(*sn.values()))
                fnames[t] = set(sn)

        # trial counter: a local incremented by a positive constant inside the loop; trial test: decided by the counter against anything else
        def is_incr(node):
            if isinstance(node, ast.AugAssign) and isinstance(node.target, ast.Name) and isinstance(node.op, ast.Add):
                return isinstance(const(node.value), int) and const(node.value) > 0
            if isinstance(node, ast.Assign) and len(node.targets) == 1 and isinstance(node.targets[0], ast.Name) and isinstance(node.value, ast.BinOp) and isinstance(node.value.op, ast.Add):
                l, r = node.value.left, node.value.right
                nm = node.targets[0].id
                return (isinstance(l, ast.Name) and l.id == nm and isinstance(const(r), int) and const(r) > 0) or (isinstance(r, ast.Name) and r.id == nm and isinstance(const(l), int) and const(l) > 0)
            return False
        inloop = g.reachable(head)
        tinc = [n for n in g.nodes_where(lambda node, d: is_incr(node)) if n in inloop and head in g.reachable(n)]
        counters = {(_target_names(g.node_ast(n).targets[0]) if isinstance(g.node_ast(n), ast.Assign) else [g.node_ast(n).target.id])[0] for n in tinc}
        trial_tests = {}
        for t in fl.tests():
            if t in ftests or t not in inloop:
                continue
            o = decided_by(fl.rtest(t), counters, -10 ** 9, 10 ** 9, other=lambda d: 7) if counters else None
            if o is not None:
                trial_tests[t] = (o, set())

        # tests decided by convergence_error
        conv = {}
        for t in fl.tests():
            o = decided_by(fl.rtest(t), conv_roles, False, True)
            if o is not None:
                conv[t] = o
        conv_edges = [(t, o) for t, o in conv.items()]

    # ---------------------------------------------------------------- R-C16-1 failure exits
    with chk.part("R-C16-1 failure exits"):
        for s in solves:
            via = [t for t, (o, nodes) in ftests.items() if s in nodes]
            w = g.can_reach_avoiding(s, stores, via, drop_back=True)
            chk.expect(w is None, "R-C16-1", "every path from the solver call at line %d to store_results_in_network tests the solver status" % fl.line(s), loc(rs, g.node_ast(s)),
                       "a step whose (backup) solve failed must never be stored as if it had converged",
                       expected="path passes a test decided by the status of this solve (`if solver_status == 0:`) after the last solve", found=g.path_text(w) if w else None)
        bad_targets = set(stores) | set(saves) | set(appends)
        chk.expect(len(trial_tests) == 1, "R-C16-1", "run_sim bounds the number of re-solve trials", loc(rs), found=[g.label(t) for t in trial_tests])

        def is_res_attr(t, attr):
            return dotted(t) == "%s.%s" % (res, attr)
        errs = g.nodes_where(lambda node, d: isinstance(node, ast.Assign) and any(is_res_attr(t, "error_code") for t in node.targets))

        def err_value(n):
            v = fl.resolve(g.node_ast(n).value, n)
            if const(v, 1) is None:
                return "None"
            d = dotted(v) or ""
            return "error" if d.split(".")[-2:] == ["ResultsStatus", "error"] else unparse(v)
        err_set = [n for n in errs if err_value(n) == "error"]
        err_none = [n for n in errs if err_value(n) == "None"]
        err_other = [n for n in errs if n not in err_set and n not in err_none]
        warns = fl.calling("warnings.warn")
        fail_edges = [(t, o) for t, (o, _) in list(ftests.items()) + list(trial_tests.items())]

        def reach(G, src, dsts, avoid=(), drop_back=False):
            """a path in G from src to one of dsts that passes no node of avoid (None if there is none)"""
            if src in set(avoid) or src not in G:
                return None
            H = G.copy()
            if drop_back:
                H.remove_edges_from([(a, b) for a, b, d in G.edges(data=True) if d.get("back")])
            H.remove_nodes_from(list(avoid))
            for d in sorted(dsts):
                if d in H and nx.has_path(H, src, d):
                    return nx.shortest_path(H, src, d)
            return None

        def failed_graph(t, o):
            """the executions that left status test t on its failure edge and make no further solve attempt: a later test of the same
        status variable(s) (not re-assigned on the way) leaves on its failure edge too; a path into another _solver_helper call is a
        retry, whose outcome is judged by the tests that follow that call."""
            G = fl.given(t, o, avoid=solves)
            for t2, (o2, _) in ftests.items():
                if t2 != t and fnames[t2] == fnames[t] and fl.stable(t, t2, fl.rtest(t2), avoid=solves):
                    G.remove_edges_from([(t2, b) for b in g.succ_on(t2, not o2)])
            G.remove_nodes_from(solves)
            return G
        for t, (o, _) in sorted(ftests.items()) + sorted(trial_tests.items()):
            kind = "solver failure" if t in ftests else "trial limit"
            succ = g.succ_on(t, o)
            if not succ:
                chk.bad("R-C16-1", "%s branch exists" % kind, loc(rs, g.node_ast(t)))
                continue
            s0 = succ[0]
            if t in ftests and s0 in solves:
                chk.ok("R-C16-1", "a failed solve is followed by another solver attempt (line %d)" % fl.line(t), loc(rs, g.node_ast(t)))
                continue
            G = failed_graph(t, o) if t in ftests else fl.G
            w = reach(G, s0, bad_targets, drop_back=True)
            chk.expect(w is None, "R-C16-1", "%s branch never reaches store/save/append of the failed step" % kind, loc(rs, g.node_ast(t)),
                       "the steps reported before the failure must be exactly those of the run so far", found=g.path_text(w) if w else None)
            w = reach(G, s0, [g.exit], err_set, drop_back=True)
            chk.expect(w is None and bool(err_set), "R-C16-1", "%s branch sets results.error_code = error on every non-raising exit" % kind, loc(rs, g.node_ast(t)),
                       found=g.path_text(w) if w else None)
            w = reach(G, s0, [g.exit], warns, drop_back=True)
            chk.expect(w is None and bool(warns), "R-C16-1", "%s branch warns on every non-raising exit" % kind, loc(rs, g.node_ast(t)), found=g.path_text(w) if w else None)
            # the loop must be left: the loop head is not reachable again from the branch
            back = reach(G, s0, [head])
            chk.expect(back is None, "R-C16-1", "%s branch leaves the time loop (the run stops there)" % kind, loc(rs, g.node_ast(t)), found=g.path_text(back) if back else None)
            # raise only, and always, under convergence_error
            Gd = G.copy()
            Gd.remove_edges_from([(a, b) for a, b, d in G.edges(data=True) if d.get("back")])
            region = (set(nx.descendants(Gd, s0)) | {s0}) if s0 in Gd else set()
            raises = [n for n in region if isinstance(g.node_ast(n), ast.Raise)]
            gc = Gd.copy()
            for c, oc in conv_edges:
                gc.remove_edges_from([(c, b) for b in g.succ_on(c, oc)])
            for r in sorted(raises):
                okr = not (r in gc and s0 in gc and nx.has_path(gc, s0, r))
                chk.expect(okr, "R-C16-1", "%s: RuntimeError is raised iff convergence_error is set" % kind, loc(rs, g.node_ast(r)), found=g.label(r))
            chk.expect(bool(raises), "R-C16-1", "%s: a RuntimeError is raised when convergence_error=True" % kind, loc(rs, g.node_ast(t)))
            for c in sorted(c for c in conv if c in region):
                for b in g.succ_on(c, conv[c]):
                    w = reach(G, b, [g.exit, head], raises)
                    chk.expect(w is None, "R-C16-1", "%s: with convergence_error set every path ends in the raise" % kind, loc(rs, g.node_ast(c)), found=g.path_text(w) if w else None)
        idom = g.dominators()
        chk.expect(len(err_none) == 1 and g.dominates(err_none[0], head, idom), "R-C16-1", "results.error_code is initialised to None before the time loop", loc(rs), found=[g.label(n) for n in err_none])
        for n in err_set + err_other:
            okd = n in err_set and fl.only_behind(n, fail_edges)
            chk.expect(okd, "R-C16-1", "results.error_code is set to error only on a failure branch (line %d)" % fl.line(n), loc(rs, g.node_ast(n)), found=g.label(n))
        chk.floor("R-C16-1", 15)

    # ---------------------------------------------------------------- R-C16-3 one row per time
    with chk.part("R-C16-3 one row per time"):
        # the clock: what is advanced by the hydraulic timestep inside the loop
        def advance(node):
            """(target text, added expression) of `x += e` / `x = x + e`"""
            if isinstance(node, ast.AugAssign) and isinstance(node.op, ast.Add) and dotted(node.target):
                return dotted(node.target), node.value
            if isinstance(node, ast.Assign) and len(node.targets) == 1 and dotted(node.targets[0]) and isinstance(node.value, ast.BinOp) and isinstance(node.value.op, ast.Add):
                tt = dotted(node.targets[0])
                if dotted(node.value.left) == tt:
                    return tt, node.value.right
                if dotted(node.value.right) == tt:
                    return tt, node.value.left
            return None
        steps = [n for n in g.nodes_where(lambda node, d: advance(node) is not None) if n in inloop and head in g.reachable(n)]
        clocks = {advance(g.node_ast(n))[0] for n in steps if advance(g.node_ast(n))[0].split(".")[-1] == "sim_time"}
        if len(clocks) != 1:
            raise AnchorError("run_sim: the simulation clock (the <wn>.sim_time attribute advanced in the loop) was not found: %s" % sorted(clocks))
        clock = clocks.pop()
        adv = [n for n in steps if advance(g.node_ast(n))[0] == clock and dotted(fl.resolve(advance(g.node_ast(n))[1], n)) in hyd_attrs]

        upd = fl.calling("update_network_previous_values")
        upd_in_loop = [u for u in upd if u in inloop and head in g.reachable(u)]
        last_time = "%s.time[-1]" % res

        def is_dup(l):
            return l.kind == "eq" and l.sign and any(a == last_time for a, _ in l.sides())
        dup_edges = fl.edges_implying(is_dup)
        dup = sorted({t for t, _ in dup_edges})
        for s in saves:
            w = g.can_reach_avoiding(s, upd_in_loop + [head, g.exit], appends, drop_back=False)
            chk.expect(w is None, "R-C16-3", "save_results at line %d is followed by results.time.append on every non-raising path" % fl.line(s), loc(rs, g.node_ast(s)),
                       "node/link rows and the time index must grow together", found=g.path_text(w) if w else None)
            w = g.can_reach_avoiding(s, appends, dup, drop_back=True)
            chk.expect(w is None, "R-C16-3", "the duplicate-time test precedes the append after save_results at line %d" % fl.line(s), loc(rs, g.node_ast(s)), found=g.path_text(w) if w else None)
            reach = g.reachable(s, g.view(drop_back=True))
            na = [a for a in appends if a in reach]
            # ... and no second append can follow the first within the iteration
            twice = [a for a in na if any(b in g.reachable(a, g.view(drop_back=True)) - {a} for b in appends)]
            chk.expect(len(na) >= 1 and not twice, "R-C16-3", "exactly one append is reachable from save_results at line %d within the iteration" % fl.line(s), loc(rs, g.node_ast(s)), found=[g.label(a) for a in na])
        for a in appends:
            w = g.can_reach_avoiding(head, [a], saves, drop_back=True)
            chk.expect(w is None, "R-C16-3", "results.time.append at line %d is preceded by save_results in the same iteration" % fl.line(a), loc(rs, g.node_ast(a)), found=g.path_text(w) if w else None)
            cs = [c for c in fl.own_calls(a) if fl.call_target(c, a) == res + ".time.append"]
            arg = fl.rtext(cs[0].args[0], a) if cs and len(cs[0].args) == 1 else None
            chk.expect(arg == "int(%s)" % clock, "R-C16-3", "the appended time is int(sim_time) (line %d)" % fl.line(a), loc(rs, g.node_ast(a)), expected="int(%s)" % clock, found=arg)
        for t, o in dup_edges:
            s0 = g.succ_on(t, o)
            w = g.can_reach_avoiding(s0[0], appends + [g.exit], [], drop_back=True) if s0 else None
            chk.expect(w is None, "R-C16-3", "a repeated time raises instead of appending (test at line %d)" % fl.line(t), loc(rs, g.node_ast(t)), found=g.path_text(w) if w else None)

        def is_grid(l):
            if l.kind != "eq" or not l.sign:
                return False
            for (a, xa), (b, xb) in (l.sides(), l.sides()[::-1]):
                if b == "0" and isinstance(xa, ast.BinOp) and isinstance(xa.op, ast.Mod) and unparse(xa.left) in (clock, "float(%s)" % clock, "int(%s)" % clock) and dotted(xa.right) in rep_attrs:
                    return True
            return False
        # once the report timestep has been classified as a number, a save is reached (within the iteration) only where the grid condition holds
        def is_numeric(l):
            c = l.xa
            if not (l.kind == "truth" and isinstance(c, ast.Call) and isinstance(c.func, ast.Name) and c.func.id == "isinstance" and len(c.args) == 2 and dotted(c.args[0]) in rep_attrs):
                return False
            types = {unparse(e) for e in (c.args[1].elts if isinstance(c.args[1], ast.Tuple) else [c.args[1]])}
            return (types == {"str"} and not l.sign) or ("str" not in types and l.sign)
        guarded = []
        for t, o in fl.edges_implying(is_numeric):
            for b in g.succ_on(t, o):
                for s in saves:
                    if s in g.reachable(b, g.view(drop_back=True)):
                        guarded.append(fl.behind(s, is_grid, src=b, drop_back=True))
        chk.expect(bool(guarded) and all(guarded), "R-C16-3", "saving on the report grid is guarded by sim_time % report_timestep == 0", loc(rs),
                   found=[g.label(t) for t, _ in fl.edges_implying(is_grid)])
        chk.floor("R-C16-3", 3 + 2 + 1 + 1)

    # ---------------------------------------------------------------- R-C16-5 progress
    with chk.part("R-C16-5 progress"):
        def is_over(l):
            return l.kind == "gt" and l.sign and l.a == clock and l.b.endswith("options.time.duration")
        dur_edges = fl.edges_implying(is_over)
        chk.expect(len(adv) == 1, "R-C16-5", "the accepted path advances sim_time by the hydraulic timestep", loc(rs), found=[g.label(a) for a in adv])
        if adv and dur_edges:
            dur = sorted({t for t, _ in dur_edges})
            for u in sorted(set(upd_in_loop) | set(saves)):
                w = g.can_reach_avoiding(u, [head], adv, drop_back=False)
                chk.expect(w is None, "R-C16-5", "no iteration that saved results returns to the loop head without advancing time", loc(rs, g.node_ast(u)), found=g.path_text(w) if w else None)
            w = g.can_reach_avoiding(adv[0], [head], dur, drop_back=False)
            chk.expect(w is None, "R-C16-5", "the duration test follows the time advance on every path back to the loop head", loc(rs), found=g.path_text(w) if w else None)
            for t, o in dur_edges:
                b = g.succ_on(t, o)
                w = g.can_reach_avoiding(b[0], [head], [], drop_back=False) if b else [t]
                chk.expect(w is None, "R-C16-5", "the loop ends when sim_time exceeds the duration", loc(rs, g.node_ast(t)), found=g.path_text(w) if w else None)
        elif not dur_edges:
            chk.bad("R-C16-5", "the loop ends when sim_time exceeds the duration", loc(rs), found="no test `%s > ...options.time.duration` after the advance" % clock)
        conts = g.nodes_where(lambda node, d: isinstance(node, ast.Continue))
        for c in conts:
            chk.expect(any(g.dominates(t, c, idom) for t in tinc) and any(g.dominates(t, c, idom) for t in trial_tests), "R-C16-5",
                       "the re-solve `continue` at line %d is dominated by `trial += 1` and the trial-limit test" % fl.line(c), loc(rs, g.node_ast(c)))
        # options.time.hydraulic_timestep is forced to an integer >= 1: evaluate TimeOptions.__setattr__ symbolically for that name
        to = repo.func(OPT, "TimeOptions.__setattr__")
        chk.fn(to)
        chk.expect(_timestep_at_least_one(to), "R-C16-5", "options.time.hydraulic_timestep is forced to an integer >= 1", loc(to))
        chk.floor("R-C16-5", 6)

    # ---------------------------------------------------------------- R-C16-2 solver status discipline
    with chk.part("R-C16-2 solver status discipline"):
        sv = repo.func(SOLV, "NewtonSolver.solve")
        chk.fn(sv)
        fs = Flow(sv)
        gs = fs.g
        preds = list(gs.g.predecessors(gs.exit))
        chk.expect(all(isinstance(gs.node_ast(p), ast.Return) for p in preds), "R-C16-2", "NewtonSolver.solve cannot fall off its end without returning a status", loc(sv),
                   found=[gs.label(p) for p in preds if not isinstance(gs.node_ast(p), ast.Return)])

        def is_tol(l, t):
            # residual norm below the tolerance attribute:  self.tol > <max-abs / norm of the residual>
            if not (l.kind == "gt" and l.sign and re.match(r"^self\.\w*tol\w*$", l.a)):
                return False
            # (a flag-guarded variable looks possibly unbound to a path-insensitive analysis; a None sentinel cannot pass `<`: TypeError)
            os_ = [lf for lf in fs.origins(l.xb, t) if lf.kind != "unbound" and not (lf.kind == "expr" and isinstance(lf.ast, ast.Constant) and lf.ast.value is None)]
            return bool(os_) and all(lf.kind == "expr" and re.search(r"\b(abs|norm)\(", lf.text()) for lf in os_)

        def is_empty(l):
            if l.kind == "eq" and l.sign:
                return any(a == "0" and re.match(r"^len\(.*\)$", b) for (a, _), (b, _) in (l.sides(), l.sides()[::-1]))
            return l.kind == "truth" and not l.sign and re.match(r"^len\(.*\)$", l.a) is not None
        tol_edges = []
        for t in fs.tests():
            for o in (True, False):
                for l in fs.implied(t, o):
                    if is_tol(l, t) or is_empty(l):
                        tol_edges.append((t, o))
        kinds = {}
        for r, leaves in returned_values(fs):
            ok3 = bool(leaves)
            conv_nodes = []
            for lf in leaves:
                v = lf.ast
                if not (lf.kind == "expr" and isinstance(v, ast.Tuple) and len(v.elts) == 3):
                    ok3 = False
                    continue
                sts = _status_of(fs, v, lf.node)
                if not sts <= {"converged", "error"}:
                    ok3 = False
                for st_ in sts:
                    kinds.setdefault(st_, []).extend(str_consts(v.elts[1]) + [s_ for m in fs.origins(v.elts[1], lf.node) if m.kind == "expr" for s_ in str_consts(m.ast)])
                if "converged" in sts:
                    conv_nodes.extend(m.node for m in fs.origins(v.elts[0], lf.node) if m.kind == "expr" and (dotted(m.ast) or "").endswith("SolverStatus.converged"))
            chk.expect(ok3, "R-C16-2", "solve returns a (SolverStatus, message, iterations) triple at line %d" % fs.line(r), loc(sv, gs.node_ast(r)), found=[lf.text()[:80] for lf in leaves])
            if conv_nodes:
                okc = all(fs.only_behind(n, tol_edges) or fs.behind(n, lambda l: is_empty(l) or any(is_tol(l, t_) for t_ in fs.tests())) for n in conv_nodes)
                chk.expect(okc, "R-C16-2", "`converged` is returned only under the tolerance test (line %d)" % fs.line(r), loc(sv, gs.node_ast(r)),
                           "a failed solve must never be reported as converged")
        errtxt = " ".join(kinds.get("error", []))
        for what in ("Time limit", "singular", "Line search failed", "maximum number of iterations"):
            chk.expect(what in errtxt, "R-C16-2", "solve reports `%s` with SolverStatus.error" % what, loc(sv), found=errtxt[:200])
        loops = [n for n in walk(sv) if isinstance(n, (ast.For, ast.While))]
        chk.expect(loops and all(isinstance(l, ast.For) and isinstance(l.iter, ast.Call) and call_name(l.iter) == "range" for l in loops), "R-C16-2",
                   "both Newton loops are range-bounded (maxiter, bt_maxiter)", loc(sv), found=[unparse(l).split("\n")[0] for l in loops])
        # leaving the outer loop by exhaustion leads to error returns only
        outer = [h for l, h in gs.loop_heads.items() if not any(isinstance(p, (ast.For, ast.While)) for p in _ancestors(l, fs.fn))]
        after = [b for h in outer for b in gs.succ_on(h, False)]
        exh = returned_values(fs, start=after) if after else []
        ok_exh = bool(exh)
        for r, leaves in exh:
            for lf in leaves:
                if not (lf.kind == "expr" and isinstance(lf.ast, ast.Tuple) and len(lf.ast.elts) == 3 and _status_of(fs, lf.ast, lf.node) == {"error"}):
                    ok_exh = False
        chk.expect(ok_exh, "R-C16-2", "exhausting maxiter returns SolverStatus.error", loc(sv, gs.node_ast(exh[0][0]) if exh else None))

        sh = repo.func(CORE, "_solver_helper")
        chk.fn(sh)
        fh = Flow(sh)
        gh = fh.g
        hrets = returned_values(fh)
        hpreds = list(gh.g.predecessors(gh.exit))
        unb = [lf for r, leaves in hrets for lf in leaves if lf.kind == "unbound"]
        chk.expect(bool(hrets) and all(isinstance(gh.node_ast(p), ast.Return) and gh.node_ast(p).value is not None for p in hpreds) and not unb, "R-C16-2",
                   "_solver_helper assigns a status on every returning path", loc(sh), found=[gh.label(p) for p in hpreds if not isinstance(gh.node_ast(p), ast.Return)] + [lf.text() for lf in unb])

        def leaf_status(f, lf, rmap=None):
            """set of statuses of one returned leaf: subset of {'error','converged'}, {'newton'} for the Newton solver's own triple, {'?'} otherwise"""
            v = lf.ast
            if lf.kind != "expr":
                return {"?"}
            if isinstance(v, ast.Tuple) and len(v.elts) == 3:
                return _status_of(f, v, lf.node, rmap)
            if isinstance(v, ast.Call) and last_attr(v) == "solve":
                return {"newton"}
            return {"?"}
        seen_leaf = set()
        none_count = False
        for r, leaves in hrets:
            for lf in leaves:
                if lf.kind == "unbound" or (lf.node, lf.text()) in seen_leaf:
                    continue
                seen_leaf.add((lf.node, lf.text()))
                sts = leaf_status(fh, lf)
                chk.expect(sts <= {"error", "converged", "newton"}, "R-C16-2", "_solver_helper status at line %d is a SolverStatus or the Newton solver's triple" % fh.line(lf.node), loc(sh, gh.node_ast(lf.node)), found=lf.text()[:60])
                if lf.kind == "expr" and isinstance(lf.ast, ast.Tuple) and len(lf.ast.elts) == 3:
                    if any(m.kind == "expr" and isinstance(m.ast, ast.Constant) and m.ast.value is None for m in fh.origins(lf.ast.elts[2], lf.node)):
                        none_count = True
        # an exception caught inside the helper ends in an error status
        for h in [i for i, d in sorted(gh.g.nodes(data=True)) if d["kind"] == "except"]:
            rmap = fh.flow_from(h)
            hr = returned_values(fh, start=[h], rmap=rmap)
            sts = set()
            for r, leaves in hr:
                for lf in leaves:
                    sts |= leaf_status(fh, lf, rmap)
            reraises = [n for n in gh.reachable(h) if isinstance(gh.node_ast(n), ast.Raise)]
            chk.expect(sts == {"error"} or (not sts and reraises), "R-C16-2", "an exception inside a scipy solver is reported as SolverStatus.error", loc(sh, gh.node_ast(h)), found=sorted(sts))
        # fsolve: `converged` only behind ier == 1 (ier: element 2 of the 4-tuple fsolve returns with full_output)
        def ier_lit(l, t):
            if l.kind != "eq":
                return False
            for (a, xa), (b, xb) in (l.sides(), l.sides()[::-1]):
                if a == "1" and xb is not None:
                    os_ = fh.origins(xb, t)
                    if os_ and all(m.kind == "expr" and isinstance(m.ast, ast.Subscript) and const(m.ast.slice) == 2 and isinstance(m.ast.value, ast.Call) for m in os_):
                        return True
            return False
        four = gh.nodes_where(lambda node, d: isinstance(node, ast.Assign) and isinstance(node.value, ast.Call) and any(isinstance(t, ast.Tuple) and len(t.elts) == 4 for t in node.targets))
        ok_edges, bad_edges, fnodes = [], [], set(four)
        for t in fh.tests():
            for o in (True, False):
                for l in fh.implied(t, o):
                    if ier_lit(l, t):
                        (ok_edges if l.sign else bad_edges).append((t, o))
                        for (a, xa) in l.sides():
                            if xa is not None and a != "1":
                                fnodes.update(m.node for m in fh.origins(xa, t))
        if not fnodes:
            raise ExtractError("_solver_helper: the call that unpacks fsolve's (x, infodict, ier, mesg) was not found")
        for f in sorted(fnodes):
            rmap = fh.flow_from(f)
            convs = []       # the nodes at which a `converged` that can be returned downstream of the fsolve call is produced
            for r, leaves in returned_values(fh, start=[f], rmap=rmap):
                for lf in leaves:
                    if lf.kind == "expr" and isinstance(lf.ast, ast.Tuple) and len(lf.ast.elts) == 3:
                        convs.extend(m.node for m in fh.origins(lf.ast.elts[0], lf.node, rmap) if m.kind == "expr" and (dotted(m.ast) or "").endswith("SolverStatus.converged"))
            okf = bool(convs) and all(fh.only_behind(n, ok_edges, src=f) for n in convs)
            chk.expect(okf, "R-C16-2", "fsolve's ier != 1 is mapped to SolverStatus.error", loc(sh, gh.node_ast(f)),
                       "fsolve reports failure through ier in 2..5; `converged` may only be returned on the edge where ier == 1 holds", found=[gh.label(n) for n in convs])
        for t, o in bad_edges:
            gv = fh.given(t, o)
            rmap = fh.flow_from_edge(t, o, gv)
            sts = set()
            for r, leaves in returned_values(fh, start=gh.succ_on(t, o), rmap=rmap, graph=gv):
                for lf in leaves:
                    sts |= leaf_status(fh, lf, rmap)
            chk.expect(sts == {"error"}, "R-C16-2", "fsolve's ier != 1 is mapped to SolverStatus.error (edge at line %d)" % fh.line(t), loc(sh, gh.node_ast(t)), found=sorted(sts))
        chk.floor("R-C16-2", 15)

        results_table_rules(repo, chk)

    # ---------------------------------------------------------------- R-C16-6 a step that was solved is never lost to a crash in the bookkeeping
    with chk.part("R-C16-6 a step that was solved is never lost to a crash in the bookkeeping"):
        # (a) the solver helper may return None as iteration count (scipy solvers): run_sim must not hand it to a format spec
        def is_count(e, at):
            return isinstance(e, ast.Name) and triple_role(e, at)[0] == 2
        n_fmt = 0
        for i in sorted(fl.G.nodes):
            for e in fl.own_exprs(i):
                for x in walk(e):
                    hits = []      # (spec text, printable) for each bare use of the count in a formatting position
                    if isinstance(x, ast.Call) and isinstance(x.func, ast.Attribute) and x.func.attr == "format":
                        fmts = [lf.ast.value for lf in fl.origins(x.func.value, i) if lf.kind == "expr" and isinstance(lf.ast, ast.Constant) and isinstance(lf.ast.value, str)]
                        for k, a in enumerate(x.args):
                            if is_count(a, i):
                                for f in fmts:
                                    m = re.search(r"\{%d(?:![rsa])?:([^}]+)\}" % k, f)
                                    hits.append(m.group(1) if m else None)
                                if not fmts:
                                    hits.append(None)
                    elif isinstance(x, ast.FormattedValue) and is_count(x.value, i):
                        hits.append(unparse(x.format_spec) if x.format_spec is not None else None)
                    elif isinstance(x, ast.BinOp) and isinstance(x.op, ast.Mod) and isinstance(x.left, ast.Constant) and isinstance(x.left.value, str):
                        argl = x.right.elts if isinstance(x.right, ast.Tuple) else [x.right]
                        specs = re.findall(r"%(?:\([^)]*\))?[-#0 +]*\d*(?:\.\d+)?([a-zA-Z%])", x.left.value)
                        specs = [s_ for s_ in specs if s_ != "%"]
                        for k, a in enumerate(argl):
                            if is_count(a, i):
                                hits.append(specs[k] if k < len(specs) and specs[k] not in "sra" else None)
                    for spec in hits:
                        n_fmt += 1
                        chk.expect(not (none_count and spec), "R-C16-6", "run_sim does not apply a format spec to the iteration count, which is None for scipy solvers", loc(rs, x),
                                   "_solver_helper returns (status, message, None) for fsolve / newton_krylov / ...; '{:%s}'.format(None) raises TypeError, so a step rescued by a scipy "
                                   "(backup) solver crashes the run instead of being reported" % (spec or ""), expected="str(<count>)", found=norm(x))
        if not n_fmt:
            chk.ok("R-C16-6", "run_sim does not apply a format spec to the iteration count, which is None for scipy solvers", loc(rs), "the bare count is not formatted anywhere")

        # (b) the report timestep is classified by one predicate in the set-up and in the loop
        def classify(fn, f):
            out = []
            for i in sorted(f.G.nodes):
                for c in f.own_calls(i):
                    if isinstance(c.func, ast.Name) and c.func.id == "isinstance" and len(c.args) == 2 and dotted(f.resolve(c.args[0], i)) in rep_attrs:
                        t2 = f.resolve(c.args[1], i)
                        out.append(tuple(sorted(unparse(e) for e in (t2.elts if isinstance(t2, ast.Tuple) else [t2]))))
            return out
        cs, cl = classify(so, fso), classify(rs, fl)
        if not cs or not cl:
            raise ExtractError("classification of report_timestep not found (setup %s, loop %s)" % (cs, cl))
        chk.expect(set(cs) == set(cl), "R-C16-6", "report_timestep is classified (number vs 'ALL') by the same type test in _setup_sim_options and in the simulation loop", loc(rs),
                   "a value the set-up accepts as a number (e.g. numpy.int64) but the loop does not recognise falls into the string branch and raises AttributeError after the first step",
                   expected=sorted(set(cs)), found=sorted(set(cl)))
        # (c) NewtonSolver.solve: a loop variable used after its loop is bound even when the loop does not run (MAXITER = 0)
        n_lv = 0
        for lp, h in sorted(gs.loop_heads.items(), key=lambda kv: kv[1]):
            if not isinstance(lp, ast.For) or any(isinstance(p, (ast.For, ast.While)) for p in _ancestors(lp, fs.fn)):
                continue
            body = {id(x) for x in ast.walk(lp)}
            for v in _target_names(lp.target):
                for i in sorted(fs.G.nodes):
                    if i == h or i not in gs.reachable(h):
                        continue
                    uses = [x for e in fs.own_exprs(i) for x in walk(e) if isinstance(x, ast.Name) and x.id == v and isinstance(x.ctx, ast.Load) and id(x) not in body]
                    if not uses:
                        continue
                    n_lv += 1
                    unb_ = [dn for dn, val in fs.reaching(v, i) if val is _UNBOUND]
                    chk.expect(not unb_, "R-C16-6", "NewtonSolver.solve: `%s` is defined before its loop (it is used after the loop, which may not run at all)" % v, loc(sv, uses[0]),
                               "with MAXITER = 0 the loop body never runs and the fall-through return raises UnboundLocalError instead of reporting the failure", found="used at line %d" % fs.line(i))
        chk.floor("R-C16-6", 3)


def _ancestors(n, stop):
    out = []
    p = getattr(n, "_parent", None)
    while p is not None and p is not stop:
        out.append(p)
        p = getattr(p, "_parent", None)
    return out


def _timestep_at_least_one(to):
    """TimeOptions.__setattr__('hydraulic_timestep', v) stores an integer >= 1 for every number v (evaluated on a finite set of v)."""
    if len(to.args.args) < 3:
        raise AnchorError("TimeOptions.__setattr__: unexpected signature")
    pn, pv = to.args.args[1].arg, to.args.args[2].arg
    ex = SymExec()
    outs = [o for o in ex.run(to, env={pn: "hydraulic_timestep"}) if o.raised is None]
    if not outs:
        return False
    intf = sp.Function("int")
    for o in outs:
        st = [e for e in o.events if e[0] == "store" and "hydraulic_timestep" in e[1]]
        if not st:
            return False
        v = st[-1][2]
        try:
            v = ex.S(v)
        except ExtractError:
            return False
        syms = [s for s in v.free_symbols]
        if [str(s) for s in syms] not in ([], [pv]):
            return False
        for probe in (sp.Rational(-7, 2), 0, sp.Rational(2, 5), 1, sp.Rational(79, 10), 3600):
            val = v.subs({s: probe for s in syms}).replace(intf, lambda a: sp.Integer(int(a)))
            try:
                if not (val.is_number and val == sp.floor(val) and val >= 1):
                    return False
            except TypeError:
                return False
    return True


# the report block of run_sim as it is today, and with both report modes merged behind one flag
_REPORT_BLOCK = (
    '            if not isinstance(self._report_timestep, str):  # same test as in _setup_sim_options (numpy integers are numbers too)\n'
    '                if self._wn.sim_time % self._report_timestep == 0:\n'
    '                    wntr.sim.hydraulics.save_results(self._wn, node_res, link_res)\n'
    '                    if len(results.time) > 0 and int(self._wn.sim_time) == results.time[-1]:\n'
    '                        if int(self._wn.sim_time) != self._wn.sim_time:\n'
    "                            raise RuntimeError('Time steps increments smaller than 1 second are forbidden.'+\n"
    "                                               ' Keep time steps as an integer number of seconds.')\n"
    '                        else:\n'
    "                            raise RuntimeError('Simulation already solved this timestep')\n"
    '                    results.time.append(int(self._wn.sim_time))\n'
    "            elif self._report_timestep.upper() == 'ALL':\n"
    '                wntr.sim.hydraulics.save_results(self._wn, node_res, link_res)\n'
    '                if len(results.time) > 0 and int(self._wn.sim_time) == results.time[-1]:\n'
    "                    raise RuntimeError('Simulation already solved this timestep')\n"
    '                results.time.append(int(self._wn.sim_time))\n'
)
_REPORT_BLOCK_MERGED = (
    '            numeric = not isinstance(self._report_timestep, str)\n'
    '            if numeric:\n'
    '                report = self._wn.sim_time % self._report_timestep == 0\n'
    '            else:\n'
    "                report = self._report_timestep.upper() == 'ALL'\n"
    '            if report:\n'
    '                wntr.sim.hydraulics.save_results(self._wn, node_res, link_res)\n'
    '                if len(results.time) > 0 and int(self._wn.sim_time) == results.time[-1]:\n'
    '                    if numeric and int(self._wn.sim_time) != self._wn.sim_time:\n'
    "                        raise RuntimeError('Time steps increments smaller than 1 second are forbidden.'+\n"
    "                                           ' Keep time steps as an integer number of seconds.')\n"
    "                    raise RuntimeError('Simulation already solved this timestep')\n"
    '                results.time.append(int(self._wn.sim_time))\n'
)

# the solver + backup solver pair of run_sim as it is today, and as one loop over the attempts (%s: the two status tests)
_SOLVE_PAIR = (
    "            solver_status, mesg, iter_count = _solver_helper(self._model, self._solver, self._solver_options)\n"
    "            if solver_status == 0 and self._backup_solver is not None:\n"
    "                solver_status, mesg, iter_count = _solver_helper(self._model, self._backup_solver, self._backup_solver_options)\n"
    "            if solver_status == 0:\n"
    "                if self._convergence_error:\n"
)
_SOLVE_LOOP = (
    "            solve_attempts = [(self._solver, self._solver_options)]\n"
    "            if self._backup_solver is not None:\n"
    "                solve_attempts.append((self._backup_solver, self._backup_solver_options))\n"
    "            for attempt_solver, attempt_options in solve_attempts:\n"
    "                solver_status, mesg, iter_count = _solver_helper(model=self._model, solver=attempt_solver,\n"
    "                                                                 solver_options=attempt_options)\n"
    "                if %s:\n"
    "                    break\n"
    "            if %s:\n"
    "                if self._convergence_error:\n"
)
# the line search of NewtonSolver.solve as it is today, and flattened (no line search: early continue)
_LINE_SEARCH = (
    "            # Backtracking\n"
    "            alpha = 1.0\n"
    "            if self.bt and outer_iter >= self.bt_start_iter:\n"
    "                use_r_ = True\n"
    "                for iter_bt in range(self.bt_maxiter):\n"
    "                    x_ = x + alpha * d\n"
    "                    model.load_var_values_from_x(x_)\n"
    "                    r_ = model.evaluate_residuals()\n"
    "                    new_norm = np.max(abs(r_))\n"
    "                    if new_norm < (1.0 - 0.0001 * alpha) * r_norm:\n"
    "                        x = x_\n"
    "                        break\n"
    "                    else:\n"
    "                        alpha = alpha * self.rho\n"
    "\n"
    "                if iter_bt + 1 >= self.bt_maxiter:\n"
    "                    return (\n"
    "                        SolverStatus.error,\n"
    "                        \"Line search failed at iteration \" + str(outer_iter),\n"
    "                        outer_iter,\n"
    "                    )\n"
    "                if self.log_progress or ostream is not None:\n"
    "                    msg = f\"iter: {outer_iter:<4d} norm: {new_norm:<10.2e} alpha: {alpha:<10.2e} time: {time.time() - t0:<8.4f}\"\n"
    "                    if self.log_progress:\n"
    "                        logger.log(self.log_level, msg)\n"
    "                    if ostream is not None:\n"
    "                        ostream.write(msg + \"\\n\")\n"
    "            else:\n"
    "                x += d\n"
    "                model.load_var_values_from_x(x)\n"
)
_LINE_SEARCH_FLAT = (
    "            if not (self.bt and outer_iter >= self.bt_start_iter):\n"
    "                x += d\n"
    "                model.load_var_values_from_x(x)\n"
    "                continue\n"
    "            alpha = 1.0\n"
    "            for iter_bt in range(self.bt_maxiter):\n"
    "                x_trial = x + alpha * d\n"
    "                model.load_var_values_from_x(x_trial)\n"
    "                r_trial = model.evaluate_residuals()\n"
    "                trial_norm = np.max(abs(r_trial))\n"
    "                if trial_norm < (1.0 - 0.0001 * alpha) * r_norm:\n"
    "                    x = x_trial\n"
    "                    break\n"
    "                alpha *= self.rho\n"
    "            if iter_bt + 1 >= self.bt_maxiter:\n"
    "                return (\n"
    "                    SolverStatus.error,\n"
    "                    \"Line search failed at iteration \" + str(outer_iter),\n"
    "                    outer_iter,\n"
    "                )\n"
    "            if report:\n"
    "                msg = f\"iter: {outer_iter:<4d} norm: {trial_norm:<10.2e} alpha: {alpha:<10.2e} time: {time.time() - t0:<8.4f}\"\n"
    "                if self.log_progress:\n"
    "                    logger.log(self.log_level, msg)\n"
    "                if ostream is not None:\n"
    "                    ostream.write(msg + \"\\n\")\n"
)

WITNESSES = [
    dict(name="report-step-left-off-the-hydraulic-grid", file=CORE, old="                new_report = self._report_timestep - (self._report_timestep%self._hydraulic_timestep)\n",
         new="                new_report = self._report_timestep\n", rule="R-C16-8"),
    dict(name="report-step-reconciled-with-floor-division-preserving", file=CORE, old="                new_report = self._report_timestep - (self._report_timestep%self._hydraulic_timestep)\n",
         new="                new_report = (self._report_timestep // self._hydraulic_timestep) * self._hydraulic_timestep\n", silent=True),
    dict(name="linear-solve-through-splu-keeps-old-handler", file=SOLV, old='                d = -sp.linalg.spsolve(J, r, permc_spec="COLAMD", use_umfpack=False)\n', new='                lu = sp.linalg.splu(J.T, permc_spec="COLAMD")\n                d = -lu.solve(r, trans="T")\n', rule="R-C16-7"),
    dict(name="quiet-linear-solve-through-splu-with-its-handler", file=SOLV, silent=True, old='                d = -sp.linalg.spsolve(J, r, permc_spec="COLAMD", use_umfpack=False)\n            except sp.linalg.MatrixRankWarning:\n',
         new='                lu = sp.linalg.splu(J.T, permc_spec="COLAMD")\n                d = -lu.solve(r, trans="T")\n            except (sp.linalg.MatrixRankWarning, RuntimeError):\n'),
    dict(name="scipy-solver-failures-enumerated", file=CORE, old="            sol = SolverStatus.converged, '', None\n        except:\n", new="            sol = SolverStatus.converged, '', None\n        except (ValueError, FloatingPointError, np.linalg.LinAlgError):\n", rule="R-C16-7"),
    dict(name="quiet-scipy-solver-except-exception", file=CORE, silent=True, old="            sol = SolverStatus.converged, '', None\n        except:\n", new="            sol = SolverStatus.converged, '', None\n        except Exception:\n"),
    dict(name="singular-matrix-warning-no-longer-an-error", file=SOLV, old='warnings.filterwarnings(\n    "error", "Matrix is exactly singular", sp.linalg.MatrixRankWarning\n)', new='pass', rule="R-C16-7"),
    dict(name="none-iteration-count-formatted", file=CORE, old="trial, str(iter_count), num_isolated_junctions", new="trial, iter_count, num_isolated_junctions", rule="R-C16-6"),
    dict(name="report-timestep-classified-twice", file=CORE, old="            if not isinstance(self._report_timestep, str):  # same test", new="            if isinstance(self._report_timestep, (float, int)):  # same test", rule="R-C16-6"),
    dict(name="loop-variable-unbound-for-zero-iterations", file=SOLV, old="        outer_iter = 0  # reported when the loop does not run at all (MAXITER = 0)\n", new="", rule="R-C16-6"),
    dict(name="elif-after-backup", file=CORE, old="            if solver_status == 0:\n                if self._convergence_error:", new="            elif solver_status == 0:\n                if self._convergence_error:", rule="R-C16-1"),
    dict(name="break-removed", file=CORE, old="                diagnostics.run(last_step='solve', next_step='break')\n                break\n", new="                diagnostics.run(last_step='solve', next_step='break')\n", rule="R-C16-1"),
    dict(name="error-code-not-set", file=CORE, old="                results.error_code = wntr.sim.results.ResultsStatus.error\n                diagnostics.run(last_step='solve', next_step='break')", new="                diagnostics.run(last_step='solve', next_step='break')", rule="R-C16-1"),
    dict(name="trial-limit-no-error-code", file=CORE, old="                    results.error_code = wntr.sim.results.ResultsStatus.error\n                    warnings.warn('Exceeded", new="                    warnings.warn('Exceeded", rule="R-C16-1"),
    dict(name="append-only-when-nonempty", file=CORE, old="                    raise RuntimeError('Simulation already solved this timestep')\n                results.time.append(int(self._wn.sim_time))\n            wntr.sim.hydraulics.update_network_previous_values",
         new="                    raise RuntimeError('Simulation already solved this timestep')\n                if len(results.time) > 0:\n                    results.time.append(int(self._wn.sim_time))\n            wntr.sim.hydraulics.update_network_previous_values", rule="R-C16-3"),
    dict(name="linesearch-converged", file=SOLV, old="                    return (\n                        SolverStatus.error,\n                        \"Line search failed at iteration \"", new="                    return (\n                        SolverStatus.converged,\n                        \"Line search failed at iteration \"", rule="R-C16-2"),
    dict(name="maxiter-converged", file=SOLV, old="        return (\n            SolverStatus.error,\n            \"Reached maximum number of iterations: \"", new="        return (\n            SolverStatus.converged,\n            \"Reached maximum number of iterations: \"", rule="R-C16-2"),
    dict(name="tank-leak-not-saved", file=HYD, old="        node_res['pressure'][name].append(node.head - node.elevation)\n        node_res['leak_demand'][name].append(node.leak_demand)\n\n    for name, node in wn.reservoirs():",
         new="        node_res['pressure'][name].append(node.head - node.elevation)\n        if node.leak_status:\n            node_res['leak_demand'][name].append(node.leak_demand)\n\n    for name, node in wn.reservoirs():", rule="R-C16-4"),
    dict(name="columns-from-other-list", file=HYD, old="index=results.time,\n                                     columns=node_names)", new="index=results.time,\n                                     columns=wn.node_name_list)", rule="R-C16-4"),
    # ---- further mutations (each must fire)
    dict(name="raise-removed", file=CORE, old="                    raise RuntimeError('Simulation did not converge at time ' + self._get_time() + '. ' + mesg)\n", new="", rule="R-C16-1"),
    dict(name="trial-limit-raise-unconditional", file=CORE, old="                    if convergence_error:\n", new="                    if convergence_error or trial:\n", rule="R-C16-1"),
    dict(name="ier-truthy-is-converged", file=CORE, old="        if ier != 1:\n            sol = SolverStatus.error, mesg, None", new="        if not ier:\n            sol = SolverStatus.error, mesg, None", rule="R-C16-2"),
    dict(name="scipy-exception-reported-converged", file=CORE, old="        except:\n            sol = SolverStatus.error, '', None", new="        except:\n            sol = SolverStatus.converged, '', None", rule="R-C16-2"),
    dict(name="status-variable-unbound-on-a-path", file=CORE, old="            sol = SolverStatus.converged, mesg, None\n", new="            pass\n", rule="R-C16-2"),
    dict(name="appended-time-not-int", file=CORE, old="                results.time.append(int(self._wn.sim_time))\n            wntr.sim.hydraulics.update_network_previous_values", new="                results.time.append(self._wn.sim_time)\n            wntr.sim.hydraulics.update_network_previous_values", rule="R-C16-3"),
    dict(name="stale-clock-alias-appended", file=CORE, old="            resolve = False\n            if not isinstance(self._report_timestep, str):  # same test",
         new="            resolve = False\n            stamp = self._wn.sim_time\n            self._wn.sim_time = self._wn.sim_time + 0\n            if not isinstance(self._report_timestep, str):  # same test",
         also=[("                    results.time.append(int(self._wn.sim_time))\n            elif", "                    results.time.append(int(stamp))\n            elif")], rule="R-C16-3"),
    dict(name="grid-test-inverted", file=CORE, old="                if self._wn.sim_time % self._report_timestep == 0:", new="                if self._wn.sim_time % self._report_timestep != 0:", rule="R-C16-3"),
    dict(name="duration-test-inverted", file=CORE, old="            if self._wn.sim_time > self._wn.options.time.duration:\n                break", new="            if self._wn.sim_time <= self._wn.options.time.duration:\n                break", rule="R-C16-5"),
    dict(name="advance-by-report-step", file=CORE, old="            self._wn.sim_time += self._hydraulic_timestep\n", new="            self._wn.sim_time += self._report_timestep\n", rule="R-C16-5"),
    dict(name="status-test-on-other-element", file=CORE, old="            if solver_status == 0:\n                if self._convergence_error:", new="            if iter_count == 0:\n                if self._convergence_error:", rule="R-C16-1"),
    dict(name="link-tables-over-nodes", file=HYD, old="    link_res['setting'] = OrderedDict((name, list()) for name, obj in wn.links())", new="    link_res['setting'] = OrderedDict((name, list()) for name, obj in wn.nodes())", rule="R-C16-4"),
    dict(name="fstring-spec-on-count", file=CORE, old="trial, str(iter_count), num_isolated_junctions, num_isolated_links))",
         new="trial, str(iter_count), num_isolated_junctions, num_isolated_links) + f'{iter_count:<4}')", rule="R-C16-6"),
    dict(name="backup-status-ignored", file=CORE, old="                solver_status, mesg, iter_count = _solver_helper(self._model, self._backup_solver, self._backup_solver_options)",
         new="                _unused, mesg, iter_count = _solver_helper(self._model, self._backup_solver, self._backup_solver_options)", rule="R-C16-1"),
    dict(name="tolerance-test-inverted", file=SOLV, old="            if r_norm < self.tol:\n", new="            if r_norm > self.tol:\n", rule="R-C16-2"),
    dict(name="failure-continues-instead-of-break", file=CORE, old="                diagnostics.run(last_step='solve', next_step='break')\n                break\n",
         new="                diagnostics.run(last_step='solve', next_step='break')\n                continue\n", rule="R-C16-1"),
    dict(name="merged-report-flag-off-grid", file=CORE, old=_REPORT_BLOCK, new=_REPORT_BLOCK_MERGED.replace("% self._report_timestep == 0", "% self._report_timestep >= 0"), rule="R-C16-3"),
    dict(name="attempt-loop-failure-hidden-when-backup-given", file=CORE, old=_SOLVE_PAIR,
         new=_SOLVE_LOOP % ("solver_status != SolverStatus.error", "solver_status == SolverStatus.error and self._backup_solver is None"), rule="R-C16-1"),
    dict(name="attempt-loop-status-of-first-attempt-tested", file=CORE, old=_SOLVE_PAIR,
         new=(_SOLVE_LOOP % ("solver_status != SolverStatus.error", "first_status == SolverStatus.error")).replace(
             "                if solver_status != SolverStatus.error:\n", "                if attempt_solver is self._solver:\n                    first_status = solver_status\n                if solver_status != SolverStatus.error:\n"), rule="R-C16-1"),
    # ---- behaviour-preserving rewrites (each must stay quiet)
    dict(name="P-extract-record-solved-step", file=CORE, silent=True, old=_REPORT_BLOCK,
         new="            self._record_solved_step(results, node_res, link_res)\n",
         also=[("    def _initialize_name_id_maps(self):\n",
                "    def _record_solved_step(self, out, node_tables, link_tables):\n"
                "        now = self._wn.sim_time\n"
                "        if not isinstance(self._report_timestep, str):  # same test as in _setup_sim_options\n"
                "            if now % self._report_timestep != 0:\n"
                "                return\n"
                "            wntr.sim.hydraulics.save_results(self._wn, node_tables, link_tables)\n"
                "            if len(out.time) > 0 and int(now) == out.time[-1]:\n"
                "                if int(now) != now:\n"
                "                    raise RuntimeError('Time steps increments smaller than 1 second are forbidden.')\n"
                "                raise RuntimeError('Simulation already solved this timestep')\n"
                "            out.time.append(int(now))\n"
                "        elif self._report_timestep.upper() == 'ALL':\n"
                "            wntr.sim.hydraulics.save_results(self._wn, node_tables, link_tables)\n"
                "            if len(out.time) > 0 and int(now) == out.time[-1]:\n"
                "                raise RuntimeError('Simulation already solved this timestep')\n"
                "            out.time.append(int(now))\n\n"
                "    def _initialize_name_id_maps(self):\n")]),
    dict(name="P-solve-with-backup-and-hoisted-message", file=CORE, silent=True,
         old="            solver_status, mesg, iter_count = _solver_helper(self._model, self._solver, self._solver_options)\n"
             "            if solver_status == 0 and self._backup_solver is not None:\n"
             "                solver_status, mesg, iter_count = _solver_helper(self._model, self._backup_solver, self._backup_solver_options)\n",
         new="            solver_status, mesg, iter_count = self._solve_with_backup()\n",
         also=[("    def run_sim(self, solver=NewtonSolver,",
                "    def _solve_with_backup(self):\n"
                "        status, text, count = _solver_helper(self._model, self._solver, self._solver_options)\n"
                "        if status == 0 and self._backup_solver is not None:\n"
                "            status, text, count = _solver_helper(self._model, self._backup_solver, self._backup_solver_options)\n"
                "        return status, text, count\n\n"
                "    def run_sim(self, solver=NewtonSolver,"),
               ("                warnings.warn('Simulation did not converge at time ' + self._get_time() + '. ' + mesg)\n"
                "                logger.warning('Simulation did not converge at time ' + self._get_time() + '. ' + mesg)\n",
                "                failure_msg = 'Simulation did not converge at time ' + self._get_time() + '. ' + mesg\n"
                "                warnings.warn(failure_msg)\n"
                "                logger.warning(failure_msg)\n")]),
    dict(name="P-status-test-as-not", file=CORE, silent=True, old="            if solver_status == 0:\n                if self._convergence_error:", new="            if not solver_status:\n                if self._convergence_error:"),
    dict(name="P-status-test-named-and-enum", file=CORE, silent=True, old="            if solver_status == 0:\n                if self._convergence_error:",
         new="            failed = solver_status == SolverStatus.error\n            if failed:\n                if self._convergence_error:"),
    dict(name="P-trial-test-negated", file=CORE, silent=True, old="                if trial > max_trials:\n", new="                if not trial <= max_trials:\n"),
    dict(name="P-trial-limit-as-early-continue", file=CORE, silent=True,
         old="                if trial > max_trials:\n"
             "                    if convergence_error:\n"
             "                        logger.error('Exceeded maximum number of trials at time ' + self._get_time() + '. ') \n"
             "                        raise RuntimeError('Exceeded maximum number of trials at time ' + self._get_time() + '. ' ) \n"
             "                    results.error_code = wntr.sim.results.ResultsStatus.error\n"
             "                    warnings.warn('Exceeded maximum number of trials at time ' + self._get_time() + '. ') \n"
             "                    logger.warning('Exceeded maximum number of trials at time ' + self._get_time() + '. ' ) \n"
             "                    break\n"
             "                continue\n",
         new="                if trial <= max_trials:\n"
             "                    continue\n"
             "                text = 'Exceeded maximum number of trials at time ' + self._get_time() + '. '\n"
             "                if not convergence_error:\n"
             "                    results.error_code = wntr.sim.results.ResultsStatus.error\n"
             "                    warnings.warn(text)\n"
             "                    logger.warning(text)\n"
             "                    break\n"
             "                logger.error(text)\n"
             "                raise RuntimeError(text)\n"),
    dict(name="P-duration-test-negated", file=CORE, silent=True, old="            if self._wn.sim_time > self._wn.options.time.duration:\n                break",
         new="            finished = not (self._wn.sim_time <= self._wn.options.time.duration)\n            if finished:\n                break"),
    dict(name="P-advance-written-out", file=CORE, silent=True, old="            self._wn.sim_time += self._hydraulic_timestep\n", new="            dt = self._hydraulic_timestep\n            self._wn.sim_time = self._wn.sim_time + dt\n"),
    dict(name="P-append-through-alias", file=CORE, silent=True, old="                results.time.append(int(self._wn.sim_time))\n            wntr.sim.hydraulics.update_network_previous_values",
         new="                times = results.time\n                times.append(int(self._wn.sim_time))\n            wntr.sim.hydraulics.update_network_previous_values"),
    dict(name="P-solver-helper-early-returns", file=CORE, silent=True,
         old="    if solver is NewtonSolver:\n"
             "        _solver = NewtonSolver(solver_options)\n"
             "        sol = _solver.solve(model)\n"
             "    elif solver is scipy.optimize.fsolve:\n"
             "        x, infodict, ier, mesg = solver(model.evaluate_residuals, model.get_x(), **solver_options)\n"
             "        if ier != 1:\n"
             "            sol = SolverStatus.error, mesg, None\n"
             "        else:\n"
             "            model.load_var_values_from_x(x)\n"
             "            sol = SolverStatus.converged, mesg, None\n"
             "    elif solver in {",
         new="    if solver is NewtonSolver:\n"
             "        newton = NewtonSolver(solver_options)\n"
             "        return newton.solve(model)\n"
             "    if solver is scipy.optimize.fsolve:\n"
             "        out = solver(model.evaluate_residuals, model.get_x(), **solver_options)\n"
             "        flag = out[2]\n"
             "        if flag == 1:\n"
             "            model.load_var_values_from_x(out[0])\n"
             "        status = SolverStatus.converged if flag == 1 else SolverStatus.error\n"
             "        return status, out[3], None\n"
             "    if solver in {",
         also=[("            sol = SolverStatus.converged, '', None\n        except:\n            sol = SolverStatus.error, '', None\n    else:\n        raise ValueError('Solver not recognized.')\n    return sol\n",
                "            return SolverStatus.converged, '', None\n        except:\n            return SolverStatus.error, '', None\n    raise ValueError('Solver not recognized.')\n")]),
    dict(name="P-result-keys-from-tuples-and-table-helper", file=HYD, silent=True,
         old="    node_res['head'] = OrderedDict((name, list()) for name, obj in wn.nodes())\n"
             "    node_res['demand'] = OrderedDict((name, list()) for name, obj in wn.nodes())\n"
             "    node_res['pressure'] = OrderedDict((name, list()) for name, obj in wn.nodes())\n"
             "    node_res['leak_demand'] = OrderedDict((name, list()) for name, obj in wn.nodes())\n",
         new="    for key in _NODE_RESULT_KEYS:\n"
             "        node_res[key] = OrderedDict((name, list()) for name, obj in wn.nodes())\n",
         also=[("def initialize_results_dict(wn):\n", "_NODE_RESULT_KEYS = ('head', 'demand', 'pressure', 'leak_demand')\n\n\ndef initialize_results_dict(wn):\n"),
               ("        link_res[key] = pd.DataFrame(data=np.array([link_res[key][name] for name in link_names]).transpose(), index=results.time,\n"
                "                                            columns=link_names)\n",
                "        link_res[key] = _results_table(link_res[key], link_names, results.time)\n"),
               ("def get_results(wn, results, node_res, link_res):\n",
                "def _results_table(series_by_name, names, times):\n"
                "    return pd.DataFrame(data=np.array([series_by_name[name] for name in names]).transpose(), index=times,\n"
                "                        columns=names)\n\n\n"
                "def get_results(wn, results, node_res, link_res):\n")]),
    dict(name="P-solve-status-through-a-variable", file=SOLV, silent=True,
         old="        return (\n            SolverStatus.error,\n            \"Reached maximum number of iterations: \"",
         new="        failed = SolverStatus.error\n        return (\n            failed,\n            \"Reached maximum number of iterations: \""),
    dict(name="P-failure-report-helper", file=CORE, silent=True,
         old="                if self._convergence_error:\n"
             "                    logger.error('Simulation did not converge at time ' + self._get_time() + '. ' + mesg) \n"
             "                    raise RuntimeError('Simulation did not converge at time ' + self._get_time() + '. ' + mesg)\n"
             "                warnings.warn('Simulation did not converge at time ' + self._get_time() + '. ' + mesg)\n"
             "                logger.warning('Simulation did not converge at time ' + self._get_time() + '. ' + mesg)\n"
             "                results.error_code = wntr.sim.results.ResultsStatus.error\n"
             "                diagnostics.run(last_step='solve', next_step='break')\n"
             "                break\n",
         new="                self._report_failed_step(results, 'Simulation did not converge at time ' + self._get_time() + '. ' + mesg, diagnostics)\n"
             "                break\n",
         also=[("    def run_sim(self, solver=NewtonSolver,",
                "    def _report_failed_step(self, out, text, diag):\n"
                "        if self._convergence_error:\n"
                "            logger.error(text)\n"
                "            raise RuntimeError(text)\n"
                "        warnings.warn(text)\n"
                "        logger.warning(text)\n"
                "        out.error_code = wntr.sim.results.ResultsStatus.error\n"
                "        diag.run(last_step='solve', next_step='break')\n\n"
                "    def run_sim(self, solver=NewtonSolver,")]),
    dict(name="P-result-tables-by-comprehension", file=HYD, silent=True,
         old="    node_res = OrderedDict()\n    link_res = OrderedDict()\n",
         new="    node_res = OrderedDict((k, OrderedDict((name, list()) for name, obj in wn.nodes())) for k in ('head', 'demand', 'pressure', 'leak_demand'))\n"
             "    link_res = {k: OrderedDict((name, list()) for name, obj in wn.links()) for k in ('flowrate', 'velocity', 'status', 'setting')}\n"
             "    return node_res, link_res\n"),
    dict(name="P-tolerance-test-named-message-by-percent", file=SOLV, silent=True, old="            if r_norm < self.tol:\n", new="            done = r_norm < self.tol\n            if done:\n",
         also=[("        return (\n            SolverStatus.error,\n            \"Reached maximum number of iterations: \" + str(outer_iter),\n            outer_iter,\n        )",
                "        text = \"Reached maximum number of iterations: %d\" % outer_iter\n        return SolverStatus.error, text, outer_iter")]),
    dict(name="P-data-frame-through-aliases", file=HYD, silent=True,
         old="        node_res[key] = pd.DataFrame(data=np.array([node_res[key][name] for name in node_names]).transpose(), index=results.time,\n"
             "                                     columns=node_names)",
         new="        cols = node_names\n        idx = results.time\n"
             "        node_res[key] = pd.DataFrame(np.array([node_res[key][n] for n in cols]).transpose(), index=idx, columns=cols)"),
    dict(name="P-merged-report-flag", file=CORE, silent=True, old=_REPORT_BLOCK, new=_REPORT_BLOCK_MERGED),
    dict(name="P-solver-attempt-loop-enum-member", file=CORE, silent=True, old=_SOLVE_PAIR, new=_SOLVE_LOOP % ("solver_status != SolverStatus.error", "solver_status == SolverStatus.error")),
    dict(name="P-solver-attempt-loop-truthiness-and-zero", file=CORE, silent=True, old=_SOLVE_PAIR, new=_SOLVE_LOOP % ("solver_status", "solver_status == 0")),
    dict(name="P-solver-attempt-loop-not-status", file=CORE, silent=True, old=_SOLVE_PAIR, new=_SOLVE_LOOP % ("not solver_status == 0", "not solver_status")),
    dict(name="P-newton-line-search-flattened-none-sentinel", file=SOLV, silent=True, old=_LINE_SEARCH, new=_LINE_SEARCH_FLAT,
         also=[("        use_r_ = False\n", "        r_trial = None\n        trial_norm = None\n"),
               ("            if use_r_:\n                r = r_\n                r_norm = new_norm\n            else:\n                r = model.evaluate_residuals()\n                r_norm = np.max(abs(r))\n",
                "            if r_trial is None:\n                r = model.evaluate_residuals()\n                r_norm = np.max(abs(r))\n            else:\n                r = r_trial\n                r_norm = trial_norm\n"),
               ("            if self.log_progress or ostream is not None:\n                if outer_iter < self.bt_start_iter:\n                    msg = f\"iter: {outer_iter:<4d} norm: {r_norm:<10.2e} time: {time.time() - t0:<8.4f}\"\n"
                "                    if self.log_progress:\n                        logger.log(self.log_level, msg)\n                    if ostream is not None:\n                        ostream.write(msg + \"\\n\")\n",
                "            report = self.log_progress or ostream is not None\n            if report and outer_iter < self.bt_start_iter:\n                msg = f\"iter: {outer_iter:<4d} norm: {r_norm:<10.2e} time: {time.time() - t0:<8.4f}\"\n"
                "                if self.log_progress:\n                    logger.log(self.log_level, msg)\n                if ostream is not None:\n                    ostream.write(msg + \"\\n\")\n")]),
    dict(name="no-advance-on-resolve-false", file=CORE, old="            self._wn.sim_time += self._hydraulic_timestep\n", new="            if not resolve or True:\n                pass\n            self._wn.sim_time += self._hydraulic_timestep\n", silent=True),
]
