"""C16 -- runs terminate with well-formed results and never hide a failed step (path rules on run_sim / solve)."""
import ast
import re

from ..src import walk, calls, call_name, dotted, const, loc, unparse, norm, AnchorError, ExtractError, last_attr
from ..cfg import CFG
from ..symx import SymExec, Opaque

CORE = "wntr/sim/core.py"
SOLV = "wntr/sim/solvers.py"
HYD = "wntr/sim/hydraulics.py"
OPT = "wntr/network/options.py"

EXPLANATION = (
    "Path rules on a hand-built statement CFG of WNTRSimulator.run_sim, NewtonSolver.solve and _solver_helper: every path from a solver call to "
    "store_results_in_network passes the pure failure test `solver_status == 0`; from the failure (and trial-limit) branch every exit either "
    "raises (only under convergence_error) or passes warnings.warn and `results.error_code = ResultsStatus.error` and leaves the loop, never "
    "reaching store/save/append; error_code is None otherwise; every solve exit returns a (SolverStatus, message, count) triple, `converged` only "
    "under the tolerance test; loops are range-bounded; each save_results is followed by exactly one results.time.append (or a raise) guarded by "
    "the duplicate-time test; result families and keys of initialize_results_dict / save_results / get_results coincide and each family appends "
    "once per key per call; the accepted path advances sim_time by the (>= 1) hydraulic timestep before the duration test, the re-solve path "
    "increments the bounded trial counter. Decides control-flow discipline, not finiteness of numbers.")
RULE_TEXT = "one instance = one path obligation (source node, target set, required via set) or one family/key table entry"
ASSUMPTIONS = ["only explicit raise statements and try/except edges are modelled as exceptional flow", "termination when back-tracking keeps producing new partial steps is not decided"]


def the_loop(g):
    heads = [h for n, h in g.loop_heads.items() if isinstance(n, ast.While)]
    if len(heads) != 1:
        raise AnchorError("run_sim: expected exactly one while loop, found %d" % len(heads))
    return heads[0]


def is_pure_status_test(node):
    """`solver_status == 0` / `== SolverStatus.error` with no other conjunct."""
    if not isinstance(node, ast.Compare) or len(node.ops) != 1 or not isinstance(node.ops[0], ast.Eq):
        return False
    l, r = unparse(node.left), unparse(node.comparators[0])
    return l == "solver_status" and (r == "0" or r.endswith("SolverStatus.error") or r.endswith("ResultsStatus.error"))


def run(repo, chk):
    rs = repo.func(CORE, "WNTRSimulator.run_sim")
    chk.fn(rs)
    g = CFG(rs)
    head = the_loop(g)
    solves = g.calling("_solver_helper")
    stores = g.calling("store_results_in_network")
    saves = g.calling("save_results")
    appends = [n for n in g.nodes_where(lambda node, d: isinstance(node, ast.Expr) and "results.time.append(" in unparse(node))]
    if not (solves and stores and saves and appends):
        raise AnchorError("run_sim: anchors missing (solves=%s stores=%s saves=%s appends=%s)" % (solves, stores, saves, appends))
    ftests = [n for n in g.nodes_where(lambda node, d: d["kind"] == "test" and is_pure_status_test(node))]
    if not ftests:
        raise AnchorError("run_sim: no pure `solver_status == 0` test")

    # ---------------------------------------------------------------- R-C16-1 failure exits
    for s in solves:
        w = g.can_reach_avoiding(s, stores, ftests, drop_back=True)
        chk.expect(w is None, "R-C16-1", "every path from the solver call at line %d to store_results_in_network tests the solver status" % g.g.nodes[s]["line"], loc(rs, g.node_ast(s)),
                   "a step whose (backup) solve failed must never be stored as if it had converged",
                   expected="path passes `if solver_status == 0:` after the last solve", found=g.path_text(w) if w else None)
    bad_targets = set(stores) | set(saves) | set(appends)
    trial_tests = [n for n in g.nodes_where(lambda node, d: d["kind"] == "test" and re.match(r"^trial\s*>=?\s*max_trials$", unparse(node)))]
    chk.expect(len(trial_tests) == 1, "R-C16-1", "run_sim bounds the number of re-solve trials", loc(rs), found=[g.label(t) for t in trial_tests])
    errs = g.nodes_where(lambda node, d: isinstance(node, ast.Assign) and unparse(node.targets[0]) == "results.error_code")
    err_set = [n for n in errs if "error" in unparse(g.node_ast(n).value) and "None" not in unparse(g.node_ast(n).value)]
    err_none = [n for n in errs if unparse(g.node_ast(n).value) == "None"]
    warns = g.calling("warnings.warn")
    for t in ftests + trial_tests:
        kind = "solver failure" if t in ftests else "trial limit"
        succ = g.succ_on(t, True)
        if not succ:
            chk.bad("R-C16-1", "%s branch exists" % kind, loc(rs, g.node_ast(t)))
            continue
        s0 = succ[0]
        w = g.can_reach_avoiding(s0, bad_targets, [], drop_back=True)
        chk.expect(w is None, "R-C16-1", "%s branch never reaches store/save/append of the failed step" % kind, loc(rs, g.node_ast(t)),
                   "the steps reported before the failure must be exactly those of the run so far", found=g.path_text(w) if w else None)
        w = g.can_reach_avoiding(s0, [g.exit], err_set, drop_back=True)
        chk.expect(w is None and bool(err_set), "R-C16-1", "%s branch sets results.error_code = error on every non-raising exit" % kind, loc(rs, g.node_ast(t)),
                   found=g.path_text(w) if w else None)
        w = g.can_reach_avoiding(s0, [g.exit], warns, drop_back=True)
        chk.expect(w is None and bool(warns), "R-C16-1", "%s branch warns on every non-raising exit" % kind, loc(rs, g.node_ast(t)), found=g.path_text(w) if w else None)
        # the loop must be left: the loop head is not reachable again from the branch
        back = g.can_reach_avoiding(s0, [head], [], drop_back=False)
        chk.expect(back is None, "R-C16-1", "%s branch leaves the time loop (the run stops there)" % kind, loc(rs, g.node_ast(t)), found=g.path_text(back) if back else None)
        # raise only under convergence_error
        raises = [n for n in g.reachable(s0, g.view(drop_back=True)) if isinstance(g.node_ast(n), ast.Raise)]
        conv = [n for n in g.nodes_where(lambda node, d: d["kind"] == "test" and re.search(r"convergence_error", unparse(node)))]
        idom = g.dominators()
        for r in raises:
            okr = any(g.dominates(c, r, idom) and r in g.reachable(g.succ_on(c, True)[0], g.view(drop_back=True)) for c in conv)
            chk.expect(okr, "R-C16-1", "%s: RuntimeError is raised iff convergence_error is set" % kind, loc(rs, g.node_ast(r)), found=g.label(r))
        chk.expect(bool(raises), "R-C16-1", "%s: a RuntimeError is raised when convergence_error=True" % kind, loc(rs, g.node_ast(t)))
    idom = g.dominators()
    chk.expect(len(err_none) == 1 and g.dominates(err_none[0], head, idom), "R-C16-1", "results.error_code is initialised to None before the time loop", loc(rs), found=[g.label(n) for n in err_none])
    for n in err_set:
        okd = any(g.dominates(t, n, idom) for t in ftests + trial_tests)
        chk.expect(okd, "R-C16-1", "results.error_code is set to error only on a failure branch (line %d)" % g.g.nodes[n]["line"], loc(rs, g.node_ast(n)))
    chk.floor("R-C16-1", 14)

    # ---------------------------------------------------------------- R-C16-3 one row per time
    upd = g.calling("update_network_previous_values")
    inloop = g.reachable(head)
    upd_in_loop = [u for u in upd if u in inloop and head in g.reachable(u)]
    dup = g.nodes_where(lambda node, d: d["kind"] == "test" and "results.time[-1]" in unparse(node))
    for s in saves:
        w = g.can_reach_avoiding(s, upd_in_loop, appends, drop_back=True)
        chk.expect(w is None, "R-C16-3", "save_results at line %d is followed by results.time.append on every non-raising path" % g.g.nodes[s]["line"], loc(rs, g.node_ast(s)),
                   "node/link rows and the time index must grow together", found=g.path_text(w) if w else None)
        w = g.can_reach_avoiding(s, appends, dup, drop_back=True)
        chk.expect(w is None, "R-C16-3", "the duplicate-time test precedes the append after save_results at line %d" % g.g.nodes[s]["line"], loc(rs, g.node_ast(s)), found=g.path_text(w) if w else None)
        reach = g.reachable(s, g.view(drop_back=True))
        na = [a for a in appends if a in reach]
        chk.expect(len(na) == 1, "R-C16-3", "exactly one append is reachable from save_results at line %d within the iteration" % g.g.nodes[s]["line"], loc(rs, g.node_ast(s)), found=[g.label(a) for a in na])
    for a in appends:
        w = g.can_reach_avoiding(head, [a], saves, drop_back=True)
        chk.expect(w is None, "R-C16-3", "results.time.append at line %d is preceded by save_results in the same iteration" % g.g.nodes[a]["line"], loc(rs, g.node_ast(a)), found=g.path_text(w) if w else None)
        chk.expect("int(self._wn.sim_time)" in unparse(g.node_ast(a)), "R-C16-3", "the appended time is int(sim_time) (line %d)" % g.g.nodes[a]["line"], loc(rs, g.node_ast(a)))
    for t in dup:
        s0 = g.succ_on(t, True)
        w = g.can_reach_avoiding(s0[0], appends + [g.exit], [], drop_back=True) if s0 else None
        chk.expect(w is None, "R-C16-3", "a repeated time raises instead of appending (test at line %d)" % g.g.nodes[t]["line"], loc(rs, g.node_ast(t)), found=g.path_text(w) if w else None)
    grid = g.nodes_where(lambda node, d: d["kind"] == "test" and re.search(r"sim_time\s*%\s*self\._report_timestep\s*==\s*0", unparse(node)))
    chk.expect(len(grid) == 1 and any(g.dominates(grid[0], s, idom) for s in saves), "R-C16-3", "saving on the report grid is guarded by sim_time % report_timestep == 0", loc(rs))
    # an accepted step is saved: from the `changes_made('graph')` False edge, in 'ALL' mode, save is unavoidable
    chk.floor("R-C16-3", 3 * 2 + 2 * 2 + 2)

    # ---------------------------------------------------------------- R-C16-5 progress
    adv = g.nodes_where(lambda node, d: isinstance(node, ast.AugAssign) and unparse(node.target) == "self._wn.sim_time" and isinstance(node.op, ast.Add))
    dur = g.nodes_where(lambda node, d: d["kind"] == "test" and "options.time.duration" in unparse(node) and "sim_time" in unparse(node))
    chk.expect(len(adv) == 1 and unparse(g.node_ast(adv[0]).value) == "self._hydraulic_timestep", "R-C16-5", "the accepted path advances sim_time by the hydraulic timestep", loc(rs),
               found=[g.label(a) for a in adv])
    if adv and dur:
        for u in upd_in_loop:
            w = g.can_reach_avoiding(u, [head], adv, drop_back=False)
            chk.expect(w is None, "R-C16-5", "no iteration that saved results returns to the loop head without advancing time", loc(rs, g.node_ast(u)), found=g.path_text(w) if w else None)
        w = g.can_reach_avoiding(adv[0], [head], dur, drop_back=False)
        chk.expect(w is None, "R-C16-5", "the duration test follows the time advance on every path back to the loop head", loc(rs), found=g.path_text(w) if w else None)
        brk = [b for b in g.succ_on(dur[0], True)]
        chk.expect(bool(brk) and isinstance(g.node_ast(brk[0]), ast.Break) and re.search(r"sim_time\s*>\s*self\._wn\.options\.time\.duration", unparse(g.node_ast(dur[0]))) is not None,
                   "R-C16-5", "the loop ends when sim_time exceeds the duration", loc(rs, g.node_ast(dur[0])))
    conts = g.nodes_where(lambda node, d: isinstance(node, ast.Continue))
    tinc = g.nodes_where(lambda node, d: isinstance(node, ast.AugAssign) and unparse(node.target) == "trial" and isinstance(node.op, ast.Add))
    for c in conts:
        idomc = idom
        chk.expect(any(g.dominates(t, c, idomc) for t in tinc) and any(g.dominates(t, c, idomc) for t in trial_tests), "R-C16-5",
                   "the re-solve `continue` at line %d is dominated by `trial += 1` and the trial-limit test" % g.g.nodes[c]["line"], loc(rs, g.node_ast(c)))
    # any back edge to the loop head comes either from the advance path or from a continue
    to = repo.func(OPT, "TimeOptions.__setattr__")
    chk.expect("max(1, int(value))" in unparse(to) and "hydraulic_timestep" in unparse(to), "R-C16-5", "options.time.hydraulic_timestep is forced to an integer >= 1", loc(to))
    chk.floor("R-C16-5", 6)

    # ---------------------------------------------------------------- R-C16-2 solver status discipline
    sv = repo.func(SOLV, "NewtonSolver.solve")
    chk.fn(sv)
    gs = CFG(sv)
    rets = gs.nodes_where(lambda node, d: isinstance(node, ast.Return))
    preds = list(gs.g.predecessors(gs.exit))
    chk.expect(all(isinstance(gs.node_ast(p), ast.Return) for p in preds), "R-C16-2", "NewtonSolver.solve cannot fall off its end without returning a status", loc(sv),
               found=[gs.label(p) for p in preds if not isinstance(gs.node_ast(p), ast.Return)])
    idoms = gs.dominators()
    tol = gs.nodes_where(lambda node, d: d["kind"] == "test" and re.search(r"r_norm\s*<\s*self\.tol", unparse(node)))
    empty = gs.nodes_where(lambda node, d: d["kind"] == "test" and "len(x) == 0" in unparse(node))
    kinds = {}
    for r in rets:
        v = gs.node_ast(r).value
        ok3 = isinstance(v, ast.Tuple) and len(v.elts) == 3 and unparse(v.elts[0]) in ("SolverStatus.converged", "SolverStatus.error")
        chk.expect(ok3, "R-C16-2", "solve returns a (SolverStatus, message, iterations) triple at line %d" % gs.g.nodes[r]["line"], loc(sv, gs.node_ast(r)), found=unparse(v)[:80] if v is not None else None)
        if not ok3:
            continue
        status = unparse(v.elts[0]).split(".")[1]
        msg = unparse(v.elts[1])
        kinds.setdefault(status, []).append(msg)
        if status == "converged":
            okc = any(gs.dominates(t, r, idoms) and r in gs.reachable(gs.succ_on(t, True)[0], gs.view(drop_back=True)) for t in tol + empty if gs.succ_on(t, True))
            chk.expect(okc, "R-C16-2", "`converged` is returned only under the tolerance test (line %d)" % gs.g.nodes[r]["line"], loc(sv, gs.node_ast(r)),
                       "a failed solve must never be reported as converged")
    errtxt = " ".join(kinds.get("error", []))
    for what in ("Time limit", "singular", "Line search failed", "maximum number of iterations"):
        chk.expect(what in errtxt, "R-C16-2", "solve reports `%s` with SolverStatus.error" % what, loc(sv), found=errtxt[:200])
    loops = [n for n in walk(sv) if isinstance(n, (ast.For, ast.While))]
    chk.expect(loops and all(isinstance(l, ast.For) and isinstance(l.iter, ast.Call) and call_name(l.iter) == "range" for l in loops), "R-C16-2",
               "both Newton loops are range-bounded (maxiter, bt_maxiter)", loc(sv), found=[unparse(l).split("\n")[0] for l in loops])
    # the statement after the outer loop is the iteration-limit error return
    last = sv.body[-1]
    chk.expect(isinstance(last, ast.Return) and "SolverStatus.error" in unparse(last), "R-C16-2", "exhausting maxiter returns SolverStatus.error", loc(sv, last))
    st = repo.cls(SOLV, "SolverStatus")
    vals = {n.targets[0].id: const(n.value) for n in st.body if isinstance(n, ast.Assign)}
    chk.expect(vals.get("error") == 0 and vals.get("converged") == 1, "R-C16-2", "SolverStatus.error == 0 (the value run_sim tests)", loc(SOLV, st), found=vals)
    sh = repo.func(CORE, "_solver_helper")
    chk.fn(sh)
    gh = CFG(sh)
    sols = gh.assigning("sol")
    w = gh.can_reach_avoiding(gh.entry, [gh.exit], sols, drop_back=False)
    chk.expect(w is None, "R-C16-2", "_solver_helper assigns a status on every returning path", loc(sh), found=gh.path_text(w) if w else None)
    for n in sols:
        v = gh.node_ast(n).value
        okv = (isinstance(v, ast.Tuple) and unparse(v.elts[0]) in ("SolverStatus.converged", "SolverStatus.error")) or (isinstance(v, ast.Call) and last_attr(v) == "solve")
        chk.expect(okv, "R-C16-2", "_solver_helper status at line %d is a SolverStatus or the Newton solver's triple" % gh.g.nodes[n]["line"], loc(sh, gh.node_ast(n)), found=unparse(v)[:60])
    for h in [n for n in walk(sh) if isinstance(n, ast.ExceptHandler)]:
        asg = [s for s in h.body if isinstance(s, ast.Assign) and dotted(s.targets[0]) == "sol"]
        chk.expect(bool(asg) and "SolverStatus.error" in unparse(asg[0].value), "R-C16-2", "an exception inside a scipy solver is reported as SolverStatus.error", loc(sh, h))
    ier = [n for n in walk(sh) if isinstance(n, ast.If) and "ier" in unparse(n.test)]
    for n in ier:
        tb = "error" if "!=" in unparse(n.test) else "converged"
        chk.expect(("SolverStatus." + tb) in unparse(n.body[0]), "R-C16-2", "fsolve's ier != 1 is mapped to SolverStatus.error", loc(sh, n))
    chk.floor("R-C16-2", 8 + 4 + 4 + 3)

    # ---------------------------------------------------------------- R-C16-4 families
    NODE_KEYS = {"head", "demand", "pressure", "leak_demand"}
    LINK_KEYS = {"flowrate", "velocity", "status", "setting"}
    init = repo.func(HYD, "initialize_results_dict")
    keys = {"node_res": {}, "link_res": {}}
    for s in walk(init):
        if isinstance(s, ast.Assign) and isinstance(s.targets[0], ast.Subscript):
            d = dotted(s.targets[0].value)
            k = const(s.targets[0].slice)
            if d in keys and isinstance(k, str):
                keys[d][k] = "wn.nodes()" if "wn.nodes()" in unparse(s.value) else ("wn.links()" if "wn.links()" in unparse(s.value) else unparse(s.value))
    chk.expect(set(keys["node_res"]) == NODE_KEYS and set(keys["node_res"].values()) == {"wn.nodes()"}, "R-C16-4", "initialize_results_dict creates the four node tables over all nodes", loc(init), found=keys["node_res"])
    chk.expect(set(keys["link_res"]) == LINK_KEYS and set(keys["link_res"].values()) == {"wn.links()"}, "R-C16-4", "initialize_results_dict creates the four link tables over all links", loc(init), found=keys["link_res"])
    svf = repo.func(HYD, "save_results")
    chk.fn(svf)
    ex = SymExec()
    fam_n = {"wn.junctions()", "wn.tanks()", "wn.reservoirs()"}
    fam_l = {"wn.pipes()", "wn.head_pumps()", "wn.power_pumps()", "wn.valves()"}
    seen = {}
    for o in ex.run(svf):
        cnt = {}
        for e in o.events:
            if e[0] == "call" and ".append(" in e[1]:
                m = re.match(r"^(node_res|link_res)\['(\w+)'\]\[name\]\.append\(", e[1])
                if m and len(e) > 4 and e[4]:
                    cnt[(e[4][-1], m.group(1), m.group(2))] = cnt.get((e[4][-1], m.group(1), m.group(2)), 0) + 1
        for k, v in cnt.items():
            seen.setdefault(k, set()).add(v)
        for fam, res, ks in [(f, "node_res", NODE_KEYS) for f in fam_n] + [(f, "link_res", LINK_KEYS) for f in fam_l]:
            for k in ks:
                if (fam, res, k) not in cnt:
                    seen.setdefault((fam, res, k), set()).add(0)
    for fam, res, ks in [(f, "node_res", NODE_KEYS) for f in sorted(fam_n)] + [(f, "link_res", LINK_KEYS) for f in sorted(fam_l)]:
        for k in sorted(ks):
            chk.expect(seen.get((fam, res, k)) == {1}, "R-C16-4", "save_results appends exactly once to %s['%s'] for every element of %s on every path" % (res, k, fam), loc(svf),
                       "every element must get one value per table per saved time (one column per element, equal lengths)", expected="{1}", found=sorted(seen.get((fam, res, k), {0})))
    extra = {k[0] for k in seen} - fam_n - fam_l
    chk.expect(not extra, "R-C16-4", "save_results appends only inside the seven element-family loops", loc(svf), found=sorted(extra))
    gr = repo.func(HYD, "get_results")
    chk.fn(gr)
    src = unparse(gr)
    nn = [s for s in walk(gr) if isinstance(s, ast.Assign) and dotted(s.targets[0]) == "node_names"]
    ln = [s for s in walk(gr) if isinstance(s, ast.Assign) and dotted(s.targets[0]) == "link_names"]
    chk.expect(bool(nn) and set(re.findall(r"wn\.(\w+)_name_list", unparse(nn[0].value))) == {"junction", "tank", "reservoir"}, "R-C16-4", "get_results orders node columns as junctions + tanks + reservoirs (all node families)", loc(gr))
    chk.expect(bool(ln) and set(re.findall(r"wn\.(\w+)_name_list", unparse(ln[0].value))) == {"pipe", "head_pump", "power_pump", "valve"}, "R-C16-4", "get_results orders link columns as pipes + head pumps + power pumps + valves (the saved families)", loc(gr))
    for res, names in (("node_res", "node_names"), ("link_res", "link_names")):
        dfs = [c for c in calls(gr) if call_name(c) == "pd.DataFrame" and res in unparse(c)]
        okdf = bool(dfs) and all(("for name in %s" % names) in unparse(c) and any(k.arg == "columns" and unparse(k.value) == names for k in c.keywords) and
                                 any(k.arg == "index" and unparse(k.value) == "results.time" for k in c.keywords) for c in dfs)
        chk.expect(okdf, "R-C16-4", "get_results builds %s tables with data and column labels from the same name list, indexed by results.time" % res, loc(gr))
    chk.floor("R-C16-4", 2 + 28 + 1 + 4)

    # ---------------------------------------------------------------- R-C16-6 a step that was solved is never lost to a crash in the bookkeeping
    # (a) the solver helper may return None as iteration count (scipy solvers): run_sim must not hand it to a format spec
    sh = repo.func(CORE, "_solver_helper")
    rsf = repo.func(CORE, "WNTRSimulator.run_sim")
    chk.fn(sh, rsf)
    none_count = False
    for a in walk(sh):
        if isinstance(a, ast.Assign) and isinstance(a.value, ast.Tuple) and len(a.value.elts) == 3 and const(a.value.elts[2], 1) is None:
            none_count = True
        if isinstance(a, ast.Return) and isinstance(a.value, ast.Tuple) and len(a.value.elts) == 3 and const(a.value.elts[2], 1) is None:
            none_count = True
    unpack = [a for a in walk(rsf) if isinstance(a, ast.Assign) and isinstance(a.targets[0], ast.Tuple) and len(a.targets[0].elts) == 3 and "_solver_helper" in unparse(a.value)]
    if not unpack:
        raise AnchorError("run_sim: unpacking of _solver_helper's triple not found")
    cnt_name = unparse(unpack[0].targets[0].elts[2])
    import re as _re
    for c in calls(rsf):
        if isinstance(c.func, ast.Attribute) and c.func.attr == "format" and isinstance(c.func.value, ast.Constant) and isinstance(c.func.value.value, str):
            for i, a in enumerate(c.args):
                if any(isinstance(x, ast.Name) and x.id == cnt_name for x in ast.walk(a)):
                    bare = isinstance(a, ast.Name)
                    spec = _re.search(r"\{%d:([^}]+)\}" % i, c.func.value.value)
                    chk.expect(not (none_count and spec and bare), "R-C16-6", "run_sim does not apply a format spec to the iteration count, which is None for scipy solvers", loc(rsf, c),
                               "_solver_helper returns (status, message, None) for fsolve / newton_krylov / ...; '{%d:%s}'.format(None) raises TypeError, so a step rescued by a scipy "
                               "(backup) solver crashes the run instead of being reported" % (i, spec.group(1) if spec else ""), expected="str(%s)" % cnt_name, found=norm(c))
    # (b) the report timestep is classified by one predicate in the set-up and in the loop
    so = repo.func(CORE, "WNTRSimulator._setup_sim_options")
    chk.fn(so)

    def classify(fn):
        out = []
        for n in walk(fn):
            if isinstance(n, ast.If) and "_report_timestep" in unparse(n.test):
                for c in ast.walk(n.test):
                    if isinstance(c, ast.Call) and unparse(c.func) == "isinstance" and "_report_timestep" in unparse(c.args[0]):
                        types = sorted(unparse(e) for e in (c.args[1].elts if isinstance(c.args[1], ast.Tuple) else [c.args[1]]))
                        out.append(tuple(types))
        return out
    cs, cl = classify(so), classify(rsf)
    if not cs or not cl:
        raise ExtractError("classification of report_timestep not found (setup %s, loop %s)" % (cs, cl))
    chk.expect(set(cs) == set(cl), "R-C16-6", "report_timestep is classified (number vs 'ALL') by the same type test in _setup_sim_options and in the simulation loop", loc(rsf),
               "a value the set-up accepts as a number (e.g. numpy.int64) but the loop does not recognise falls into the string branch and raises AttributeError after the first step",
               expected=sorted(set(cs)), found=sorted(set(cl)))
    # (c) NewtonSolver.solve: a loop variable used after its loop is bound even when the loop does not run (MAXITER = 0)
    nsf = repo.func(SOLV, "NewtonSolver.solve")
    chk.fn(nsf)
    for lp in [n for n in nsf.body if isinstance(n, ast.For) and isinstance(n.target, ast.Name)]:
        v = lp.target.id
        end = max(x.lineno for x in ast.walk(lp) if hasattr(x, "lineno"))
        later = [x for x in walk(nsf) if isinstance(x, ast.Name) and x.id == v and isinstance(x.ctx, ast.Load) and x.lineno > end]
        if not later:
            continue
        pre = [a for a in nsf.body if isinstance(a, ast.Assign) and a.lineno < lp.lineno and any(isinstance(t, ast.Name) and t.id == v for t in a.targets)]
        chk.expect(bool(pre), "R-C16-6", "NewtonSolver.solve: `%s` is defined before its loop (it is used after the loop, which may not run at all)" % v, loc(nsf, later[0]),
                   "with MAXITER = 0 the loop body never runs and the fall-through return raises UnboundLocalError instead of reporting the failure", found="used at line %d" % later[0].lineno)
    chk.floor("R-C16-6", 3)


WITNESSES = [
    dict(name="none-iteration-count-formatted", file=CORE, old="trial, str(iter_count), num_isolated_junctions", new="trial, iter_count, num_isolated_junctions", rule="R-C16-6"),
    dict(name="report-timestep-classified-twice", file=CORE, old="            if not isinstance(self._report_timestep, str):  # same test", new="            if isinstance(self._report_timestep, (float, int)):  # same test", rule="R-C16-6"),
    dict(name="loop-variable-unbound-for-zero-iterations", file=SOLV, old="        outer_iter = 0  # reported when the loop does not run at all (MAXITER = 0)\n", new="", rule="R-C16-6"),
    dict(name="elif-after-backup", file=CORE, old="            if solver_status == 0:\n                if self._convergence_error:", new="            elif solver_status == 0:\n                if self._convergence_error:", rule="R-C16-1"),
    dict(name="break-removed", file=CORE, old="                diagnostics.run(last_step='solve', next_step='break')\n                break\n", new="                diagnostics.run(last_step='solve', next_step='break')\n", rule="R-C16-1"),
    dict(name="error-code-not-set", file=CORE, old="                results.error_code = wntr.sim.results.ResultsStatus.error\n                diagnostics.run(last_step='solve', next_step='break')", new="                diagnostics.run(last_step='solve', next_step='break')", rule="R-C16-1"),
    dict(name="trial-limit-no-error-code", file=CORE, old="                    results.error_code = wntr.sim.results.ResultsStatus.error\n                    warnings.warn('Exceeded", new="                    warnings.warn('Exceeded", rule="R-C16-1"),
    dict(name="append-only-when-nonempty", file=CORE, old="                    raise RuntimeError('Simulation already solved this timestep')\n                results.time.append(int(self._wn.sim_time))\n            wntr.sim.hydraulics.update_network_previous_values",
         new="                    raise RuntimeError('Simulation already solved this timestep')\n                if len(results.time) > 0:\n                    results.time.append(int(self._wn.sim_time))\n            wntr.sim.hydraulics.update_network_previous_values", rule="R-C16-3"),
    dict(name="linesearch-converged", file=SOLV, old="                    return (\n                        SolverStatus.error,\n                        \"Line search failed at iteration \"", new="                    return (\n                        SolverStatus.converged,\n                        \"Line search failed at iteration \"", rule="R-C16-2"),
    dict(name="maxiter-converged", file=SOLV, old="        return (\n            SolverStatus.error,\n            \"Reached maximum number of iterations: \"", new="        return (\n            SolverStatus.converged,\n            \"Reached maximum number of iterations: \"", rule="R-C16-2"),
    dict(name="tank-leak-not-saved", file=HYD, old="        node_res['pressure'][name].append(node.head - node.elevation)\n        node_res['leak_demand'][name].append(node.leak_demand)\n\n    for name, node in wn.reservoirs():",
         new="        node_res['pressure'][name].append(node.head - node.elevation)\n        if node.leak_status:\n            node_res['leak_demand'][name].append(node.leak_demand)\n\n    for name, node in wn.reservoirs():", rule="R-C16-4"),
    dict(name="columns-from-other-list", file=HYD, old="index=results.time,\n                                     columns=node_names)", new="index=results.time,\n                                     columns=wn.node_name_list)", rule="R-C16-4"),
    dict(name="no-advance-on-resolve-false", file=CORE, old="            self._wn.sim_time += self._hydraulic_timestep\n", new="            if not resolve or True:\n                pass\n            self._wn.sim_time += self._hydraulic_timestep\n", silent=True),
]
