"""C08 -- leaks discharge Cd*A*sqrt(2 g p) only while active and only at positive pressure."""
import ast
import itertools
import re

import sympy as sp

from ..src import walk, calls, call_name, dotted, const, loc, unparse, norm, AnchorError, ExtractError, attr_stores
from ..symx import SymExec, Opaque, CondExpr, Constraint, Ineq, State, is_zero
from .. import builders as B
from ..builders import canon, canon_symbol as cs
from .c07 import spline_hook

CON, PAR = B.CONSTRAINT, B.PARAM
VAR = "wntr/sim/models/var.py"
ELEM = "wntr/network/elements.py"
CTRL = "wntr/network/controls.py"
HYD = "wntr/sim/hydraulics.py"
BASE = "wntr/network/base.py"
MODEL = "wntr/network/model.py"

EXPLANATION = (
    "Formula extraction of leak_constraint (three-branch residual: s*p below zero pressure, smoothing cubic on [0, delta], Cd*A*sqrt(2*9.81*p) "
    "above) and of leak_poly_coeffs_param (spline data must equal value/derivative of the neighbours at 0 and delta = 1e-4 m); index-domain rule: "
    "a builder whose index set contains tanks may subscript with the node name only model dictionaries whose own builders cover tanks; "
    "leak_status guards and update triggers; add_leak creates a start control (sim-time eq start_time -> leak_status True) and an end control "
    "(eq end_time -> False) as pre-solve, non-repeating SimTime controls in both sibling implementations; remove_leak undoes everything "
    "add_leak (and its controls) switched on, including the run-time switch the simulator reads; a refused add_leak (duplicate control name) has "
    "changed neither the node nor the registry at any point at which it can still be refused (path-ordered tests, stores and registry calls); "
    "remove_leak, interpreted on a mock model, discards every control that only switches this node's leak whatever name it is registered under "
    "and keeps every other control.")
RULE_TEXT = "one instance = one branch formula / breakpoint datum / (builder, dictionary) index-domain pair / control-construction fact"
ASSUMPTIONS = ["Cd, A > 0", "timing of the start/end controls is the time-control mechanism of C04"]

# name-list atoms and what they cover
COVERS = {"node_name_list": {"junction", "tank", "reservoir"}, "junction_name_list": {"junction"}, "tank_name_list": {"tank"}, "reservoir_name_list": {"reservoir"},
          "link_name_list": {"pipe", "head_pump", "power_pump", "prv", "psv", "pbv", "tcv", "fcv", "gpv"}, "pipe_name_list": {"pipe"},
          "pump_name_list": {"head_pump", "power_pump"}, "head_pump_name_list": {"head_pump"}, "power_pump_name_list": {"power_pump"},
          "valve_name_list": {"prv", "psv", "pbv", "tcv", "fcv", "gpv"}, "prv_name_list": {"prv"}, "psv_name_list": {"psv"}, "pbv_name_list": {"pbv"},
          "tcv_name_list": {"tcv"}, "fcv_name_list": {"fcv"}, "gpv_name_list": {"gpv"},
          "junctions()": {"junction"}, "tanks()": {"tank"}, "reservoirs()": {"reservoir"}, "links()": {"pipe", "head_pump", "power_pump", "prv", "psv", "pbv", "tcv", "fcv", "gpv"},
          "nodes()": {"junction", "tank", "reservoir"}, "valves()": {"prv", "psv", "pbv", "tcv", "fcv", "gpv"}, "pipes()": {"pipe"}}


def kinds_of(expr_text):
    out = set()
    for atom in re.findall(r"wn\.(\w+(?:\(\))?)", expr_text):
        if atom in COVERS:
            out |= COVERS[atom]
        else:
            return None
    return out


def builder_functions(repo):
    """[(rel, qual, fn)] for var functions, param functions/classes, constraint classes."""
    out = []
    for rel in (VAR, PAR, CON):
        t = repo.tree(rel)
        for n in t.body:
            if isinstance(n, ast.FunctionDef) and [a.arg for a in n.args.args][:2] == ["m", "wn"]:
                n._rel, n._qual = rel, n.name
                out.append((rel, n.name, n))
            if isinstance(n, ast.ClassDef):
                for mth in n.body:
                    if isinstance(mth, ast.FunctionDef) and mth.name == "build":
                        mth._rel, mth._qual = rel, n.name + ".build"
                        out.append((rel, n.name + ".build", mth))
    return out


def _is_none_test(test, name):
    """True for `<name> is None` (== None), False for `<name> is not None` (!= None), flipped under `not`; None for any other test"""
    if isinstance(test, ast.UnaryOp) and isinstance(test.op, ast.Not):
        r = _is_none_test(test.operand, name)
        return None if r is None else not r
    if isinstance(test, ast.Compare) and len(test.ops) == 1 and isinstance(test.left, ast.Name) and test.left.id == name \
            and isinstance(test.comparators[0], ast.Constant) and test.comparators[0].value is None:
        if isinstance(test.ops[0], (ast.Is, ast.Eq)):
            return True
        if isinstance(test.ops[0], (ast.IsNot, ast.NotEq)):
            return False
    return None


def index_domains(repo):
    """per builder: (defined dicts -> kinds), (default index kinds), [(dict, lineno) subscripted by the index variable]."""
    defs = {}
    uses = []
    for rel, qual, fn in builder_functions(repo):
        # default index set: what a name holds when the builder is called without index_over -- `if index_over is None: x = <expr>`
        # (or the else branch of `is not None`) and `x = <expr> if index_over is None else index_over` say the same
        defaults = {}
        for n in walk(fn):
            if isinstance(n, ast.If):
                pol = _is_none_test(n.test, "index_over")
                if pol is not None:
                    for s in (n.body if pol else n.orelse):
                        if isinstance(s, ast.Assign) and len(s.targets) == 1 and isinstance(s.targets[0], ast.Name):
                            defaults[s.targets[0].id] = s.value
            if isinstance(n, ast.Assign) and len(n.targets) == 1 and isinstance(n.targets[0], ast.Name) and isinstance(n.value, ast.IfExp):
                pol = _is_none_test(n.value.test, "index_over")
                if pol is not None:
                    defaults[n.targets[0].id] = n.value.body if pol else n.value.orelse
        loops = [n for n in walk(fn) if isinstance(n, ast.For)]
        for lp in loops:
            if isinstance(lp.iter, ast.Name) and lp.iter.id in defaults:
                kinds = kinds_of(unparse(defaults[lp.iter.id]))
                var = lp.target.id if isinstance(lp.target, ast.Name) else None
            elif isinstance(lp.iter, ast.Name):
                kinds = var = None
            else:
                kinds = kinds_of(unparse(lp.iter))
                var = lp.target.elts[0].id if isinstance(lp.target, ast.Tuple) and isinstance(lp.target.elts[0], ast.Name) else (lp.target.id if isinstance(lp.target, ast.Name) else None)
            if kinds is None or var is None:
                continue
            for n in walk(lp):
                if isinstance(n, ast.Subscript) and isinstance(n.value, ast.Attribute) and dotted(n.value.value) == "m" and isinstance(n.slice, ast.Name) and n.slice.id == var:
                    dname = n.value.attr
                    par = getattr(n, "_parent", None)
                    is_def = isinstance(par, ast.Assign) and n in par.targets and isinstance(n.ctx, ast.Store)
                    if is_def:
                        defs.setdefault(dname, set()).update(kinds)
                    else:
                        # membership tests `x in m.d` are not subscripts; .value stores count as uses (the entry must exist)
                        uses.append((rel, qual, fn, dname, kinds, n))
    return defs, uses


def _single_def(name, fn):
    """the value of the only assignment to a local name in fn (None when it is bound more than once, or by a loop / with / argument)"""
    vals = []
    for x in walk(fn):
        if isinstance(x, ast.Name) and x.id == name and isinstance(x.ctx, (ast.Store, ast.Del)):
            par = getattr(x, "_parent", None)
            if isinstance(par, ast.Assign) and len(par.targets) == 1 and par.targets[0] is x:
                vals.append(par.value)
            else:
                return None
    if name in [a.arg for a in fn.args.args + fn.args.kwonlyargs]:
        return None
    return vals[0] if len(vals) == 1 else None


def junction_test(test, fn, depth=0):
    """True if the test holds exactly for junctions, False if it holds exactly for non-junctions, None if it is about something else.
    `not`, comparison with a boolean literal and a temporary holding the test are looked through."""
    if depth > 4:
        return None
    if isinstance(test, ast.UnaryOp) and isinstance(test.op, ast.Not):
        r = junction_test(test.operand, fn, depth + 1)
        return None if r is None else not r
    if isinstance(test, ast.Name):
        d = _single_def(test.id, fn)
        return junction_test(d, fn, depth + 1) if d is not None else None
    if isinstance(test, ast.Compare) and len(test.ops) == 1 and isinstance(test.ops[0], (ast.Eq, ast.Is, ast.NotEq, ast.IsNot)):
        x, y = test.left, test.comparators[0]
        if isinstance(x, ast.Constant):
            x, y = y, x
        if isinstance(y, ast.Constant) and isinstance(y.value, bool):
            r = junction_test(x, fn, depth + 1)
            return None if r is None else (r if (isinstance(test.ops[0], (ast.Eq, ast.Is)) == y.value) else not r)
        if isinstance(y, ast.Constant) and y.value == "Junction" and isinstance(x, ast.Attribute) and x.attr == "node_type":
            return isinstance(test.ops[0], (ast.Eq, ast.Is))
        return None
    if isinstance(test, ast.Call) and unparse(test.func) == "isinstance" and len(test.args) == 2 and not test.keywords:
        cls_ = test.args[1]
        if isinstance(cls_, (ast.Name, ast.Attribute)) and unparse(cls_).split(".")[-1] == "Junction":
            return True
    return None


def junction_guarded(n, fn):
    """'junction' if the subscript is evaluated only when an `isinstance(<node>, ...Junction)` test holds, 'other' if only when it fails
    (branch of an if statement or operand of a conditional expression, the test possibly negated or held in a temporary)."""
    q = n
    while q is not None and q is not fn:
        p = getattr(q, "_parent", None)
        if isinstance(p, (ast.If, ast.IfExp)) and q is not p.test:
            pol = junction_test(p.test, fn)
            if pol is not None:
                in_body = (q in p.body) if isinstance(p, ast.If) else (q is p.body)
                return ("junction" if pol else "other") if in_body else ("other" if pol else "junction")
        q = p
    return None


def prop_models(conds, limit=14):
    """propositional reading of path conditions {test text: truth value}: `not`, `and`, `or`, comparisons with a boolean literal
    (`A == False`, `A is True`, ...) and `X is not None` / `X is None` are interpreted, every other test is an uninterpreted atom (its
    text).  -> all truth assignments of the atoms under which every condition has its recorded value ([] = the path is infeasible)."""
    leaves = []

    def build(node):
        if isinstance(node, ast.UnaryOp) and isinstance(node.op, ast.Not):
            f = build(node.operand)
            return lambda a: not f(a)
        if isinstance(node, ast.BoolOp):
            fs = [build(v) for v in node.values]
            if isinstance(node.op, ast.And):
                return lambda a: all(f(a) for f in fs)
            return lambda a: any(f(a) for f in fs)
        if isinstance(node, ast.Compare) and len(node.ops) == 1 and isinstance(node.ops[0], (ast.Eq, ast.Is, ast.NotEq, ast.IsNot)):
            x, y = node.left, node.comparators[0]
            if isinstance(x, ast.Constant) and isinstance(x.value, bool):
                x, y = y, x
            if isinstance(y, ast.Constant) and isinstance(y.value, bool):
                f = build(x)
                pos = isinstance(node.ops[0], (ast.Eq, ast.Is)) == y.value
                return (lambda a: f(a)) if pos else (lambda a: not f(a))
            if isinstance(y, ast.Constant) and y.value is None:
                # one atom `X is None` for the four spellings
                f = build("%s is None" % unparse(x))
                return (lambda a: f(a)) if isinstance(node.ops[0], (ast.Eq, ast.Is)) else (lambda a: not f(a))
        if isinstance(node, ast.Compare) and len(node.ops) == 1 and isinstance(node.ops[0], ast.NotIn):
            f = build("%s in %s" % (unparse(node.left), unparse(node.comparators[0])))      # one atom `x in c` for both spellings
            return lambda a: not f(a)
        if isinstance(node, ast.Constant) and isinstance(node.value, bool):
            return lambda a, v=node.value: v
        txt = node if isinstance(node, str) else unparse(node)
        if txt not in leaves:
            leaves.append(txt)
        return lambda a: a[txt]
    fs = []
    for k, v in conds.items():
        try:
            node = ast.parse(k, mode="eval").body
        except SyntaxError:
            node = k
        fs.append((build(node), bool(v)))
    if len(leaves) > limit:
        raise ExtractError("too many independent tests on one path (%d)" % len(leaves))
    out = []
    for bits in itertools.product((True, False), repeat=len(leaves)):
        a = dict(zip(leaves, bits))
        if all(bool(f(a)) == v for f, v in fs):
            out.append(a)
    return out


def prop_forced(atom, models):
    """truth value the atom has in every model: True / False / None (free, or not tested at all)"""
    vals = {m[atom] for m in models if atom in m}
    return vals.pop() if len(vals) == 1 else None


class UnrollExec(SymExec):
    """SymExec that also unrolls a `for` whose number of iterations is known although the elements are symbolic: a literal tuple / list, a
    local bound to one, or `zip(...)` of such.  The merged loop `for t, v in ((a, True), (b, False)): ...` then produces the same events
    as the statements written out twice."""

    def _known_sequence(self, n, st):
        """-> list of thunks (one per element) or None"""
        if isinstance(n, (ast.Tuple, ast.List)):
            if any(isinstance(x, ast.Starred) for x in n.elts):
                return None
            return [(lambda s0, x=x: self.ev(x, s0)) for x in n.elts]
        if isinstance(n, ast.Name) and isinstance(st.env.get(n.id), (list, tuple)):
            return [(lambda s0, v=v: v) for v in st.env[n.id]]
        if isinstance(n, ast.Call) and isinstance(n.func, ast.Name) and n.func.id == "zip" and n.args and not n.keywords and "zip" not in st.env:
            cols = [self._known_sequence(x, st) for x in n.args]
            if any(c is None for c in cols):
                return None
            return [(lambda s0, row=row: tuple(f(s0) for f in row)) for row in zip(*cols)]
        return None

    def e_ListComp(self, n, st):
        """a comprehension with one generator over a sequence of known length (string / tuple / list literal or local) is the list of its
        element expressions: `[getattr(m, 'c_' + k)[i] for k in 'abcd']` reads the same four entries as four look-ups written out"""
        if len(n.generators) != 1 or n.generators[0].is_async:
            return SymExec.e_ListComp(self, n, st)
        g = n.generators[0]
        seq = self._known_sequence(g.iter, st)
        if seq is None and isinstance(g.iter, ast.Constant) and isinstance(g.iter.value, str):
            seq = [(lambda s0, ch=ch: ch) for ch in g.iter.value]
        if seq is None and isinstance(g.iter, ast.Name) and isinstance(st.env.get(g.iter.id), str):
            seq = [(lambda s0, ch=ch: ch) for ch in st.env[g.iter.id]]
        if seq is None or len(seq) > 12:
            return SymExec.e_ListComp(self, n, st)
        out = []
        for thunk in seq:
            sub = st.fork()
            n_ev = len(sub.events)
            self.assign(g.target, thunk(sub), sub, n)
            keep = True
            for c in g.ifs:
                t = self.decide(c, sub)
                if t is None:
                    return SymExec.e_ListComp(self, n, st)
                keep = keep and t
            if keep:
                out.append(self.ev(n.elt, sub))
            st.events.extend(sub.events[n_ev:])
        return out

    e_GeneratorExp = e_ListComp

    def branch(self, test, body, orelse, st):
        """SymExec.branch, and a ('test', text, outcome) event at the place of the path where an undecided test is taken: rules that ask
        what was already known when a call was made need the order of tests and effects"""
        t = self.decide(test, st)
        if t is None:
            txt, neg = self.cond_text(test, st)
            known = st.cond(txt)
            if known is None and self.test_hook:
                known = self.test_hook(txt, self.canon_test(test)[0], st)
            if known is not None:
                t = known != neg
        if t is True:
            return self.block(body, [st])
        if t is False:
            return self.block(orelse, [st])
        a, b = st, st.fork()
        for x, val in ((a, not neg), (b, neg)):
            x.conds.append((txt, val))
            x.events.append(("test", txt, val, getattr(test, "lineno", 0)))
        return self.block(body, [a]) + self.block(orelse, [b])

    def loop(self, s, st):
        seq = self._known_sequence(s.iter, st)
        if seq is None or len(seq) > 12:
            return SymExec.loop(self, s, st)
        states = [st]
        for thunk in seq:
            nxt = []
            for s0 in states:
                if s0.done is True:
                    nxt.append(s0)
                    continue
                s0.done = False
                self.assign(s.target, thunk(s0), s0, s)
                nxt.extend(self.block(s.body, [s0]))
            states = nxt
        for s0 in states:
            if s0.done == "loopexit":
                s0.done = False
        return states


def run_builder_unrolled(repo, rel, qual, test_hook=B.std_test_hook, call_hook=None):
    """B.run_builder with loops of known length unrolled"""
    fn = repo.func(rel, qual)
    ex = UnrollExec(inline=B.inline_table(repo), test_hook=test_hook, call_hook=call_hook)
    outs = ex.run(fn)
    if not outs:
        raise ExtractError("%s: no paths" % qual)
    return fn, [B.Path(o) for o in outs], ex


def str_method_hook(name, n, args, kwargs, st, ex, recv):
    """case / whitespace methods of a string that is known literally"""
    if isinstance(recv, str) and isinstance(n.func, ast.Attribute) and n.func.attr in ("upper", "lower", "strip", "casefold") and not args and not kwargs:
        return getattr(recv, n.func.attr)()
    return NotImplemented


def call_events(o, last):
    """call events of a path whose callee's last name component is `last`"""
    return [e for e in o.events if e[0] == "call" and e[2][0] and e[2][0].split(".")[-1] == last]


def event_of(o, v):
    """the call event that produced the value v (SymExec names the result of an uninterpreted call by the call's text)"""
    if not isinstance(v, Opaque):
        return None
    for e in reversed(o.events):
        if e[0] == "call" and e[1] == v.text:
            return e
    return None


def bind_call(fn, e):
    """arguments of a recorded call bound to the parameter names of the callee's definition (self / cls dropped; literal defaults filled in):
    positional and keyword spellings of the same call give the same dictionary"""
    if e is None:
        return {}
    _, args, kwargs = e[2]
    params = [a.arg for a in fn.args.args]
    if params and params[0] in ("self", "cls"):
        params = params[1:]
    out = {}
    dfl = fn.args.defaults
    for p_, d in zip([a.arg for a in fn.args.args][len(fn.args.args) - len(dfl):], dfl):
        out[p_] = d.value if isinstance(d, ast.Constant) else Opaque(unparse(d))
    for p_, a in zip(params, args):
        out[p_] = a
    out.update(kwargs)
    return out


def both_entry_hook(txt, node, st):
    """like the standard builder hook, but `<key> in m.<dict>` is left undecided: the branch that creates the entry and the branch that
    updates the existing entry are both analysed"""
    if re.match(r"^\w+ in m\.\w+$", txt):
        return None
    return B.std_test_hook(txt, node, st)


def entry_values(path, name_re):
    """values a builder path writes to the entries of the model dictionaries m.<name_re>: `m.d[key] = aml.Param(v)` (created) and
    `m.d[key].value = v` (updated).  -> [(first group of name_re, key text, v, 'created' | 'updated')]"""
    out = []
    for e in path.st.events:
        if e[0] != "store":
            continue
        mk = re.match(r"^m\.%s\[(.+?)\](\.value)?$" % name_re, e[1])
        if not mk:
            continue
        v = e[2]
        if mk.group(3):
            out.append((mk.group(1), mk.group(2), v, "updated"))
            continue
        ce = event_of(path.st, v)
        if ce is not None and ce[2][0].split(".")[-1] == "Param":
            args, kwargs = ce[2][1], ce[2][2]
            v = args[0] if args else kwargs.get("value", kwargs.get("val"))
        out.append((mk.group(1), mk.group(2), v, "created"))
    return out


def value_cases(v, conds, raw=False):
    """case analysis of a value computed by SymExec: an undecided conditional expression `a if T else b` is a Piecewise over the boolean
    atom '[T]'.  Every truth assignment of the atoms occurring in the value that the path conditions do not contradict is one case --
    exactly the paths the equivalent if/else statement would have produced.  -> [(conds extended by the atoms, leaf value)]; the leaf is
    the source text of a symbol / a python number / the text of a compound expression, or with raw=True the sympy expression itself."""
    if isinstance(v, Opaque):
        return [(conds, v.text)]
    if not isinstance(v, sp.Basic):
        return [(conds, v)]
    atoms = sorted((a for a in v.free_symbols if a.name.startswith("[") and a.name.endswith("]")), key=lambda a: a.name)
    if len(atoms) > 6:
        raise ExtractError("value depends on %d conditional-expression tests" % len(atoms))
    out = []
    for bits in itertools.product((True, False), repeat=len(atoms)):
        c2 = dict(conds)
        feasible = True
        for a, b in zip(atoms, bits):
            txt = a.name[1:-1]
            if c2.get(txt, b) != b:
                feasible = False
                break
            c2[txt] = b
        if not feasible:
            continue
        leaf = v.subs({a: (1 if b else 0) for a, b in zip(atoms, bits)})
        if raw:
            pass
        elif isinstance(leaf, sp.Symbol):
            leaf = leaf.name
        elif leaf.is_Integer or leaf == 0:
            leaf = int(leaf)
        else:
            leaf = str(leaf)
        out.append((c2, leaf))
    return out


def leak_demand_cases(repo):
    """path- and case-sensitive summary of what store_results_in_network finally stores to <node>._leak_demand inside the junction and
    tank loops.  -> (fn, [(kind, key variable, node variable, conds, value or '<not stored>')]).  The loop variables are read from the loop
    header; branch tests and conditional expressions both become cases (conds: test text -> bool)."""
    fn = repo.func(HYD, "store_results_in_network")
    ex = SymExec()
    rows = []
    for o in ex.run(fn):
        if o.raised:
            continue
        conds = dict(o.conds)
        heads = {}
        for e in o.events:
            if e[0] == "loop" and e[2] in ("wn.junctions()", "wn.tanks()"):
                try:
                    tg = ast.parse(e[1], mode="eval").body
                except SyntaxError:
                    tg = None
                if not (isinstance(tg, ast.Tuple) and len(tg.elts) == 2 and all(isinstance(x, ast.Name) for x in tg.elts)):
                    raise ExtractError("store_results_in_network: loop over %s does not unpack (name, node)" % e[2])
                hv = (tg.elts[0].id, tg.elts[1].id)
                if heads.get(e[2], hv) != hv:
                    raise ExtractError("store_results_in_network: loops over %s with different variables" % e[2])
                heads[e[2]] = hv
        for ctx, (kv, nv) in heads.items():
            last = "<not stored>"
            for e in o.events:
                if e[0] == "store" and len(e) > 4 and e[4] and e[4][-1] == ctx and e[1] == nv + "._leak_demand":
                    last = e[2]
            for c2, leaf in value_cases(last, conds):
                rows.append(("junction" if ctx == "wn.junctions()" else "tank", kv, nv, c2, leaf))
    return fn, rows


def class_literals(repo, rel, cname):
    """class-level `NAME = <expr>` bindings (bound exactly once) of a class: name -> expression AST"""
    out, cnt = {}, {}
    for n in repo.cls(rel, cname).body:
        if isinstance(n, ast.Assign) and len(n.targets) == 1 and isinstance(n.targets[0], ast.Name):
            out[n.targets[0].id] = n.value
            cnt[n.targets[0].id] = cnt.get(n.targets[0].id, 0) + 1
    return {k: v for k, v in out.items() if cnt[k] == 1}


def private_attribute_of(repo, attribute):
    """the values ControlAction.__init__ finally stores to self._private_attribute when it is constructed with the given attribute name, over
    all paths that do not raise: symbolic execution with the parameter bound to the literal, so an if/elif chain, early exits, a conditional
    expression or a (class-level or local) lookup table all evaluate to the same answer.  -> (fn, set of values)"""
    cai = repo.func(CTRL, "ControlAction.__init__")
    lits = class_literals(repo, CTRL, "ControlAction")
    holder = []

    def attr_hook(base, attr, st):
        if isinstance(base, Opaque) and base.text in ("self", "ControlAction", "type(self)", "self.__class__") and attr in lits:
            return holder[0].ev(lits[attr], State())
        return NotImplemented
    ex = SymExec(attr_hook=attr_hook)
    holder.append(ex)
    vals = set()
    for o in ex.run(cai, env={"attribute": attribute}):
        if o.raised:
            continue
        st = [e for e in o.events if e[0] == "store" and e[1] == "self._private_attribute"]
        if not st:
            vals.add("<not stored>")
            continue
        for c2, leaf in value_cases(st[-1][2], dict(o.conds)):
            vals.add(leaf)
    return cai, vals


# ------------------------------------------------------------------ R-C08-8: a refused add_leak changes nothing
_REGISTRY_TEXTS = ("wn.control_name_list", "wn._controls", "wn._controls.keys()")


def _registry_membership_atom(atom, name_text):
    """is the test text `<name> in <the model's control registry>` (the registry possibly wrapped in set()/list()/tuple()/frozenset())?"""
    if not atom.startswith(name_text + " in "):
        return False
    box = atom[len(name_text) + 4:].strip()
    while True:
        mk = re.match(r"^(?:set|list|tuple|frozenset)\((.*)\)$", box)
        if not mk:
            break
        box = mk.group(1).strip()
    return box in _REGISTRY_TEXTS


def refusal_points(o, addf):
    """walk one path of add_leak in execution order.  -> [(kind, what, effects made before, guarded)] for every point at which the call can be
    refused: an explicit raise, and every wn.add_control(name, ..) (the registry raises when the name exists) -- guarded when the tests taken
    BEFORE the call already force `name in <registry>` to be false.  Effects are stores to attributes of the node and registry changes."""
    out, effects, tests = [], [], {}
    for e in o.events:
        if e[0] == "test":
            tests[e[1]] = e[2]
        elif e[0] == "store" and (e[1].startswith("self.") or e[1].startswith("wn.")):
            effects.append("%s = %s" % (e[1], e[2]))
        elif e[0] == "raise":
            out.append(("raise", e[1], list(effects), False))
        elif e[0] == "call" and e[2][0]:
            last = e[2][0].split(".")[-1]
            if last == "add_control" and e[2][0].split(".")[0] == "wn":
                nm = bind_call(addf, e).get("name")
                nm = nm.text if isinstance(nm, Opaque) else repr(nm)
                models = prop_models(tests)
                atoms = sorted({k for m_ in models for k in m_ if _registry_membership_atom(k, nm)})
                guarded = bool(models) and bool(atoms) and all(not m_[k] for m_ in models for k in atoms[:1])
                out.append(("add_control", nm, list(effects), guarded))
                effects.append("control %s registered" % nm)
            elif last in ("_discard_control", "remove_control") and e[2][0].split(".")[0] == "wn":
                effects.append(e[1])
            elif last == "setattr" and e[2][1] and e[2][1][0] == Opaque("self"):
                effects.append(e[1])
    return out


# ------------------------------------------------------------------ R-C08-9: remove_leak on a mock model (concrete evaluation, sa/concrete.py)
class _Mock(object):
    """attribute bag handed to the interpreted code; reading an attribute it lacks is `could not analyse`"""
    _sa_mock = True

    def __init__(self, label, **kw):
        self._label = label
        self.__dict__.update(kw)

    def __repr__(self):
        return "<%s>" % self._label


def _literal_fields(repo, rel, cname):
    """`self.<field> = <literal>` of a class's __init__ (fields a method may read; the constructor itself is not under analysis)"""
    out = {}
    try:
        ini = repo.func(rel, cname + ".__init__")
    except AnchorError:
        return out
    for x in walk(ini):
        if isinstance(x, ast.Assign) and len(x.targets) == 1 and isinstance(x.targets[0], ast.Attribute) and dotted(x.targets[0].value) == "self" \
                and isinstance(x.value, ast.Constant):
            out[x.targets[0].attr] = x.value.value
    return out


def remove_leak_on_mock_model(repo, cname):
    """interpret <cname>.remove_leak(wn) on a model whose control registry holds this node's leak controls under their own names AND under
    names other code gives them (from_dict: 'control N'; convert_controls_to_rules: '<name>_Rule'), next to controls that are not leak
    controls of this node.  -> (error text or None, {label: survived?}, node fields afterwards)"""
    import collections
    from ..concrete import World, stdlib_overrides, Namespace, Instance, ClassRef, ProgramError
    ov, _state = stdlib_overrides()
    ov["six"] = Namespace("six", with_metaclass=lambda meta, *bases: (bases[0] if bases else object), string_types=(str,), integer_types=(int,))
    world = World(repo, ov)

    def inst(rel, cls, **attrs):
        c = world.function(rel, cls)
        if not isinstance(c, ClassRef):
            raise AnchorError("%s is not a class of %s" % (cls, rel))
        i = Instance(c)
        i._attrs.update(attrs)
        return i
    kind = cname.lower()
    registry = collections.OrderedDict()
    wn = inst(MODEL, "WaterNetworkModel", _controls=registry)

    def node(name):
        f = dict(_literal_fields(repo, BASE, "Node"))
        f.update(_literal_fields(repo, ELEM, cname))
        f.update(_name=name, _leak=True, _leak_status=True, _leak_area=0.01, _leak_discharge_coeff=0.75, _controls=registry,
                 _leak_start_control_name="%s%sstart_leak_control" % (kind, name), _leak_end_control_name="%s%send_leak_control" % (kind, name))
        return inst(ELEM, cname, **f)
    me, other, pipe = node("N1"), node("N2"), _Mock("pipe P1", name="P1")

    def act(target, attribute, value):
        return inst(CTRL, "ControlAction", _target_obj=target, _attribute=attribute, _value=value, _private_attribute="_" + attribute)

    def ctl(cls, name, then, orelse=()):
        return inst(CTRL, cls, _then_actions=list(then), _else_actions=list(orelse), _name=name, _condition=_Mock("condition"), _priority=3)
    start, end = me._attrs["_leak_start_control_name"], me._attrs["_leak_end_control_name"]
    fixture = [
        ("start control under its own name", start, ctl("Control", start, [act(me, "leak_status", True)]), False),
        ("end control under its own name", end, ctl("Control", end, [act(me, "leak_status", False)]), False),
        ("start control renamed by from_dict", "control 7", ctl("Control", "control 7", [act(me, "leak_status", True)]), False),
        ("end control renamed by from_dict", "control 8", ctl("Control", "control 8", [act(me, "leak_status", False)]), False),
        ("start control converted to a rule", start + "_Rule", ctl("Rule", start + "_Rule", [act(me, "leak_status", True)]), False),
        ("end control converted to a rule", end + "_Rule", ctl("Rule", end + "_Rule", [act(me, "leak_status", False)]), False),
        ("leak control of another node", "control 9", ctl("Control", "control 9", [act(other, "leak_status", True)]), True),
        ("rule that also closes a pipe", "shutdown", ctl("Rule", "shutdown", [act(me, "leak_status", False), act(pipe, "status", 0)]), True),
        ("control of another attribute of this node", "control 10", ctl("Control", "control 10", [act(me, "initial_quality", 0.0)]), True),
        ("pipe control", "control 11", ctl("Control", "control 11", [act(pipe, "status", 1)]), True),
    ]
    for _, name, c, _keep in fixture:
        registry[name] = c
    err = None
    try:
        world.interp.call(world.interp.getattr_(me, "remove_leak"), [wn], {})
    except ProgramError as e:
        if isinstance(e.exc, (AttributeError, NameError)):
            raise ExtractError("%s.remove_leak needs something the mock model does not provide: %s (line %s)" % (cname, e, e.lineno))
        err = "%s at line %s" % (e, e.lineno)
    survived = {label: (name in registry and registry[name] is c) for label, name, c, _keep in fixture}
    keep = {label: k for label, _, _, k in fixture}
    return err, survived, keep, {k: me._attrs.get(k) for k in ("_leak", "_leak_status")}


def run(repo, chk):
    h, elev = cs("h"), cs("elev")
    P = h - elev
    ELEV_SUB = {cs("elevation"): elev}
    delta, slope = cs("leak_delta"), cs("leak_slope")
    Cd, A = cs("leak_coeff"), cs("leak_area")
    leak = cs("leak_rate")
    g2 = sp.Rational("9.81") * 2

    # ---------------------------------------------------------------- R-C08-1 law
    with chk.part("R-C08-1 law"):
        fn, paths, ex = run_builder_unrolled(repo, CON, "leak_constraint.build")
        chk.fn(fn)
        got_law = False
        for p in paths:
            st = p.stores("m.leak_con[")
            if p.st.raised:
                continue
            models = prop_models(dict(p.conds))
            if not models:
                continue
            # may the leak be active on a connected node on this path?  (propositional reading of the tests: nesting, De Morgan, `== False` agree)
            ls_atoms = sorted({k for m_ in models for k in m_ if re.search(r"\.leak_status$", k)})
            iso_atoms = sorted({k for m_ in models for k in m_ if re.search(r"\._is_isolated$", k)})
            can_leak = [m_ for m_ in models if all(m_[k] for k in ls_atoms) and not any(m_[k] for k in iso_atoms)]
            if not st:
                chk.expect(bool(ls_atoms) and bool(iso_atoms) and not can_leak, "R-C08-1", "no leak row unless the leak is active and the node connected", loc(fn), found=p.label)
                continue
            guard_ok = bool(ls_atoms) and bool(iso_atoms) and len(can_leak) == len(models)
            chk.expect(guard_ok, "R-C08-1", "leak row exists only while leak_status is set and the node is not isolated", loc(fn), found=p.label)
            v = st[-1][1]
            if not (isinstance(v, Constraint) and isinstance(v.expr, CondExpr) and len(v.expr.branches) == 2):
                chk.bad("R-C08-1", "leak_constraint has three branches", loc(fn), found=str(v)[:100])
                continue
            brs = list(v.expr.branches) + [(None, v.expr.final)]
            a, b, c, d = (cs("leak_poly_coeffs_" + k) for k in "abcd")
            refs = [slope * P, a * P ** 3 + b * P ** 2 + c * P + d, Cd * A * sp.sqrt(g2 * P)]
            for i, (gd, e) in enumerate(brs):
                R, info = canon(ex.S(e))
                R = R.xreplace(ELEV_SUB)
                isj = [v_ for t_, v_ in p.conds if t_.startswith("isinstance(") and "Junction" in t_]
                if isj:
                    want_h = "head" if isj[0] else "source_head"
                    for nm_, i_ in info.get("h", []):
                        chk.expect(i_.get("dict") == want_h, "R-C08-1", "leak row reads the %s's head from m.%s" % ("junction" if isj[0] else "tank", want_h), loc(fn), found=nm_)
                tagj = "" if not isj else (" [junction]" if isj[0] else " [tank]")
                chk.expect(is_zero(R - (leak - refs[i])), "R-C08-1", "leak branch %d residual is  leak - %s%s" % (i, ["s*p", "cubic(p)", "Cd*A*sqrt(2*9.81*p)"][i], tagj), loc(fn),
                           "orifice law with p = head - elevation", expected=str(leak - refs[i]), found=str(R))
            gref = [P, P - delta]
            for i, (gd, e) in enumerate(brs[:2]):
                # one-sided inequality in the normal form  g <= 0  (body <= ub  or  lb <= body)
                g_ = None
                if isinstance(gd, Ineq) and gd.ub is not None and gd.lb is None:
                    g_ = canon(gd.body)[0] - canon(ex.S(gd.ub))[0]
                elif isinstance(gd, Ineq) and gd.lb is not None and gd.ub is None:
                    g_ = canon(ex.S(gd.lb))[0] - canon(gd.body)[0]
                okg = g_ is not None and is_zero(g_.xreplace(ELEV_SUB) - gref[i])
                chk.expect(bool(okg), "R-C08-1", "leak branch %d guard is %s <= 0%s" % (i, gref[i], tagj), loc(fn), found=str(gd))
            got_law = True
        chk.expect(got_law, "R-C08-1", "leak law located", loc(fn))
        B.check_updaters(chk, "R-C08-3", fn, "leak_constraint", paths, {"leak_status", "_is_isolated"}, loc(fn))
        for bn in ("mass_balance_constraint", "pdd_mass_balance_constraint"):
            f_, p_, e_ = B.run_builder(repo, CON, bn + ".build")
            B.check_updaters(chk, "R-C08-3", f_, bn, p_, {"leak_status"}, loc(f_))
            # the balance row of a node, by case (branch tests and conditional expressions alike): the leak-rate variable of THAT node is a term
            # of the row exactly while the leak is active
            n_active, missing, stale = 0, [], []
            for q_ in p_:
                if q_.st.raised:
                    continue
                for t_, v_, ln_ in q_.stores("m."):
                    mk = re.match(r"^m\.\w+\[(.+)\]$", t_)
                    if not (mk and isinstance(v_, Constraint)) or isinstance(v_.expr, CondExpr):
                        continue
                    want_sym = "m.leak_rate[%s]" % mk.group(1)
                    for c2, leaf in value_cases(e_.S(v_.expr), dict(q_.conds), raw=True):
                        models = prop_models(c2)
                        if not models:
                            continue
                        ls_atoms = sorted({k for m_ in models for k in m_ if re.search(r"\.leak_status$", k)})
                        states = {all(m_[k] for k in ls_atoms) for m_ in models} if ls_atoms else {True, False}
                        present = any(s_.name == want_sym for s_ in leaf.free_symbols)
                        if True in states:
                            n_active += 1
                            if not present:
                                missing.append(sorted(c2.items()))
                        if False in states and present:
                            stale.append(sorted(c2.items()))
            chk.expect(n_active > 0 and not missing, "R-C08-3", "%s contains the leak-rate term while the leak is active" % bn, loc(f_), found=missing[:2] or "no balance row found")
            chk.expect(not stale, "R-C08-3", "%s has no leak-rate term while the leak is inactive" % bn, loc(f_),
                       "without its leak_constraint row (built only for an active leak) the leak-rate variable is free; it must not enter the balance", found=stale[:2])
        consts = B.constants(repo)
        dl, sl = consts.get("leak_delta"), consts.get("leak_slope")
        chk.expect(dl is not None and dl[0] == sp.Rational(1, 10000), "R-C08-1", "leak smoothing band is 0.1 mm of pressure head", loc(B.CONSTANTS), expected="1e-4", found=str(dl[0]) if dl else None)
        chk.expect(sl is not None and 0 < sl[0] < sp.Rational(1, 1000), "R-C08-1", "leak_slope is a small positive constant", loc(B.CONSTANTS), found=str(sl))
        # breakpoint agreement
        rec = []
        pfn, pp, pex = run_builder_unrolled(repo, PAR, "leak_poly_coeffs_param.build", test_hook=both_entry_hook, call_hook=spline_hook(rec))
        chk.fn(pfn)
        if not rec:
            raise ExtractError("leak_poly_coeffs_param: no cubic_spline call")
        sub = {cs("leak_discharge_coeff"): Cd}
        q = sp.Symbol("qq", positive=True)
        orif = Cd * A * sp.sqrt(g2 * q)
        for r_ in rec:
            x1, x2, f1, f2, df1, df2 = [canon(pex.S(v))[0].xreplace(sub) for v in r_]
            for nm, got, want in (("x1 = 0", x1, 0), ("x2 = delta", x2, delta), ("f1 = 0", f1, 0), ("df1 = leak_slope", df1, slope),
                                  ("f2 = Cd*A*sqrt(2g*delta)", f2, orif.subs(q, delta)), ("df2 = d/dp Cd*A*sqrt(2g p) at delta", df2, sp.diff(orif, q).subs(q, delta))):
                chk.expect(is_zero(got - want), "R-C08-1", "leak spline data %s" % nm, loc(pfn), "the smoothing cubic must join the neighbouring branches with value and slope",
                           expected=str(want), found=str(got))
        # every way of writing the four coefficient entries (new Param or .value of the existing one), on every path: entry k gets coefficient k
        n_paths = 0
        for p_ in pp:
            if p_.st.raised:
                continue
            got = entry_values(p_, r"leak_poly_coeffs_([abcd])")
            if not got:
                continue
            n_paths += 1
            keys = {key for (_, key, _, _) in got}
            for k in "abcd":
                vals = [(val, mode) for (k_, key, val, mode) in got if k_ == k]
                ok_ = bool(vals) and len(keys) == 1 and all(isinstance(val, Opaque) and re.match(r"^spline\d+\.%s$" % k, val.text) for val, _ in vals)
                chk.expect(ok_, "R-C08-1", "m.leak_poly_coeffs_%s[<node>] receives spline coefficient %s (%s)" % (k, k, "/".join(sorted({m_ for _, m_ in vals})) or "entry"), loc(pfn),
                           found=[str(v_) for v_, _ in vals] or "not written; keys %s" % sorted(keys))
        if not n_paths:
            raise ExtractError("leak_poly_coeffs_param: no path writes the coefficient entries")
        B.check_updaters(chk, "R-C08-3", pfn, "leak_poly_coeffs_param", pp, {"leak_discharge_coeff", "leak_area"}, loc(pfn))
        for pname, attr in (("leak_coeff_param", "leak_discharge_coeff"), ("leak_area_param", "leak_area")):
            f2_, pths, e2 = B.run_builder(repo, PAR, pname + ".build", test_hook=both_entry_hook)
            dname = pname[:-len("_param")]
            seen_ = set()
            for p_ in pths:
                if p_.st.raised:
                    continue
                for (_, key, val, mode) in entry_values(p_, "(%s)" % dname):
                    txt = val.text if isinstance(val, Opaque) else str(val)
                    mk = re.match(r"^wn\.get_node\((.+)\)\.%s$" % attr, txt)
                    ok_ = isinstance(val, Opaque) and txt.endswith("." + attr) and (mk is None or mk.group(1) == key)
                    seen_.add(mode)
                    chk.expect(ok_, "R-C08-3", "%s carries node.%s (%s)" % (pname, attr, mode), loc(f2_), found=txt)
            chk.expect("created" in seen_, "R-C08-3", "%s carries node.%s" % (pname, attr), loc(f2_), found=sorted(seen_))
            B.check_updaters(chk, "R-C08-3", f2_, pname, pths, {attr}, loc(f2_))
        chk.floor("R-C08-1", 3 + 2 + 2 + 6 + 4)

    # ---------------------------------------------------------------- R-C08-2 index domains
    with chk.part("R-C08-2 index domains"):
        defs, uses = index_domains(repo)
        if not any(qual == "leak_constraint.build" for _, qual, _, _, _, _ in uses):
            raise ExtractError("leak_constraint.build: index loop / default index set not understood (no model dictionary subscripted by the loop variable)")
        n_pairs = 0
        seen_pairs = set()
        for rel, qual, fn_, dname, kinds, node in uses:
            if dname not in defs:
                continue
            jg = junction_guarded(node, fn_)
            if jg == "junction":
                kinds = kinds & {"junction"}
            elif jg == "other":
                kinds = kinds - {"junction"}
            key = (qual, dname, jg)
            if key in seen_pairs:
                continue
            seen_pairs.add(key)
            n_pairs += 1
            missing = kinds - defs[dname]
            chk.expect(not missing, "R-C08-2", "%s subscripts m.%s with its index variable only for element kinds m.%s is built for" % (qual, dname, dname), loc(rel, node),
                       "a model dictionary looked up with a name it was never built for raises KeyError inside the simulation (a leak on a tank needs tank entries)",
                       expected="m.%s covers %s" % (dname, sorted(kinds)), found="m.%s is built for %s only" % (dname, sorted(defs[dname])))
        chk.sample({"rule": "R-C08-2", "dict_domains": {k: sorted(v) for k, v in sorted(defs.items())}})
        chk.floor("R-C08-2", 30)

    # ---------------------------------------------------------------- R-C08-4 window / R-C08-5 inverse pair
    with chk.part("R-C08-4 window / R-C08-5 inverse pair"):
        tcf = repo.func(CTRL, "Control._time_control")
        cai_ = repo.func(CTRL, "ControlAction.__init__")
        addf = repo.func(MODEL, "WaterNetworkModel.add_control")
        chk.fn(tcf, addf)
        flags = set()
        for cname in ("Junction", "Tank"):
            af = repo.func(ELEM, "%s.add_leak" % cname)
            rf = repo.func(ELEM, "%s.remove_leak" % cname)
            chk.fn(af, rf)
            wanted = (("start_time", True, "_leak_start_control_name"), ("end_time", False, "_leak_end_control_name"))
            n_full = 0
            seen4 = set()
            for o in UnrollExec().run(af):
                if o.raised:
                    continue
                models = prop_models(dict(o.conds))
                if not models:
                    continue
                # controls registered on this path, keyed by the name they are registered under (order and temporaries do not matter)
                regs, dup = {}, []
                for e in call_events(o, "add_control"):
                    ab = bind_call(addf, e)
                    nm = ab.get("name")
                    nm = nm.text if isinstance(nm, Opaque) else repr(nm)
                    if nm in regs:
                        dup.append(nm)
                    te = event_of(o, ab.get("control_object"))
                    tb = bind_call(tcf, te) if te is not None and te[2][0].split(".")[-1] == "_time_control" else {}
                    ae = event_of(o, tb.get("control_action"))
                    cb = bind_call(cai_, ae) if ae is not None and ae[2][0].split(".")[-1] == "ControlAction" else {}
                    regs[nm] = (tb, cb, te[1] if te is not None else ab.get("control_object"))
                given = {when: prop_forced("%s is None" % when, models) for when, _, _ in wanted}
                # a control exists exactly when its time is given
                for when, val, cn in wanted:
                    if given[when] is None:
                        continue
                    key = (when, given[when], ("self." + cn) in regs)
                    if key in seen4:
                        continue
                    seen4.add(key)
                    if given[when] is True:
                        chk.expect(("self." + cn) not in regs, "R-C08-4", "%s.add_leak creates no %s control when %s is None" % (cname, when.split("_")[0], when), loc(af), found=sorted(regs))
                if any(g is not False for g in given.values()):
                    continue
                n_full += 1
                okw = set(regs) == {"self." + cn for _, _, cn in wanted} and not dup
                if ("both", okw, str(sorted(regs))) in seen4:
                    continue
                seen4.add(("both", okw, str(sorted(regs))))
                chk.expect(okw, "R-C08-4", "%s.add_leak creates a start and an end control" % cname, loc(af), found=(sorted(regs), dup))
                for when, val, cn in wanted:
                    tb, cb, shown = regs.get("self." + cn, ({}, {}, None))
                    chk.expect(bool(tb), "R-C08-4", "%s.add_leak registers the %s control under %s" % (cname, when, cn), loc(af), found=shown if shown is not None else sorted(regs))
                    chk.expect(cb.get("target_obj") == Opaque("self") and cb.get("attribute") == "leak_status" and cb.get("value") is val, "R-C08-4",
                               "%s.add_leak: %s control sets leak_status %s on this node" % (cname, when, val), loc(af), found=cb or shown)
                    fl = tb.get("time_flag")
                    okt = tb.get("wnm") == Opaque("wn") and tb.get("run_at_time") == Opaque(when) and isinstance(fl, str) and fl.upper() == "SIM_TIME" and tb.get("daily_flag") is False
                    chk.expect(okt, "R-C08-4", "%s.add_leak: %s control is a non-repeating simulation-time control at %s" % (cname, when, when), loc(af), found=tb or shown)
                    if isinstance(fl, str):
                        flags.add(fl)
            if not n_full:
                raise ExtractError("%s.add_leak: no path with both times given" % cname)
            # remove_leak undoes everything: on every path the LAST value stored to the flags is False and both controls are discarded
            n_rm = 0
            seen5 = set()
            for o in UnrollExec().run(rf):
                if o.raised:
                    continue
                n_rm += 1
                last = {}
                for e in o.events:
                    if e[0] == "store" and e[1].startswith("self."):
                        last[e[1]] = e[2]
                disc = set()
                for e in o.events:
                    if e[0] == "call" and e[2][0].split(".")[-1] in ("_discard_control", "remove_control") and e[2][0].split(".")[0] == "wn":
                        arg = (e[2][1] or [e[2][2].get("name")])[0]
                        disc.add(arg.text if isinstance(arg, Opaque) else repr(arg))
                sig = (str(sorted((k, str(v)) for k, v in last.items())), str(sorted(disc)))
                if sig in seen5:
                    continue
                seen5.add(sig)
                shown = {k: str(v) for k, v in sorted(last.items())}
                chk.expect(last.get("self._leak") is False, "R-C08-5", "%s.remove_leak clears the leak flag" % cname, loc(rf), found=shown)
                chk.expect({"self._leak_start_control_name", "self._leak_end_control_name"} <= disc, "R-C08-5", "%s.remove_leak discards both leak controls" % cname, loc(rf), found=sorted(disc))
                # the switch the simulator reads: ControlAction maps 'leak_status' -> '_leak_status'; removing the controls must also switch it off
                chk.expect(last.get("self._leak_status") is False, "R-C08-5", "%s.remove_leak switches the run-time leak status off" % cname, loc(rf),
                           "the start control sets _leak_status True; after remove_leak nothing would ever clear it and the constraint builders keep the leak term (leak keeps discharging)",
                           expected="self._leak_status = False", found=shown)
            if not n_rm:
                raise ExtractError("%s.remove_leak: no path returns" % cname)
        # the control factory, evaluated for the flag add_leak passes: the condition is `simulation time == run_at_time`, repeating only on request
        stc = repo.func(CTRL, "SimTimeCondition.__init__")
        cti = repo.func(CTRL, "Control.__init__")
        for fl in sorted(flags) or ["SIM_TIME"]:
            n_tc = 0
            for o in SymExec(call_hook=str_method_hook).run(tcf, env={"time_flag": fl}):
                if o.raised:
                    continue
                n_tc += 1
                ce = event_of(o, o.ret)
                cb = bind_call(cti, ce) if ce is not None and ce[2][0].split(".")[-1] in ("Control", "cls") else {}
                se = event_of(o, cb.get("condition"))
                sb = bind_call(stc, se) if se is not None and se[2][0].split(".")[-1] == "SimTimeCondition" else {}
                rel = sb.get("relation")
                okc = sb.get("threshold") == Opaque("run_at_time") and sb.get("repeat") == Opaque("daily_flag") and sb.get("model") == Opaque("wnm") \
                    and isinstance(rel, Opaque) and rel.text == "Comparison.eq" and cb.get("then_action") == Opaque("control_action")
                chk.expect(okc, "R-C08-4", "Control._time_control(SIM_TIME) builds SimTimeCondition(eq, run_at_time, repeat=daily_flag)", loc(tcf),
                           "evaluated with time_flag=%r" % fl, found=(ce[1] if ce is not None else o.ret))
            if not n_tc:
                chk.bad("R-C08-4", "Control._time_control(SIM_TIME) builds SimTimeCondition(eq, run_at_time, repeat=daily_flag)", loc(tcf), "raises for time_flag=%r" % fl)
        from ._shared import control_type_table
        table_, default_, ci, init_ok = control_type_table(repo)
        tkey = [k for k in table_ if "SimTimeCondition" in k]
        chk.expect(init_ok and bool(tkey) and table_[tkey[0]] == "_ControlType.presolve", "R-C08-4", "time-conditioned controls are pre-solve (back-tracked to their instant)", loc(ci), found=table_)
        cai, pvals = private_attribute_of(repo, "leak_status")
        chk.fn(cai)
        chk.expect(pvals == {"_leak_status"}, "R-C08-4", "ControlAction maps leak_status to the run-time field _leak_status", loc(cai), found=sorted(map(str, pvals)))
        ls = repo.func(BASE, "Node.leak_status", kind="getter")
        rets = {(o.ret.text if isinstance(o.ret, Opaque) else o.ret) for o in SymExec().run(ls) if not o.raised}
        chk.expect(rets == {"self._leak_status"}, "R-C08-4", "Node.leak_status reads _leak_status", loc(ls), found=sorted(map(str, rets)))
        chk.floor("R-C08-4", 2 * 7 + 4)
        chk.floor("R-C08-5", 6)

    # ---------------------------------------------------------------- R-C08-8 a refused add_leak changes nothing (both siblings)
    with chk.part("R-C08-8 a refused add_leak changes nothing (both siblings)"):
        # the registry refuses a control name that exists (add_control raises); a second add_leak on a node whose leak is in force must be refused
        # BEFORE a field of the node or the registry is touched: at every point of every path at which the call can still be refused, nothing has
        # been changed yet -- or the refusal was excluded by a membership test on that very name taken earlier on the path
        for cname in ("Junction", "Tank"):
            af = repo.func(ELEM, "%s.add_leak" % cname)
            seen8 = set()
            n_add = 0
            for o in UnrollExec().run(af):
                for kind_, what, before, guarded in refusal_points(o, addf):
                    if kind_ == "add_control":
                        n_add += 1
                    ok_ = guarded or not before
                    key = (kind_, what, ok_, tuple(before) if not ok_ else ())
                    if key in seen8:
                        continue
                    seen8.add(key)
                    if kind_ == "raise":
                        chk.expect(ok_, "R-C08-8", "%s.add_leak has changed nothing when it refuses the call itself" % cname, loc(af),
                                   "%s is reached on path %s after the node / the registry was already changed" % (what[:80], o.label()), expected="no effect before the raise", found=before[:4])
                    else:
                        chk.expect(ok_, "R-C08-8", "%s.add_leak: registering %s cannot be refused once something was changed" % (cname, what), loc(af),
                                   "wn.add_control raises when the name exists; on path %s the name was not tested against the registry first, so a refused second add_leak "
                                   "has already rewritten the leak in force (or registered the other control)" % o.label(),
                                   expected="`%s in wn.control_name_list` excluded before any change, or nothing changed before the call" % what, found=before[:4])
            if not n_add:
                raise ExtractError("%s.add_leak: no wn.add_control call found" % cname)
        chk.floor("R-C08-8", 4)

    # ---------------------------------------------------------------- R-C08-9 remove_leak removes the leak controls whatever they are called
    with chk.part("R-C08-9 remove_leak removes the leak controls whatever they are called"):
        # simple-control names are not stored by to_dict (from_dict re-registers them as 'control N'); convert_controls_to_rules re-registers
        # '<name>_Rule': a control that does nothing but switch THIS node's leak must not survive remove_leak, a control that does anything else must
        for cname in ("Junction", "Tank"):
            rf = repo.func(ELEM, "%s.remove_leak" % cname)
            err, survived, keep, fields = remove_leak_on_mock_model(repo, cname)
            chk.expect(err is None, "R-C08-9", "%s.remove_leak completes on a model with renamed leak controls" % cname, loc(rf), found=err)
            if err is not None:
                continue
            for label, alive in sorted(survived.items()):
                if keep[label]:
                    chk.expect(alive, "R-C08-9", "%s.remove_leak keeps the %s" % (cname, label), loc(rf), "only controls that do nothing but switch this node's leak belong to the leak")
                else:
                    chk.expect(not alive, "R-C08-9", "%s.remove_leak discards the %s" % (cname, label), loc(rf),
                               "a surviving start control switches the removed leak back on at its start time; registered names are not preserved by from_dict / convert_controls_to_rules",
                               expected="no control whose actions all target (this node, 'leak_status') is left in the registry", found="still registered")
            chk.expect(fields.get("_leak") is False and fields.get("_leak_status") is False, "R-C08-9", "%s.remove_leak leaves the node without a leak" % cname, loc(rf), found=fields)
        chk.floor("R-C08-9", 2 * 11)

    # ---------------------------------------------------------------- R-C08-6 reported leak demand
    with chk.part("R-C08-6 reported leak demand"):
        # the leak row exists only for `leak_status and not _is_isolated` (R-C08-1); wherever it does not exist the reported leak demand must be
        # the constant 0 -- on EVERY path through store_results_in_network (last store wins), not the stale value of the leak-rate variable
        sfn, rows = leak_demand_cases(repo)
        chk.fn(sfn)
        seen6 = set()
        for kind, kv, nv, conds, got in rows:
            models = prop_models(conds)
            if not models:
                continue                              # contradictory tests: no execution takes this path
            iso = prop_forced(nv + "._is_isolated", models) if kind == "junction" else False
            ls = prop_forced(nv + ".leak_status", models)
            if ls is None:
                ls = prop_forced(nv + "._leak_status", models)      # the field the read-only property returns (R-C08-4)
            if iso is not False:
                case, want = "isolated", 0           # a path an isolated junction may take
            elif ls is True:
                case, want = "connected, leak active", "m.leak_rate[%s].value" % kv
            elif ls is False:
                case, want = "connected, leak inactive", 0
            elif not any("leak_status" in k for k in conds) and "leak_status" not in str(got):
                # nothing on this path looks at the switch: one value for the active and the inactive leak
                chk.bad("R-C08-6", "reported leak demand of a connected %s depends on leak_status" % kind, loc(sfn),
                        "store_results_in_network, path %s stores %s whether or not the leak is active" % (sorted(conds.items()), got), expected="m.leak_rate[%s].value while active, 0 otherwise" % kv, found=got)
                continue
            else:
                raise ExtractError("store_results_in_network: cannot tell whether the leak is active on path %s" % sorted(conds.items()))
            key = (kind, case, str(got))
            if key in seen6:
                continue
            seen6.add(key)
            chk.expect(got == want, "R-C08-6", "reported leak demand of a %s [%s] is %s on every path" % (kind, case, want), loc(sfn),
                       "store_results_in_network, path %s: the last value stored to %s._leak_demand" % (sorted(conds.items()), nv), expected=want, found=got)
        chk.floor("R-C08-6", 5)

    # ---------------------------------------------------------------- R-C08-7 the leak window starts over with every reset
    with chk.part("R-C08-7 the leak window starts over with every reset"):
        # "active exactly from start_time until end_time": a run leaves the switch on when the leak is still open at the end; reset_initial_values
        # must switch it off for every node kind that can carry a leak, or a rerun leaks from t = 0
        from .c11 import reset_table
        rsf, rtab = reset_table(repo)
        chk.fn(rsf)
        leak_kinds = [cn for cn in ("Junction", "Tank", "Reservoir") if any(isinstance(n, ast.FunctionDef) and n.name == "add_leak" for n in repo.cls(ELEM, cn).body)]
        for cn in leak_kinds:
            chk.expect(rtab.get(cn, {}).get("_leak_status") == "False", "R-C08-7", "reset_initial_values switches the leak of every %s off" % cn, loc(rsf),
                       "%s.add_leak exists, so a run can end with _leak_status True; without the reset the next run discharges before start_time" % cn,
                       expected="%s._leak_status = False" % cn, found=rtab.get(cn, {}).get("_leak_status"))
        chk.floor("R-C08-7", 2)

    # ---------------------------------------------------------------- R-C08-10 every node's leak rows are built from that node's own data
    with chk.part("R-C08-10 every node's leak rows are built from that node's own data"):
        B.check_loop_independence(repo, chk, "R-C08-10", [(CON, "leak_constraint.build"), (PAR, "leak_coeff_param.build"), (PAR, "leak_area_param.build"),
                                                         (PAR, "leak_poly_coeffs_param.build"), (VAR, "leak_rate_var")], "node")
        chk.floor("R-C08-10", 5)


WITNESSES = [
    dict(name="tank-leak-elevation-carried-from-the-previous-node", file=CON, old="                else:\n                    h = m.source_head[node_name]\n                    elev = node.elevation\n                delta = m.leak_delta",
         new="                else:\n                    h = m.source_head[node_name]\n                delta = m.leak_delta", rule="R-C08-10"),
    dict(name="tank-leak-survives-reset", file="wntr/network/model.py", old="            node._prev_head = node.head\n            node._demand = None\n            node._leak_demand = None\n            node._leak_status = False\n",
         new="            node._prev_head = node.head\n            node._demand = None\n            node._leak_demand = None\n", rule="R-C08-7"),
    dict(name="isolated-junction-keeps-stale-leak", file="wntr/sim/hydraulics.py", old="            node._pressure = 0\n            node._leak_demand = 0\n", new="            node._pressure = 0\n", rule="R-C08-6"),
    dict(name="drop-2g", file=CON, old="con.add_final_expr(leak_rate - Cd*area*(2.0*9.81*(h-elev))**0.5)", new="con.add_final_expr(leak_rate - Cd*area*(9.81*(h-elev))**0.5)", rule="R-C08-1"),
    dict(name="exponent-one", file=CON, old="(2.0*9.81*(h-elev))**0.5)", new="(2.0*9.81*(h-elev))**1.0)", rule="R-C08-1"),
    dict(name="guard-wrong", file=CON, old="con.add_condition(aml.inequality(h - elev, ub=delta), leak_rate - (a*(h-elev)**3", new="con.add_condition(aml.inequality(h, ub=delta), leak_rate - (a*(h-elev)**3", rule="R-C08-1"),
    dict(name="spline-df2", file=PAR, old="            df2 = 0.5*node.leak_discharge_coeff*node.leak_area*(2.0*9.81)**0.5*x2**(-0.5)", new="            df2 = node.leak_discharge_coeff*node.leak_area*(2.0*9.81)**0.5*x2**(-0.5)", rule="R-C08-1"),
    dict(name="start-end-swapped", file=ELEM, old="            start_control_action = ControlAction(self, 'leak_status', True)\n            control = Control._time_control(wn, start_time, 'SIM_TIME', False, start_control_action)\n            wn.add_control(self._leak_start_control_name, control)\n\n        if end_time is not None:\n            end_control_action = ControlAction(self, 'leak_status', False)\n            control = Control._time_control(wn, end_time, 'SIM_TIME', False, end_control_action)\n            wn.add_control(self._leak_end_control_name, control)\n\n    def remove_leak(self,wn):\n        \"\"\"\n        Remove a leak control",
         new="            start_control_action = ControlAction(self, 'leak_status', True)\n            control = Control._time_control(wn, end_time, 'SIM_TIME', False, start_control_action)\n            wn.add_control(self._leak_start_control_name, control)\n\n        if end_time is not None:\n            end_control_action = ControlAction(self, 'leak_status', False)\n            control = Control._time_control(wn, end_time, 'SIM_TIME', False, end_control_action)\n            wn.add_control(self._leak_end_control_name, control)\n\n    def remove_leak(self,wn):\n        \"\"\"\n        Remove a leak control", rule="R-C08-4"),
    dict(name="leak-updater-missing", file=CON, old="            updater.add(node, 'leak_status', leak_constraint.update)\n", new="", rule="R-C08-3"),
    dict(name="elevation-for-all-nodes-preserving", file=PAR, old="                m.leak_area[node_name] = aml.Param(node.leak_area)", new="                area_ = node.leak_area\n                m.leak_area[node_name] = aml.Param(area_)", silent=True),
    # ---- shapes R-C08-6 / R-C08-4 must see through (behaviour-preserving) and their wrong twins (must fire)
    dict(name="leak-demand-conditional-expression-preserving", file=HYD,
         old="            if node.leak_status:\n                node._leak_demand = m.leak_rate[name].value\n            else:\n                node._leak_demand = 0\n\n    for name, node in wn.tanks():\n        if node.leak_status:\n            node._leak_demand = m.leak_rate[name].value\n        else:\n            node._leak_demand = 0\n",
         new="            node._leak_demand = m.leak_rate[name].value if node.leak_status else 0\n\n    for name, node in wn.tanks():\n        leak_rate = m.leak_rate[name].value if node.leak_status else 0\n        node._leak_demand = leak_rate\n", silent=True),
    dict(name="leak-demand-conditional-expression-swapped", file=HYD,
         old="            if node.leak_status:\n                node._leak_demand = m.leak_rate[name].value\n            else:\n                node._leak_demand = 0\n\n    for name, node in wn.tanks():\n",
         new="            node._leak_demand = 0 if node.leak_status else m.leak_rate[name].value\n\n    for name, node in wn.tanks():\n", rule="R-C08-6"),
    dict(name="leak-demand-one-expression-over-isolation-preserving", file=HYD,
         old="            node._pressure = 0\n            node._leak_demand = 0\n",
         new="            node._pressure = 0\n",
         also=[("            if node.leak_status:\n                node._leak_demand = m.leak_rate[name].value\n            else:\n                node._leak_demand = 0\n\n    for name, node in wn.tanks():\n",
                "        node._leak_demand = 0 if (node._is_isolated or node.leak_status == False) else m.leak_rate[name].value\n\n    for name, node in wn.tanks():\n")], silent=True),
    dict(name="leak-demand-one-expression-ignores-isolation", file=HYD,
         old="            node._pressure = 0\n            node._leak_demand = 0\n",
         new="            node._pressure = 0\n",
         also=[("            if node.leak_status:\n                node._leak_demand = m.leak_rate[name].value\n            else:\n                node._leak_demand = 0\n\n    for name, node in wn.tanks():\n",
                "        node._leak_demand = 0 if node.leak_status == False else m.leak_rate[name].value\n\n    for name, node in wn.tanks():\n")], rule="R-C08-6"),
    dict(name="tank-loop-renamed-variables-early-continue-preserving", file=HYD,
         old="    for name, node in wn.tanks():\n        if node.leak_status:\n            node._leak_demand = m.leak_rate[name].value\n        else:\n            node._leak_demand = 0\n        node._demand = (sum(wn.get_link(link_name).flow for link_name in wn.get_links_for_node(name, 'INLET')) -\n                       sum(wn.get_link(link_name).flow for link_name in wn.get_links_for_node(name, 'OUTLET')) -\n                       node._leak_demand)\n",
         new="    for tank_name, tank in wn.tanks():\n        tank._leak_demand = 0\n        if not tank.leak_status == False:\n            tank._leak_demand = m.leak_rate[tank_name].value\n        tank._demand = (sum(wn.get_link(link_name).flow for link_name in wn.get_links_for_node(tank_name, 'INLET')) -\n                       sum(wn.get_link(link_name).flow for link_name in wn.get_links_for_node(tank_name, 'OUTLET')) -\n                       tank._leak_demand)\n", silent=True),
    dict(name="tank-loop-renamed-variables-wrong-key", file=HYD,
         old="    for name, node in wn.tanks():\n        if node.leak_status:\n            node._leak_demand = m.leak_rate[name].value\n",
         new="    for tank_name, node in wn.tanks():\n        if node.leak_status:\n            node._leak_demand = m.leak_rate[name].value\n", rule="R-C08-6"),
    dict(name="private-attribute-lookup-table-preserving", file=CTRL,
         old="        self._private_attribute = attribute\n        if attribute == 'status':\n            self._private_attribute = '_user_status'\n        elif attribute == 'leak_status':\n            self._private_attribute = '_leak_status'\n        elif attribute == 'setting':\n            self._private_attribute = '_setting'\n",
         new="        self._private_attribute = self._PRIVATE_TWINS.get(attribute, attribute)\n",
         also=[("    def __init__(self, target_obj, attribute, value):\n        super(ControlAction, self).__init__()\n",
                "    _PRIVATE_TWINS = {'status': '_user_status', 'leak_status': '_leak_status', 'setting': '_setting'}\n\n    def __init__(self, target_obj, attribute, value):\n        super(ControlAction, self).__init__()\n")], silent=True),
    dict(name="private-attribute-lookup-table-wrong-twin", file=CTRL,
         old="        self._private_attribute = attribute\n        if attribute == 'status':\n            self._private_attribute = '_user_status'\n        elif attribute == 'leak_status':\n            self._private_attribute = '_leak_status'\n        elif attribute == 'setting':\n            self._private_attribute = '_setting'\n",
         new="        self._private_attribute = self._PRIVATE_TWINS.get(attribute, attribute)\n",
         also=[("    def __init__(self, target_obj, attribute, value):\n        super(ControlAction, self).__init__()\n",
                "    _PRIVATE_TWINS = {'status': '_user_status', 'leak_status': '_leak', 'setting': '_setting'}\n\n    def __init__(self, target_obj, attribute, value):\n        super(ControlAction, self).__init__()\n")], rule="R-C08-4"),
    dict(name="private-attribute-early-return-chain-preserving", file=CTRL,
         old="        self._private_attribute = attribute\n        if attribute == 'status':\n            self._private_attribute = '_user_status'\n        elif attribute == 'leak_status':\n            self._private_attribute = '_leak_status'\n        elif attribute == 'setting':\n            self._private_attribute = '_setting'\n",
         new="        if attribute == 'status':\n            self._private_attribute = '_user_status'\n            return\n        if attribute == 'setting':\n            self._private_attribute = '_setting'\n            return\n        self._private_attribute = '_leak_status' if attribute == 'leak_status' else attribute\n", silent=True),
    dict(name="private-attribute-leak-status-unmapped", file=CTRL,
         old="        elif attribute == 'leak_status':\n            self._private_attribute = '_leak_status'\n", new="", rule="R-C08-4"),
    dict(name="leak-status-getter-reads-static-flag", file=BASE, old="        return self._leak_status\n", new="        return self._leak\n", rule="R-C08-4"),
    # ---- further shapes of the same facts (found by trying rewrites of every anchored function) and wrong twins that must fire
    dict(name='leak-row-head-by-conditional-expression-preserving', file=CON, old='            if node.leak_status and not node._is_isolated:\n                leak_rate = m.leak_rate[node_name]\n                if isinstance(node, wntr.network.Junction):\n                    h = m.head[node_name]\n                    elev = m.elevation[node_name]\n                else:\n                    h = m.source_head[node_name]\n                    elev = node.elevation\n', new='            if node.leak_status and not node._is_isolated:\n                leak_rate = m.leak_rate[node_name]\n                is_junction = isinstance(node, wntr.network.Junction)\n                h = m.head[node_name] if is_junction else m.source_head[node_name]\n                elev = m.elevation[node_name] if is_junction else node.elevation\n', silent=True),
    dict(name='leak-row-guard-compares-with-false-preserving', file=CON, old='            if node.leak_status and not node._is_isolated:\n                leak_rate = m.leak_rate[node_name]\n', new='            if node.leak_status and node._is_isolated == False:\n                leak_rate = m.leak_rate[node_name]\n', silent=True),
    dict(name='leak-row-guard-de-morgan-preserving', file=CON, old='            if node.leak_status and not node._is_isolated:\n                leak_rate = m.leak_rate[node_name]\n', new='            if not (node._is_isolated or not node.leak_status):\n                leak_rate = m.leak_rate[node_name]\n', silent=True),
    dict(name='leak-law-pressure-hoisted-horner-preserving', file=CON, old='                con = aml.ConditionalExpression()\n                con.add_condition(aml.inequality(h, ub=elev), leak_rate - slope*(h-elev))\n                con.add_condition(aml.inequality(h - elev, ub=delta), leak_rate - (a*(h-elev)**3 + b*(h-elev)**2 + c*(h-elev) + d))\n                con.add_final_expr(leak_rate - Cd*area*(2.0*9.81*(h-elev))**0.5)\n', new='                p = h - elev\n                con = aml.ConditionalExpression()\n                con.add_condition(aml.inequality(p, ub=0), leak_rate - slope*p)\n                con.add_condition(aml.inequality(p, ub=delta), leak_rate - (((a*p + b)*p + c)*p + d))\n                con.add_final_expr(leak_rate - Cd*area*(2.0*9.81*p)**0.5)\n', silent=True),
    dict(name='leak-branch-guard-lower-bound-form-preserving', file=CON, old='con.add_condition(aml.inequality(h, ub=elev), leak_rate - slope*(h-elev))', new='con.add_condition(aml.inequality(elev - h, lb=0), leak_rate - slope*(h-elev))', silent=True),
    dict(name='leak-row-updaters-in-a-loop-preserving', file=CON, old="            updater.add(node, 'leak_status', leak_constraint.update)\n            updater.add(node, '_is_isolated', leak_constraint.update)\n\n\ndef plot_constraint", new="            for attr in ('leak_status', '_is_isolated'):\n                updater.add(node, attr, leak_constraint.update)\n\n\ndef plot_constraint", silent=True),
    dict(name='leak-row-updaters-through-cls-preserving', file=CON, old="            updater.add(node, 'leak_status', leak_constraint.update)\n            updater.add(node, '_is_isolated', leak_constraint.update)\n\n\ndef plot_constraint", new="            updater.add(node, 'leak_status', cls.update)\n            updater.add(node, '_is_isolated', cls.update)\n\n\ndef plot_constraint", silent=True),
    dict(name='leak-row-default-index-conditional-expression-preserving', file=CON, old='        if index_over is None:\n            index_over = wn.junction_name_list + wn.tank_name_list\n\n        for node_name in index_over:\n            if node_name in m.leak_con:', new='        names = wn.junction_name_list + wn.tank_name_list if index_over is None else index_over\n\n        for node_name in names:\n            if node_name in m.leak_con:', silent=True),
    dict(name='add-leak-nested-calls-preserving', file=ELEM, old='        if start_time is not None:\n            start_control_action = ControlAction(self, \'leak_status\', True)\n            control = Control._time_control(wn, start_time, \'SIM_TIME\', False, start_control_action)\n            wn.add_control(self._leak_start_control_name, control)\n\n        if end_time is not None:\n            end_control_action = ControlAction(self, \'leak_status\', False)\n            control = Control._time_control(wn, end_time, \'SIM_TIME\', False, end_control_action)\n            wn.add_control(self._leak_end_control_name, control)\n\n    def remove_leak(self,wn):\n        """\n        Remove a leak control', new='        if start_time is not None:\n            wn.add_control(self._leak_start_control_name, Control._time_control(wn, start_time, \'SIM_TIME\', False, ControlAction(self, \'leak_status\', True)))\n\n        if end_time is not None:\n            wn.add_control(self._leak_end_control_name, Control._time_control(wn, end_time, \'SIM_TIME\', False, ControlAction(self, \'leak_status\', False)))\n\n    def remove_leak(self,wn):\n        """\n        Remove a leak control', silent=True),
    dict(name='add-leak-keyword-arguments-preserving', file=ELEM, old='        if start_time is not None:\n            start_control_action = ControlAction(self, \'leak_status\', True)\n            control = Control._time_control(wn, start_time, \'SIM_TIME\', False, start_control_action)\n            wn.add_control(self._leak_start_control_name, control)\n\n        if end_time is not None:\n            end_control_action = ControlAction(self, \'leak_status\', False)\n            control = Control._time_control(wn, end_time, \'SIM_TIME\', False, end_control_action)\n            wn.add_control(self._leak_end_control_name, control)\n\n    def remove_leak(self,wn):\n        """\n        Remove a leak control', new='        if start_time is not None:\n            act = ControlAction(target_obj=self, attribute=\'leak_status\', value=True)\n            control = Control._time_control(wn, start_time, \'SIM_TIME\', daily_flag=False, control_action=act)\n            wn.add_control(self._leak_start_control_name, control)\n\n        if end_time is not None:\n            act = ControlAction(self, \'leak_status\', value=False)\n            control = Control._time_control(wnm=wn, run_at_time=end_time, time_flag=\'SIM_TIME\', daily_flag=False, control_action=act)\n            wn.add_control(name=self._leak_end_control_name, control_object=control)\n\n    def remove_leak(self,wn):\n        """\n        Remove a leak control', silent=True),
    dict(name='add-leak-merged-loop-preserving', file=ELEM, old='        if start_time is not None:\n            start_control_action = ControlAction(self, \'leak_status\', True)\n            control = Control._time_control(wn, start_time, \'SIM_TIME\', False, start_control_action)\n            wn.add_control(self._leak_start_control_name, control)\n\n        if end_time is not None:\n            end_control_action = ControlAction(self, \'leak_status\', False)\n            control = Control._time_control(wn, end_time, \'SIM_TIME\', False, end_control_action)\n            wn.add_control(self._leak_end_control_name, control)\n\n    def remove_leak(self,wn):\n        """\n        Remove a leak control', new='        for when, status, control_name in ((start_time, True, self._leak_start_control_name), (end_time, False, self._leak_end_control_name)):\n            if when is None:\n                continue\n            action = ControlAction(self, \'leak_status\', status)\n            wn.add_control(control_name, Control._time_control(wn, when, \'SIM_TIME\', False, action))\n\n    def remove_leak(self,wn):\n        """\n        Remove a leak control', silent=True),
    dict(name='remove-leak-loop-and-chained-assignment-preserving', file=ELEM, old='        wn : :class:`~wntr.network.model.WaterNetworkModel`\n           Water network model\n        """\n        self._leak = False\n        self._leak_status = False\n        wn._discard_control(self._leak_start_control_name)\n        wn._discard_control(self._leak_end_control_name)\n        # the leak controls may have lost', new='        wn : :class:`~wntr.network.model.WaterNetworkModel`\n           Water network model\n        """\n        self._leak = self._leak_status = False\n        for control_name in (self._leak_start_control_name, self._leak_end_control_name):\n            wn._discard_control(control_name)\n        # the leak controls may have lost', silent=True),
    dict(name='remove-leak-leaves-status-on', file=ELEM, old='        wn : :class:`~wntr.network.model.WaterNetworkModel`\n           Water network model\n        """\n        self._leak = False\n        self._leak_status = False\n        wn._discard_control(self._leak_start_control_name)\n        wn._discard_control(self._leak_end_control_name)\n        # the leak controls may have lost', new='        wn : :class:`~wntr.network.model.WaterNetworkModel`\n           Water network model\n        """\n        self._leak = False\n        self._leak_status = True\n        wn._discard_control(self._leak_start_control_name)\n        wn._discard_control(self._leak_end_control_name)\n        # the leak controls may have lost', rule='R-C08-5'),
    dict(name='time-control-early-returns-positional-preserving', file=CTRL, old='        if time_flag.upper() == \'SIM_TIME\':\n            condition = SimTimeCondition(model=wnm, relation=Comparison.eq, threshold=run_at_time, repeat=daily_flag,\n                                         first_time=0)\n        elif time_flag.upper() == \'CLOCK_TIME\':\n            condition = TimeOfDayCondition(model=wnm, relation=Comparison.eq, threshold=run_at_time, repeat=daily_flag,\n                                           first_day=0)\n        else:\n            raise ValueError("time_flag not recognized; expected either \'sim_time\' or \'clock_time\'")\n\n        control = Control(condition=condition, then_action=control_action)\n\n        return control\n', new='        flag = time_flag.upper()\n        if flag == \'SIM_TIME\':\n            return Control(SimTimeCondition(wnm, Comparison.eq, run_at_time, repeat=daily_flag, first_time=0), control_action)\n        if flag == \'CLOCK_TIME\':\n            return Control(TimeOfDayCondition(wnm, Comparison.eq, run_at_time, repeat=daily_flag, first_day=0), control_action)\n        raise ValueError("time_flag not recognized; expected either \'sim_time\' or \'clock_time\'")\n', silent=True),
    dict(name='time-control-validation-first-preserving', file=CTRL, old='        if time_flag.upper() == \'SIM_TIME\':\n            condition = SimTimeCondition(model=wnm, relation=Comparison.eq, threshold=run_at_time, repeat=daily_flag,\n                                         first_time=0)\n        elif time_flag.upper() == \'CLOCK_TIME\':\n            condition = TimeOfDayCondition(model=wnm, relation=Comparison.eq, threshold=run_at_time, repeat=daily_flag,\n                                           first_day=0)\n        else:\n            raise ValueError("time_flag not recognized; expected either \'sim_time\' or \'clock_time\'")\n\n        control = Control(condition=condition, then_action=control_action)\n\n        return control\n', new='        flag = time_flag.upper()\n        if flag not in (\'SIM_TIME\', \'CLOCK_TIME\'):\n            raise ValueError("time_flag not recognized; expected either \'sim_time\' or \'clock_time\'")\n        if flag == \'CLOCK_TIME\':\n            condition = TimeOfDayCondition(model=wnm, relation=Comparison.eq, threshold=run_at_time, repeat=daily_flag, first_day=0)\n        else:\n            condition = SimTimeCondition(model=wnm, relation=Comparison.eq, threshold=run_at_time, repeat=daily_flag, first_time=0)\n        return Control(condition=condition, then_action=control_action)\n', silent=True),
    dict(name='time-control-at-or-after', file=CTRL, old="condition = SimTimeCondition(model=wnm, relation=Comparison.eq, threshold=run_at_time, repeat=daily_flag,\n                                         first_time=0)\n        elif time_flag.upper() == 'CLOCK_TIME':", new="condition = SimTimeCondition(model=wnm, relation=Comparison.ge, threshold=run_at_time, repeat=daily_flag,\n                                         first_time=0)\n        elif time_flag.upper() == 'CLOCK_TIME':", rule='R-C08-4'),
    dict(name='mass-balance-leak-term-conditional-expression-preserving', file=CON, old='                if node.leak_status:\n                    expr += m.leak_rate[node_name]\n                m.mass_balance[node_name] = aml.Constraint(expr)\n', new='                leak = m.leak_rate[node_name] if node.leak_status else 0\n                m.mass_balance[node_name] = aml.Constraint(expr + leak)\n', silent=True),
    dict(name='mass-balance-leak-term-unconditional', file=CON, old='                if node.leak_status:\n                    expr += m.leak_rate[node_name]\n                m.mass_balance[node_name] = aml.Constraint(expr)\n', new='                expr += m.leak_rate[node_name]\n                m.mass_balance[node_name] = aml.Constraint(expr)\n', rule='R-C08-3'),
    dict(name='mass-balance-leak-term-inverted', file=CON, old='                if node.leak_status:\n                    expr += m.leak_rate[node_name]\n                m.mass_balance[node_name] = aml.Constraint(expr)\n', new='                if not node.leak_status:\n                    expr += m.leak_rate[node_name]\n                m.mass_balance[node_name] = aml.Constraint(expr)\n', rule='R-C08-3'),
    dict(name='mass-balance-renamed-locals-preserving', file=CON, old="        for node_name in index_over:\n            if node_name in m.mass_balance:\n                del m.mass_balance[node_name]\n\n            node = wn.get_node(node_name)\n            if not node._is_isolated:\n                expr = m.expected_demand[node_name]\n                for link_name in wn.get_links_for_node(node_name, flag='INLET'):\n                    expr -= m.flow[link_name]\n                for link_name in wn.get_links_for_node(node_name, flag='OUTLET'):\n                    expr += m.flow[link_name]\n                if node.leak_status:\n                    expr += m.leak_rate[node_name]\n                m.mass_balance[node_name] = aml.Constraint(expr)\n\n            updater.add(node, 'leak_status', mass_balance_constraint.update)\n            updater.add(node, '_is_isolated', mass_balance_constraint.update)\n", new="        for jname in index_over:\n            if jname in m.mass_balance:\n                del m.mass_balance[jname]\n\n            junction = wn.get_node(jname)\n            if not junction._is_isolated:\n                expr = m.expected_demand[jname]\n                for link_name in wn.get_links_for_node(jname, flag='INLET'):\n                    expr -= m.flow[link_name]\n                for link_name in wn.get_links_for_node(jname, flag='OUTLET'):\n                    expr += m.flow[link_name]\n                if junction.leak_status:\n                    expr += m.leak_rate[jname]\n                m.mass_balance[jname] = aml.Constraint(expr)\n\n            updater.add(junction, 'leak_status', mass_balance_constraint.update)\n            updater.add(junction, '_is_isolated', mass_balance_constraint.update)\n", silent=True),
    dict(name='leak-spline-renamed-hoisted-reordered-preserving', file=PAR, old="        for node_name in index_over:\n            node = wn.get_node(node_name)\n            x1 = 0.0\n            f1 = 0.0\n            x2 = x1 + m.leak_delta\n            f2 = node.leak_discharge_coeff*node.leak_area*(2.0*9.81*x2)**0.5\n            df1 = m.leak_slope\n            df2 = 0.5*node.leak_discharge_coeff*node.leak_area*(2.0*9.81)**0.5*x2**(-0.5)\n            a, b, c, d = cubic_spline(x1, x2, f1, f2, df1, df2)\n            if node_name in m.leak_poly_coeffs_a:\n                m.leak_poly_coeffs_a[node_name].value = a\n                m.leak_poly_coeffs_b[node_name].value = b\n                m.leak_poly_coeffs_c[node_name].value = c\n                m.leak_poly_coeffs_d[node_name].value = d\n            else:\n                m.leak_poly_coeffs_a[node_name] = aml.Param(a)\n                m.leak_poly_coeffs_b[node_name] = aml.Param(b)\n                m.leak_poly_coeffs_c[node_name] = aml.Param(c)\n                m.leak_poly_coeffs_d[node_name] = aml.Param(d)\n\n            updater.add(node, 'leak_discharge_coeff', leak_poly_coeffs_param.update)\n            updater.add(node, 'leak_area', leak_poly_coeffs_param.update)\n", new="        for name in index_over:\n            leaky = wn.get_node(name)\n            cd_area = leaky.leak_discharge_coeff*leaky.leak_area\n            delta = m.leak_delta\n            coeffs = cubic_spline(0.0, delta, 0.0, cd_area*math.sqrt(2.0*9.81*delta), m.leak_slope, 0.5*cd_area*(2.0*9.81)**0.5/delta**0.5)\n            a, b, c, d = coeffs\n            if name not in m.leak_poly_coeffs_a:\n                m.leak_poly_coeffs_d[name] = aml.Param(d)\n                m.leak_poly_coeffs_c[name] = aml.Param(c)\n                m.leak_poly_coeffs_b[name] = aml.Param(b)\n                m.leak_poly_coeffs_a[name] = aml.Param(a)\n            else:\n                m.leak_poly_coeffs_a[name].value = a\n                m.leak_poly_coeffs_b[name].value = b\n                m.leak_poly_coeffs_c[name].value = c\n                m.leak_poly_coeffs_d[name].value = d\n\n            updater.add(leaky, 'leak_area', leak_poly_coeffs_param.update)\n            updater.add(leaky, 'leak_discharge_coeff', leak_poly_coeffs_param.update)\n", silent=True),
    dict(name='leak-spline-update-branch-swaps-coefficients', file=PAR, old='                m.leak_poly_coeffs_a[node_name].value = a\n                m.leak_poly_coeffs_b[node_name].value = b\n', new='                m.leak_poly_coeffs_a[node_name].value = b\n                m.leak_poly_coeffs_b[node_name].value = a\n', rule='R-C08-1'),
    dict(name='leak-coeff-param-renamed-hoisted-preserving', file=PAR, old="        for node_name in index_over:\n            node = wn.get_node(node_name)\n            if node_name in m.leak_coeff:\n                m.leak_coeff[node_name].value = node.leak_discharge_coeff\n            else:\n                m.leak_coeff[node_name] = aml.Param(node.leak_discharge_coeff)\n\n            updater.add(node, 'leak_discharge_coeff', leak_coeff_param.update)\n", new="        for name in index_over:\n            leaky = wn.get_node(name)\n            cd = leaky.leak_discharge_coeff\n            if name in m.leak_coeff:\n                m.leak_coeff[name].value = cd\n            else:\n                m.leak_coeff[name] = aml.Param(cd)\n\n            updater.add(leaky, 'leak_discharge_coeff', leak_coeff_param.update)\n", silent=True),
    dict(name='leak-row-default-index-includes-reservoirs', file=CON, old='        if index_over is None:\n            index_over = wn.junction_name_list + wn.tank_name_list\n\n        for node_name in index_over:\n            if node_name in m.leak_con:', new='        names = wn.node_name_list if index_over is None else index_over\n\n        for node_name in names:\n            if node_name in m.leak_con:', rule='R-C08-2'),
    dict(name='leak-row-head-by-conditional-expression-swapped', file=CON, old='                if isinstance(node, wntr.network.Junction):\n                    h = m.head[node_name]\n                    elev = m.elevation[node_name]\n                else:\n                    h = m.source_head[node_name]\n                    elev = node.elevation\n', new='                is_tank = not isinstance(node, wntr.network.Junction)\n                h = m.head[node_name] if is_tank else m.source_head[node_name]\n                elev = node.elevation if is_tank else m.elevation[node_name]\n', rule='R-C08-2'),
    dict(name='leak-row-head-by-negated-temporary-preserving', file=CON, old='                if isinstance(node, wntr.network.Junction):\n                    h = m.head[node_name]\n                    elev = m.elevation[node_name]\n                else:\n                    h = m.source_head[node_name]\n                    elev = node.elevation\n', new='                is_tank = not isinstance(node, wntr.network.Junction)\n                h = m.source_head[node_name] if is_tank else m.head[node_name]\n                elev = node.elevation if is_tank else m.elevation[node_name]\n', silent=True),
    dict(name='leak-row-guard-drops-isolation', file=CON, old='            if node.leak_status and not node._is_isolated:\n                leak_rate = m.leak_rate[node_name]\n', new='            if node.leak_status:\n                leak_rate = m.leak_rate[node_name]\n', rule='R-C08-1'),
    dict(name='leak-row-guard-or-instead-of-and', file=CON, old='            if node.leak_status and not node._is_isolated:\n                leak_rate = m.leak_rate[node_name]\n', new='            if node.leak_status or not node._is_isolated:\n                leak_rate = m.leak_rate[node_name]\n', rule='R-C08-1'),
    dict(name='leak-branch-guard-lower-bound-form-reversed', file=CON, old='con.add_condition(aml.inequality(h, ub=elev), leak_rate - slope*(h-elev))', new='con.add_condition(aml.inequality(h - elev, lb=0), leak_rate - slope*(h-elev))', rule='R-C08-1'),
    dict(name='junction-results-early-continue-renamed-preserving', file=HYD, old="    for name, node in wn.junctions():\n        if node._is_isolated:\n            # zero pressure: the head of a cut-off junction is its elevation (a head of 0 would be read as a\n            # real head by the status rules of check valves, pumps and tanks when the network lies below datum 0)\n            node._head = node.elevation\n            node._demand = 0\n            node._pressure = 0\n            node._leak_demand = 0\n        else:\n            node._head = m.head[name].value\n            node._pressure = m.head[name].value - node.elevation\n            if mode in ['PDD', 'PDA']:\n                node._demand = m.demand[name].value\n            else:\n                node._demand = m.expected_demand[name].value\n            if node.leak_status:\n                node._leak_demand = m.leak_rate[name].value\n            else:\n                node._leak_demand = 0\n", new="    for jname, junction in wn.junctions():\n        junction._leak_demand = 0\n        if junction._is_isolated:\n            junction._head = junction.elevation\n            junction._demand = 0\n            junction._pressure = 0\n            continue\n        head = m.head[jname].value\n        junction._head = head\n        junction._pressure = head - junction.elevation\n        demand_var = m.demand if mode in ['PDD', 'PDA'] else m.expected_demand\n        junction._demand = demand_var[jname].value\n        leak_var = m.leak_rate[jname]\n        if junction.leak_status:\n            junction._leak_demand = leak_var.value\n", silent=True),
    dict(name='junction-results-early-continue-keeps-stale-leak', file=HYD, old="    for name, node in wn.junctions():\n        if node._is_isolated:\n            # zero pressure: the head of a cut-off junction is its elevation (a head of 0 would be read as a\n            # real head by the status rules of check valves, pumps and tanks when the network lies below datum 0)\n            node._head = node.elevation\n            node._demand = 0\n            node._pressure = 0\n            node._leak_demand = 0\n        else:\n            node._head = m.head[name].value\n            node._pressure = m.head[name].value - node.elevation\n            if mode in ['PDD', 'PDA']:\n                node._demand = m.demand[name].value\n            else:\n                node._demand = m.expected_demand[name].value\n            if node.leak_status:\n                node._leak_demand = m.leak_rate[name].value\n            else:\n                node._leak_demand = 0\n", new="    for jname, junction in wn.junctions():\n        if junction.leak_status:\n            junction._leak_demand = m.leak_rate[jname].value\n        else:\n            junction._leak_demand = 0\n        if junction._is_isolated:\n            junction._head = junction.elevation\n            junction._demand = 0\n            junction._pressure = 0\n            continue\n        head = m.head[jname].value\n        junction._head = head\n        junction._pressure = head - junction.elevation\n        demand_var = m.demand if mode in ['PDD', 'PDA'] else m.expected_demand\n        junction._demand = demand_var[jname].value\n", rule='R-C08-6'),
    dict(name='junction-leak-demand-in-second-loop-preserving', file=HYD, old='            if node.leak_status:\n                node._leak_demand = m.leak_rate[name].value\n            else:\n                node._leak_demand = 0\n\n    for name, node in wn.tanks():\n', new='\n    for name, node in wn.junctions():\n        node._leak_demand = m.leak_rate[name].value if (node.leak_status and not node._is_isolated) else 0\n\n    for name, node in wn.tanks():\n', silent=True),
    dict(name='leak-spline-entries-zip-loop-preserving', file=PAR, old='            if node_name in m.leak_poly_coeffs_a:\n                m.leak_poly_coeffs_a[node_name].value = a\n                m.leak_poly_coeffs_b[node_name].value = b\n                m.leak_poly_coeffs_c[node_name].value = c\n                m.leak_poly_coeffs_d[node_name].value = d\n            else:\n                m.leak_poly_coeffs_a[node_name] = aml.Param(a)\n                m.leak_poly_coeffs_b[node_name] = aml.Param(b)\n                m.leak_poly_coeffs_c[node_name] = aml.Param(c)\n                m.leak_poly_coeffs_d[node_name] = aml.Param(d)\n', new='            already_defined = node_name in m.leak_poly_coeffs_a\n            for coeff_dict, coeff in zip((m.leak_poly_coeffs_a, m.leak_poly_coeffs_b, m.leak_poly_coeffs_c, m.leak_poly_coeffs_d), (a, b, c, d)):\n                if already_defined:\n                    coeff_dict[node_name].value = coeff\n                else:\n                    coeff_dict[node_name] = aml.Param(coeff)\n', silent=True),
    dict(name='leak-spline-entries-zip-loop-misaligned', file=PAR, old='            if node_name in m.leak_poly_coeffs_a:\n                m.leak_poly_coeffs_a[node_name].value = a\n                m.leak_poly_coeffs_b[node_name].value = b\n                m.leak_poly_coeffs_c[node_name].value = c\n                m.leak_poly_coeffs_d[node_name].value = d\n            else:\n                m.leak_poly_coeffs_a[node_name] = aml.Param(a)\n                m.leak_poly_coeffs_b[node_name] = aml.Param(b)\n                m.leak_poly_coeffs_c[node_name] = aml.Param(c)\n                m.leak_poly_coeffs_d[node_name] = aml.Param(d)\n', new='            already_defined = node_name in m.leak_poly_coeffs_a\n            for coeff_dict, coeff in zip((m.leak_poly_coeffs_a, m.leak_poly_coeffs_b, m.leak_poly_coeffs_c, m.leak_poly_coeffs_d), (a, b, d, c)):\n                if already_defined:\n                    coeff_dict[node_name].value = coeff\n                else:\n                    coeff_dict[node_name] = aml.Param(coeff)\n', rule='R-C08-1'),
    # ---- R-C08-8 (a refused add_leak changes nothing) and R-C08-9 (remove_leak finds its controls by what they do): the reverted repairs, equivalent spellings, wrong twins
    dict(name='add-leak-refusal-check-reverted', file=ELEM, old='        # refuse before anything is changed: a second leak on the same node must not rewrite the one in force\n        for control_name, when in ((self._leak_start_control_name, start_time), (self._leak_end_control_name, end_time)):\n            if when is not None and control_name in wn.control_name_list:\n                raise ValueError(\'Node {} already has a leak control ({}); call remove_leak first\'.format(self.name, control_name))\n\n        self._leak = True\n        self._leak_area = area\n        self._leak_discharge_coeff = discharge_coeff\n\n        if start_time is not None:\n            start_control_action = ControlAction(self, \'leak_status\', True)\n            control = Control._time_control(wn, start_time, \'SIM_TIME\', False, start_control_action)\n            wn.add_control(self._leak_start_control_name, control)\n\n        if end_time is not None:\n            end_control_action = ControlAction(self, \'leak_status\', False)\n            control = Control._time_control(wn, end_time, \'SIM_TIME\', False, end_control_action)\n            wn.add_control(self._leak_end_control_name, control)\n\n    def remove_leak(self,wn):\n        """\n        Remove a leak control', new='        self._leak = True\n        self._leak_area = area\n        self._leak_discharge_coeff = discharge_coeff\n\n        if start_time is not None:\n            start_control_action = ControlAction(self, \'leak_status\', True)\n            control = Control._time_control(wn, start_time, \'SIM_TIME\', False, start_control_action)\n            wn.add_control(self._leak_start_control_name, control)\n\n        if end_time is not None:\n            end_control_action = ControlAction(self, \'leak_status\', False)\n            control = Control._time_control(wn, end_time, \'SIM_TIME\', False, end_control_action)\n            wn.add_control(self._leak_end_control_name, control)\n\n    def remove_leak(self,wn):\n        """\n        Remove a leak control', rule='R-C08-8'),
    dict(name='add-leak-refusal-explicit-tests-hoisted-registry-preserving', file=ELEM, old='        # refuse before anything is changed: a second leak on the same node must not rewrite the one in force\n        for control_name, when in ((self._leak_start_control_name, start_time), (self._leak_end_control_name, end_time)):\n            if when is not None and control_name in wn.control_name_list:\n                raise ValueError(\'Node {} already has a leak control ({}); call remove_leak first\'.format(self.name, control_name))\n\n        self._leak = True\n        self._leak_area = area\n        self._leak_discharge_coeff = discharge_coeff\n\n        if start_time is not None:\n            start_control_action = ControlAction(self, \'leak_status\', True)\n            control = Control._time_control(wn, start_time, \'SIM_TIME\', False, start_control_action)\n            wn.add_control(self._leak_start_control_name, control)\n\n        if end_time is not None:\n            end_control_action = ControlAction(self, \'leak_status\', False)\n            control = Control._time_control(wn, end_time, \'SIM_TIME\', False, end_control_action)\n            wn.add_control(self._leak_end_control_name, control)\n\n    def remove_leak(self,wn):\n        """\n        Remove a leak control', new='        existing = set(wn.control_name_list)\n        if start_time is not None:\n            if self._leak_start_control_name in existing:\n                raise ValueError(\'Node {} already has a leak control\'.format(self.name))\n        if not (end_time is None or self._leak_end_control_name not in existing):\n            raise ValueError(\'Node {} already has a leak control\'.format(self.name))\n\n        self._leak = True\n        self._leak_area = area\n        self._leak_discharge_coeff = discharge_coeff\n\n        if start_time is not None:\n            start_control_action = ControlAction(self, \'leak_status\', True)\n            control = Control._time_control(wn, start_time, \'SIM_TIME\', False, start_control_action)\n            wn.add_control(self._leak_start_control_name, control)\n\n        if end_time is not None:\n            end_control_action = ControlAction(self, \'leak_status\', False)\n            control = Control._time_control(wn, end_time, \'SIM_TIME\', False, end_control_action)\n            wn.add_control(self._leak_end_control_name, control)\n\n    def remove_leak(self,wn):\n        """\n        Remove a leak control', silent=True),
    dict(name='add-leak-refusal-controls-first-fields-last-preserving', file=ELEM, old='        # refuse before anything is changed: a second leak on the same node must not rewrite the one in force\n        for control_name, when in ((self._leak_start_control_name, start_time), (self._leak_end_control_name, end_time)):\n            if when is not None and control_name in wn.control_name_list:\n                raise ValueError(\'Node {} already has a leak control ({}); call remove_leak first\'.format(self.name, control_name))\n\n        self._leak = True\n        self._leak_area = area\n        self._leak_discharge_coeff = discharge_coeff\n\n        if start_time is not None:\n            start_control_action = ControlAction(self, \'leak_status\', True)\n            control = Control._time_control(wn, start_time, \'SIM_TIME\', False, start_control_action)\n            wn.add_control(self._leak_start_control_name, control)\n\n        if end_time is not None:\n            end_control_action = ControlAction(self, \'leak_status\', False)\n            control = Control._time_control(wn, end_time, \'SIM_TIME\', False, end_control_action)\n            wn.add_control(self._leak_end_control_name, control)\n\n    def remove_leak(self,wn):\n        """\n        Remove a leak control', new='        # refuse before anything is changed: a second leak on the same node must not rewrite the one in force\n        for control_name, when in ((self._leak_start_control_name, start_time), (self._leak_end_control_name, end_time)):\n            if when is not None and control_name in wn.control_name_list:\n                raise ValueError(\'Node {} already has a leak control ({}); call remove_leak first\'.format(self.name, control_name))\n\n        if start_time is not None:\n            start_control_action = ControlAction(self, \'leak_status\', True)\n            control = Control._time_control(wn, start_time, \'SIM_TIME\', False, start_control_action)\n            wn.add_control(self._leak_start_control_name, control)\n\n        if end_time is not None:\n            end_control_action = ControlAction(self, \'leak_status\', False)\n            control = Control._time_control(wn, end_time, \'SIM_TIME\', False, end_control_action)\n            wn.add_control(self._leak_end_control_name, control)\n\n        self._leak = True\n        self._leak_area = area\n        self._leak_discharge_coeff = discharge_coeff\n\n    def remove_leak(self,wn):\n        """\n        Remove a leak control', silent=True),
    dict(name='add-leak-refusal-tests-only-the-start-control', file=ELEM, old='        # refuse before anything is changed: a second leak on the same node must not rewrite the one in force\n        for control_name, when in ((self._leak_start_control_name, start_time), (self._leak_end_control_name, end_time)):\n            if when is not None and control_name in wn.control_name_list:\n                raise ValueError(\'Node {} already has a leak control ({}); call remove_leak first\'.format(self.name, control_name))\n\n        self._leak = True\n        self._leak_area = area\n        self._leak_discharge_coeff = discharge_coeff\n\n        if start_time is not None:\n            start_control_action = ControlAction(self, \'leak_status\', True)\n            control = Control._time_control(wn, start_time, \'SIM_TIME\', False, start_control_action)\n            wn.add_control(self._leak_start_control_name, control)\n\n        if end_time is not None:\n            end_control_action = ControlAction(self, \'leak_status\', False)\n            control = Control._time_control(wn, end_time, \'SIM_TIME\', False, end_control_action)\n            wn.add_control(self._leak_end_control_name, control)\n\n    def remove_leak(self,wn):\n        """\n        Remove a leak control', new='        if start_time is not None and self._leak_start_control_name in wn.control_name_list:\n            raise ValueError(\'Node {} already has a leak control\'.format(self.name))\n\n        self._leak = True\n        self._leak_area = area\n        self._leak_discharge_coeff = discharge_coeff\n\n        if start_time is not None:\n            start_control_action = ControlAction(self, \'leak_status\', True)\n            control = Control._time_control(wn, start_time, \'SIM_TIME\', False, start_control_action)\n            wn.add_control(self._leak_start_control_name, control)\n\n        if end_time is not None:\n            end_control_action = ControlAction(self, \'leak_status\', False)\n            control = Control._time_control(wn, end_time, \'SIM_TIME\', False, end_control_action)\n            wn.add_control(self._leak_end_control_name, control)\n\n    def remove_leak(self,wn):\n        """\n        Remove a leak control', rule='R-C08-8'),
    dict(name='add-leak-refusal-after-the-fields-were-written', file=ELEM, old='        # refuse before anything is changed: a second leak on the same node must not rewrite the one in force\n        for control_name, when in ((self._leak_start_control_name, start_time), (self._leak_end_control_name, end_time)):\n            if when is not None and control_name in wn.control_name_list:\n                raise ValueError(\'Node {} already has a leak control ({}); call remove_leak first\'.format(self.name, control_name))\n\n        self._leak = True\n        self._leak_area = area\n        self._leak_discharge_coeff = discharge_coeff\n\n        if start_time is not None:\n            start_control_action = ControlAction(self, \'leak_status\', True)\n            control = Control._time_control(wn, start_time, \'SIM_TIME\', False, start_control_action)\n            wn.add_control(self._leak_start_control_name, control)\n\n        if end_time is not None:\n            end_control_action = ControlAction(self, \'leak_status\', False)\n            control = Control._time_control(wn, end_time, \'SIM_TIME\', False, end_control_action)\n            wn.add_control(self._leak_end_control_name, control)\n\n    def remove_leak(self,wn):\n        """\n        Remove a leak control', new='        self._leak = True\n        self._leak_area = area\n        self._leak_discharge_coeff = discharge_coeff\n\n        # refuse before anything is changed: a second leak on the same node must not rewrite the one in force\n        for control_name, when in ((self._leak_start_control_name, start_time), (self._leak_end_control_name, end_time)):\n            if when is not None and control_name in wn.control_name_list:\n                raise ValueError(\'Node {} already has a leak control ({}); call remove_leak first\'.format(self.name, control_name))\n\n        if start_time is not None:\n            start_control_action = ControlAction(self, \'leak_status\', True)\n            control = Control._time_control(wn, start_time, \'SIM_TIME\', False, start_control_action)\n            wn.add_control(self._leak_start_control_name, control)\n\n        if end_time is not None:\n            end_control_action = ControlAction(self, \'leak_status\', False)\n            control = Control._time_control(wn, end_time, \'SIM_TIME\', False, end_control_action)\n            wn.add_control(self._leak_end_control_name, control)\n\n    def remove_leak(self,wn):\n        """\n        Remove a leak control', rule='R-C08-8'),
    dict(name='add-leak-unchecked-controls-first-fields-last', file=ELEM, old='        # refuse before anything is changed: a second leak on the same node must not rewrite the one in force\n        for control_name, when in ((self._leak_start_control_name, start_time), (self._leak_end_control_name, end_time)):\n            if when is not None and control_name in wn.control_name_list:\n                raise ValueError(\'Node {} already has a leak control ({}); call remove_leak first\'.format(self.name, control_name))\n\n        self._leak = True\n        self._leak_area = area\n        self._leak_discharge_coeff = discharge_coeff\n\n        if start_time is not None:\n            start_control_action = ControlAction(self, \'leak_status\', True)\n            control = Control._time_control(wn, start_time, \'SIM_TIME\', False, start_control_action)\n            wn.add_control(self._leak_start_control_name, control)\n\n        if end_time is not None:\n            end_control_action = ControlAction(self, \'leak_status\', False)\n            control = Control._time_control(wn, end_time, \'SIM_TIME\', False, end_control_action)\n            wn.add_control(self._leak_end_control_name, control)\n\n    def remove_leak(self,wn):\n        """\n        Remove a leak control', new='        if start_time is not None:\n            start_control_action = ControlAction(self, \'leak_status\', True)\n            control = Control._time_control(wn, start_time, \'SIM_TIME\', False, start_control_action)\n            wn.add_control(self._leak_start_control_name, control)\n\n        if end_time is not None:\n            end_control_action = ControlAction(self, \'leak_status\', False)\n            control = Control._time_control(wn, end_time, \'SIM_TIME\', False, end_control_action)\n            wn.add_control(self._leak_end_control_name, control)\n\n        self._leak = True\n        self._leak_area = area\n        self._leak_discharge_coeff = discharge_coeff\n\n    def remove_leak(self,wn):\n        """\n        Remove a leak control', rule='R-C08-8'),
    dict(name='remove-leak-by-target-reverted', file=ELEM, old="        # the leak controls may have lost their names (from_dict, convert_controls_to_rules): discard every control\n        # that does nothing but switch this node's leak on or off\n        for control_name, control in list(wn.controls()):\n            targets = [action.target() for action in control.actions()]\n            if targets and all(obj is self and attr == 'leak_status' for obj, attr in targets):\n                wn._discard_control(control_name)\n        \n    def add_fire_fighting_demand", new='        \n    def add_fire_fighting_demand', rule='R-C08-9'),
    dict(name='remove-leak-by-target-through-names-and-get-control-preserving', file=ELEM, old="        # the leak controls may have lost their names (from_dict, convert_controls_to_rules): discard every control\n        # that does nothing but switch this node's leak on or off\n        for control_name, control in list(wn.controls()):\n            targets = [action.target() for action in control.actions()]\n            if targets and all(obj is self and attr == 'leak_status' for obj, attr in targets):\n                wn._discard_control(control_name)\n        \n    def add_fire_fighting_demand", new="        for control_name in wn.control_name_list:\n            actions = wn.get_control(control_name).actions()\n            foreign = [a for a in actions if a.target() != (self, 'leak_status')]\n            if len(actions) > 0 and not foreign:\n                wn.remove_control(control_name)\n        \n    def add_fire_fighting_demand", silent=True),
    dict(name='remove-leak-discards-controls-that-also-do-other-things', file=ELEM, old="        # the leak controls may have lost their names (from_dict, convert_controls_to_rules): discard every control\n        # that does nothing but switch this node's leak on or off\n        for control_name, control in list(wn.controls()):\n            targets = [action.target() for action in control.actions()]\n            if targets and all(obj is self and attr == 'leak_status' for obj, attr in targets):\n                wn._discard_control(control_name)\n        \n    def add_fire_fighting_demand", new="        # the leak controls may have lost their names (from_dict, convert_controls_to_rules): discard every control\n        # that does nothing but switch this node's leak on or off\n        for control_name, control in list(wn.controls()):\n            targets = [action.target() for action in control.actions()]\n            if any(obj is self and attr == 'leak_status' for obj, attr in targets):\n                wn._discard_control(control_name)\n        \n    def add_fire_fighting_demand", rule='R-C08-9'),
    dict(name='remove-leak-discards-leak-controls-of-other-nodes', file=ELEM, old="        # the leak controls may have lost their names (from_dict, convert_controls_to_rules): discard every control\n        # that does nothing but switch this node's leak on or off\n        for control_name, control in list(wn.controls()):\n            targets = [action.target() for action in control.actions()]\n            if targets and all(obj is self and attr == 'leak_status' for obj, attr in targets):\n                wn._discard_control(control_name)\n        \n    def add_fire_fighting_demand", new="        # the leak controls may have lost their names (from_dict, convert_controls_to_rules): discard every control\n        # that does nothing but switch this node's leak on or off\n        for control_name, control in list(wn.controls()):\n            targets = [action.target() for action in control.actions()]\n            if targets and all(attr == 'leak_status' for obj, attr in targets):\n                wn._discard_control(control_name)\n        \n    def add_fire_fighting_demand", rule='R-C08-9'),
    dict(name='add-leak-controls-by-module-helper-with-schedule-table-preserving', file=ELEM, old='        if start_time is not None:\n            start_control_action = ControlAction(self, \'leak_status\', True)\n            control = Control._time_control(wn, start_time, \'SIM_TIME\', False, start_control_action)\n            wn.add_control(self._leak_start_control_name, control)\n\n        if end_time is not None:\n            end_control_action = ControlAction(self, \'leak_status\', False)\n            control = Control._time_control(wn, end_time, \'SIM_TIME\', False, end_control_action)\n            wn.add_control(self._leak_end_control_name, control)\n\n    def remove_leak(self,wn):\n        """\n        Remove a leak control', new='        _add_leak_time_controls(self, wn, start_time, end_time)\n\n    def remove_leak(self,wn):\n        """\n        Remove a leak control', also=[('class Junction(Node):\n', "def _add_leak_time_controls(node, wn, start_time, end_time):\n    from wntr.network.controls import ControlAction, Control\n    schedule = ((start_time, True, node._leak_start_control_name),\n                (end_time, False, node._leak_end_control_name))\n    for switch_time, leak_status, control_name in schedule:\n        if switch_time is None:\n            continue\n        control_action = ControlAction(node, 'leak_status', leak_status)\n        control = Control._time_control(wn, switch_time, 'SIM_TIME', False, control_action)\n        wn.add_control(control_name, control)\n\n\nclass Junction(Node):\n")], silent=True),
    # ---- round 2: coefficient look-ups as one getattr comprehension over 'abcd', head/elevation as conditional expressions on one flag
    dict(name='leak-row-coefficients-by-getattr-comprehension-preserving', file=CON, old='                leak_rate = m.leak_rate[node_name]\n                if isinstance(node, wntr.network.Junction):\n                    h = m.head[node_name]\n                    elev = m.elevation[node_name]\n                else:\n                    h = m.source_head[node_name]\n                    elev = node.elevation\n                delta = m.leak_delta\n                slope = m.leak_slope\n                a = m.leak_poly_coeffs_a[node_name]\n                b = m.leak_poly_coeffs_b[node_name]\n                c = m.leak_poly_coeffs_c[node_name]\n                d = m.leak_poly_coeffs_d[node_name]\n                area = m.leak_area[node_name]\n                Cd = m.leak_coeff[node_name]\n                con = aml.ConditionalExpression()\n                con.add_condition(aml.inequality(h, ub=elev), leak_rate - slope*(h-elev))\n                con.add_condition(aml.inequality(h - elev, ub=delta), leak_rate - (a*(h-elev)**3 + b*(h-elev)**2 + c*(h-elev) + d))\n                con.add_final_expr(leak_rate - Cd*area*(2.0*9.81*(h-elev))**0.5)\n                con = aml.Constraint(con)\n\n                m.leak_con[node_name] = con\n', new="                at_junction = isinstance(node, wntr.network.Junction)\n                h = m.head[node_name] if at_junction else m.source_head[node_name]\n                elev = m.elevation[node_name] if at_junction else node.elevation\n\n                leak_rate = m.leak_rate[node_name]\n                area = m.leak_area[node_name]\n                Cd = m.leak_coeff[node_name]\n                a, b, c, d = [getattr(m, 'leak_poly_coeffs_' + key)[node_name] for key in 'abcd']\n\n                residual = aml.ConditionalExpression()\n                residual.add_condition(aml.inequality(h, ub=elev),\n                                       leak_rate - m.leak_slope*(h-elev))\n                residual.add_condition(aml.inequality(h - elev, ub=m.leak_delta),\n                                       leak_rate - (a*(h-elev)**3 + b*(h-elev)**2 + c*(h-elev) + d))\n                residual.add_final_expr(leak_rate - Cd*area*(2.0*9.81*(h-elev))**0.5)\n\n                m.leak_con[node_name] = aml.Constraint(residual)\n", silent=True),
    dict(name='leak-row-coefficients-by-getattr-comprehension-misordered', file=CON, old='                leak_rate = m.leak_rate[node_name]\n                if isinstance(node, wntr.network.Junction):\n                    h = m.head[node_name]\n                    elev = m.elevation[node_name]\n                else:\n                    h = m.source_head[node_name]\n                    elev = node.elevation\n                delta = m.leak_delta\n                slope = m.leak_slope\n                a = m.leak_poly_coeffs_a[node_name]\n                b = m.leak_poly_coeffs_b[node_name]\n                c = m.leak_poly_coeffs_c[node_name]\n                d = m.leak_poly_coeffs_d[node_name]\n                area = m.leak_area[node_name]\n                Cd = m.leak_coeff[node_name]\n                con = aml.ConditionalExpression()\n                con.add_condition(aml.inequality(h, ub=elev), leak_rate - slope*(h-elev))\n                con.add_condition(aml.inequality(h - elev, ub=delta), leak_rate - (a*(h-elev)**3 + b*(h-elev)**2 + c*(h-elev) + d))\n                con.add_final_expr(leak_rate - Cd*area*(2.0*9.81*(h-elev))**0.5)\n                con = aml.Constraint(con)\n\n                m.leak_con[node_name] = con\n', new="                at_junction = isinstance(node, wntr.network.Junction)\n                h = m.head[node_name] if at_junction else m.source_head[node_name]\n                elev = m.elevation[node_name] if at_junction else node.elevation\n\n                leak_rate = m.leak_rate[node_name]\n                area = m.leak_area[node_name]\n                Cd = m.leak_coeff[node_name]\n                a, b, c, d = [getattr(m, 'leak_poly_coeffs_' + key)[node_name] for key in 'abdc']\n\n                residual = aml.ConditionalExpression()\n                residual.add_condition(aml.inequality(h, ub=elev),\n                                       leak_rate - m.leak_slope*(h-elev))\n                residual.add_condition(aml.inequality(h - elev, ub=m.leak_delta),\n                                       leak_rate - (a*(h-elev)**3 + b*(h-elev)**2 + c*(h-elev) + d))\n                residual.add_final_expr(leak_rate - Cd*area*(2.0*9.81*(h-elev))**0.5)\n\n                m.leak_con[node_name] = aml.Constraint(residual)\n", rule='R-C08-1'),
]
