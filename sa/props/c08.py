"""C08 -- leaks discharge Cd*A*sqrt(2 g p) only while active and only at positive pressure."""
import ast
import itertools
import re

import sympy as sp

from ..src import walk, calls, call_name, dotted, const, loc, unparse, norm, AnchorError, ExtractError, attr_stores
from ..symx import SymExec, Opaque, CondExpr, Constraint, Ineq, State, is_zero
from .. import builders as B
from ..builders import canon, canon_symbol as cs
from .c07 import spline_hook

CON, PAR = B.CONSTRAINT, B.PARAM
VAR = "wntr/sim/models/var.py"
ELEM = "wntr/network/elements.py"
CTRL = "wntr/network/controls.py"
HYD = "wntr/sim/hydraulics.py"
BASE = "wntr/network/base.py"

EXPLANATION = (
    "Formula extraction of leak_constraint (three-branch residual: s*p below zero pressure, smoothing cubic on [0, delta], Cd*A*sqrt(2*9.81*p) "
    "above) and of leak_poly_coeffs_param (spline data must equal value/derivative of the neighbours at 0 and delta = 1e-4 m); index-domain rule: "
    "a builder whose index set contains tanks may subscript with the node name only model dictionaries whose own builders cover tanks; "
    "leak_status guards and update triggers; add_leak creates a start control (sim-time eq start_time -> leak_status True) and an end control "
    "(eq end_time -> False) as pre-solve, non-repeating SimTime controls in both sibling implementations; remove_leak undoes everything "
    "add_leak (and its controls) switched on, including the run-time switch the simulator reads.")
RULE_TEXT = "one instance = one branch formula / breakpoint datum / (builder, dictionary) index-domain pair / control-construction fact"
ASSUMPTIONS = ["Cd, A > 0", "timing of the start/end controls is the time-control mechanism of C04"]

# name-list atoms and what they cover
COVERS = {"node_name_list": {"junction", "tank", "reservoir"}, "junction_name_list": {"junction"}, "tank_name_list": {"tank"}, "reservoir_name_list": {"reservoir"},
          "link_name_list": {"pipe", "head_pump", "power_pump", "prv", "psv", "pbv", "tcv", "fcv", "gpv"}, "pipe_name_list": {"pipe"},
          "pump_name_list": {"head_pump", "power_pump"}, "head_pump_name_list": {"head_pump"}, "power_pump_name_list": {"power_pump"},
          "valve_name_list": {"prv", "psv", "pbv", "tcv", "fcv", "gpv"}, "prv_name_list": {"prv"}, "psv_name_list": {"psv"}, "pbv_name_list": {"pbv"},
          "tcv_name_list": {"tcv"}, "fcv_name_list": {"fcv"}, "gpv_name_list": {"gpv"},
          "junctions()": {"junction"}, "tanks()": {"tank"}, "reservoirs()": {"reservoir"}, "links()": {"pipe", "head_pump", "power_pump", "prv", "psv", "pbv", "tcv", "fcv", "gpv"},
          "nodes()": {"junction", "tank", "reservoir"}, "valves()": {"prv", "psv", "pbv", "tcv", "fcv", "gpv"}, "pipes()": {"pipe"}}


def kinds_of(expr_text):
    out = set()
    for atom in re.findall(r"wn\.(\w+(?:\(\))?)", expr_text):
        if atom in COVERS:
            out |= COVERS[atom]
        else:
            return None
    return out


def builder_functions(repo):
    """[(rel, qual, fn)] for var functions, param functions/classes, constraint classes."""
    out = []
    for rel in (VAR, PAR, CON):
        t = repo.tree(rel)
        for n in t.body:
            if isinstance(n, ast.FunctionDef) and [a.arg for a in n.args.args][:2] == ["m", "wn"]:
                n._rel, n._qual = rel, n.name
                out.append((rel, n.name, n))
            if isinstance(n, ast.ClassDef):
                for mth in n.body:
                    if isinstance(mth, ast.FunctionDef) and mth.name == "build":
                        mth._rel, mth._qual = rel, n.name + ".build"
                        out.append((rel, n.name + ".build", mth))
    return out


def index_domains(repo):
    """per builder: (defined dicts -> kinds), (default index kinds), [(dict, lineno) subscripted by the index variable]."""
    defs = {}
    uses = []
    for rel, qual, fn in builder_functions(repo):
        # default index: assignment `index_over = <expr>` under `if index_over is None`
        default = None
        for n in walk(fn):
            if isinstance(n, ast.If) and unparse(n.test) == "index_over is None":
                for s in n.body:
                    if isinstance(s, ast.Assign) and dotted(s.targets[0]) == "index_over":
                        default = kinds_of(unparse(s.value))
        loops = [n for n in walk(fn) if isinstance(n, ast.For)]
        for lp in loops:
            it = unparse(lp.iter)
            if it == "index_over":
                kinds = default
                var = lp.target.id if isinstance(lp.target, ast.Name) else None
            else:
                kinds = kinds_of(it)
                var = lp.target.elts[0].id if isinstance(lp.target, ast.Tuple) and isinstance(lp.target.elts[0], ast.Name) else (lp.target.id if isinstance(lp.target, ast.Name) else None)
            if kinds is None or var is None:
                continue
            for n in walk(lp):
                if isinstance(n, ast.Subscript) and isinstance(n.value, ast.Attribute) and dotted(n.value.value) == "m" and isinstance(n.slice, ast.Name) and n.slice.id == var:
                    dname = n.value.attr
                    par = getattr(n, "_parent", None)
                    is_def = isinstance(par, ast.Assign) and n in par.targets and isinstance(n.ctx, ast.Store)
                    if is_def:
                        defs.setdefault(dname, set()).update(kinds)
                    else:
                        # membership tests `x in m.d` are not subscripts; .value stores count as uses (the entry must exist)
                        uses.append((rel, qual, fn, dname, kinds, n))
    return defs, uses


def junction_guarded(n, fn):
    """'junction' if the subscript is under the true branch of an `isinstance(<node>, ...Junction)` test, 'other' if under its else branch."""
    q = n
    while q is not None and q is not fn:
        p = getattr(q, "_parent", None)
        if isinstance(p, ast.If) and "isinstance(" in unparse(p.test) and "Junction" in unparse(p.test) and not isinstance(p.test, ast.UnaryOp):
            if q in p.body:
                return "junction"
            if q in p.orelse:
                return "other"
        q = p
    return None


def prop_models(conds, limit=14):
    """propositional reading of path conditions {test text: truth value}: `not`, `and`, `or` and comparisons with a boolean literal
    (`A == False`, `A is True`, ...) are interpreted, every other test is an uninterpreted atom (its text).  -> all truth assignments of the
    atoms under which every condition has its recorded value ([] = the path is infeasible)."""
    leaves = []

    def build(node):
        if isinstance(node, ast.UnaryOp) and isinstance(node.op, ast.Not):
            f = build(node.operand)
            return lambda a: not f(a)
        if isinstance(node, ast.BoolOp):
            fs = [build(v) for v in node.values]
            if isinstance(node.op, ast.And):
                return lambda a: all(f(a) for f in fs)
            return lambda a: any(f(a) for f in fs)
        if isinstance(node, ast.Compare) and len(node.ops) == 1 and isinstance(node.ops[0], (ast.Eq, ast.Is, ast.NotEq, ast.IsNot)):
            x, y = node.left, node.comparators[0]
            if isinstance(x, ast.Constant) and isinstance(x.value, bool):
                x, y = y, x
            if isinstance(y, ast.Constant) and isinstance(y.value, bool):
                f = build(x)
                pos = isinstance(node.ops[0], (ast.Eq, ast.Is)) == y.value
                return (lambda a: f(a)) if pos else (lambda a: not f(a))
        if isinstance(node, ast.Constant) and isinstance(node.value, bool):
            return lambda a, v=node.value: v
        txt = node if isinstance(node, str) else unparse(node)
        if txt not in leaves:
            leaves.append(txt)
        return lambda a: a[txt]
    fs = []
    for k, v in conds.items():
        try:
            node = ast.parse(k, mode="eval").body
        except SyntaxError:
            node = k
        fs.append((build(node), bool(v)))
    if len(leaves) > limit:
        raise ExtractError("too many independent tests on one path (%d)" % len(leaves))
    out = []
    for bits in itertools.product((True, False), repeat=len(leaves)):
        a = dict(zip(leaves, bits))
        if all(bool(f(a)) == v for f, v in fs):
            out.append(a)
    return out


def prop_forced(atom, models):
    """truth value the atom has in every model: True / False / None (free, or not tested at all)"""
    vals = {m[atom] for m in models if atom in m}
    return vals.pop() if len(vals) == 1 else None


def value_cases(v, conds):
    """case analysis of a value computed by SymExec: an undecided conditional expression `a if T else b` is a Piecewise over the boolean
    atom '[T]'.  Every truth assignment of the atoms occurring in the value that the path conditions do not contradict is one case --
    exactly the paths the equivalent if/else statement would have produced.  -> [(conds extended by the atoms, leaf value)]"""
    if isinstance(v, Opaque):
        return [(conds, v.text)]
    if not isinstance(v, sp.Basic):
        return [(conds, v)]
    atoms = sorted((a for a in v.free_symbols if a.name.startswith("[") and a.name.endswith("]")), key=lambda a: a.name)
    if len(atoms) > 6:
        raise ExtractError("value depends on %d conditional-expression tests" % len(atoms))
    out = []
    for bits in itertools.product((True, False), repeat=len(atoms)):
        c2 = dict(conds)
        feasible = True
        for a, b in zip(atoms, bits):
            txt = a.name[1:-1]
            if c2.get(txt, b) != b:
                feasible = False
                break
            c2[txt] = b
        if not feasible:
            continue
        leaf = v.subs({a: (1 if b else 0) for a, b in zip(atoms, bits)})
        if isinstance(leaf, sp.Symbol):
            leaf = leaf.name
        elif leaf.is_Integer or leaf == 0:
            leaf = int(leaf)
        else:
            leaf = str(leaf)
        out.append((c2, leaf))
    return out


def leak_demand_cases(repo):
    """path- and case-sensitive summary of what store_results_in_network finally stores to <node>._leak_demand inside the junction and
    tank loops.  -> (fn, [(kind, key variable, node variable, conds, value or '<not stored>')]).  The loop variables are read from the loop
    header; branch tests and conditional expressions both become cases (conds: test text -> bool)."""
    fn = repo.func(HYD, "store_results_in_network")
    ex = SymExec()
    rows = []
    for o in ex.run(fn):
        if o.raised:
            continue
        conds = dict(o.conds)
        heads = {}
        for e in o.events:
            if e[0] == "loop" and e[2] in ("wn.junctions()", "wn.tanks()"):
                try:
                    tg = ast.parse(e[1], mode="eval").body
                except SyntaxError:
                    tg = None
                if not (isinstance(tg, ast.Tuple) and len(tg.elts) == 2 and all(isinstance(x, ast.Name) for x in tg.elts)):
                    raise ExtractError("store_results_in_network: loop over %s does not unpack (name, node)" % e[2])
                hv = (tg.elts[0].id, tg.elts[1].id)
                if heads.get(e[2], hv) != hv:
                    raise ExtractError("store_results_in_network: loops over %s with different variables" % e[2])
                heads[e[2]] = hv
        for ctx, (kv, nv) in heads.items():
            last = "<not stored>"
            for e in o.events:
                if e[0] == "store" and len(e) > 4 and e[4] and e[4][-1] == ctx and e[1] == nv + "._leak_demand":
                    last = e[2]
            for c2, leaf in value_cases(last, conds):
                rows.append(("junction" if ctx == "wn.junctions()" else "tank", kv, nv, c2, leaf))
    return fn, rows


def class_literals(repo, rel, cname):
    """class-level `NAME = <expr>` bindings (bound exactly once) of a class: name -> expression AST"""
    out, cnt = {}, {}
    for n in repo.cls(rel, cname).body:
        if isinstance(n, ast.Assign) and len(n.targets) == 1 and isinstance(n.targets[0], ast.Name):
            out[n.targets[0].id] = n.value
            cnt[n.targets[0].id] = cnt.get(n.targets[0].id, 0) + 1
    return {k: v for k, v in out.items() if cnt[k] == 1}


def private_attribute_of(repo, attribute):
    """the values ControlAction.__init__ finally stores to self._private_attribute when it is constructed with the given attribute name, over
    all paths that do not raise: symbolic execution with the parameter bound to the literal, so an if/elif chain, early exits, a conditional
    expression or a (class-level or local) lookup table all evaluate to the same answer.  -> (fn, set of values)"""
    cai = repo.func(CTRL, "ControlAction.__init__")
    lits = class_literals(repo, CTRL, "ControlAction")
    holder = []

    def attr_hook(base, attr, st):
        if isinstance(base, Opaque) and base.text in ("self", "ControlAction", "type(self)", "self.__class__") and attr in lits:
            return holder[0].ev(lits[attr], State())
        return NotImplemented
    ex = SymExec(attr_hook=attr_hook)
    holder.append(ex)
    vals = set()
    for o in ex.run(cai, env={"attribute": attribute}):
        if o.raised:
            continue
        st = [e for e in o.events if e[0] == "store" and e[1] == "self._private_attribute"]
        if not st:
            vals.add("<not stored>")
            continue
        for c2, leaf in value_cases(st[-1][2], dict(o.conds)):
            vals.add(leaf)
    return cai, vals


def run(repo, chk):
    h, elev = cs("h"), cs("elev")
    P = h - elev
    ELEV_SUB = {cs("elevation"): elev}
    delta, slope = cs("leak_delta"), cs("leak_slope")
    Cd, A = cs("leak_coeff"), cs("leak_area")
    leak = cs("leak_rate")
    g2 = sp.Rational("9.81") * 2

    # ---------------------------------------------------------------- R-C08-1 law
    fn, paths, ex = B.run_builder(repo, CON, "leak_constraint.build")
    chk.fn(fn)
    got_law = False
    for p in paths:
        st = p.stores("m.leak_con[")
        active = [v for t, v in p.conds if "leak_status" in t]
        if not st:
            chk.expect(bool(active) and not active[0], "R-C08-1", "no leak row unless the leak is active and the node connected", loc(fn), found=p.label)
            continue
        guard_ok = any(v and re.search(r"\.leak_status and not .*\._is_isolated$", t) for t, v in p.conds)
        chk.expect(guard_ok, "R-C08-1", "leak row exists only while leak_status is set and the node is not isolated", loc(fn), found=p.label)
        v = st[-1][1]
        if not (isinstance(v, Constraint) and isinstance(v.expr, CondExpr) and len(v.expr.branches) == 2):
            chk.bad("R-C08-1", "leak_constraint has three branches", loc(fn), found=str(v)[:100])
            continue
        brs = list(v.expr.branches) + [(None, v.expr.final)]
        a, b, c, d = (cs("leak_poly_coeffs_" + k) for k in "abcd")
        refs = [slope * P, a * P ** 3 + b * P ** 2 + c * P + d, Cd * A * sp.sqrt(g2 * P)]
        for i, (gd, e) in enumerate(brs):
            R, info = canon(ex.S(e))
            R = R.xreplace(ELEV_SUB)
            isj = [v_ for t_, v_ in p.conds if t_.startswith("isinstance(") and "Junction" in t_]
            if isj:
                want_h = "head" if isj[0] else "source_head"
                for nm_, i_ in info.get("h", []):
                    chk.expect(i_.get("dict") == want_h, "R-C08-1", "leak row reads the %s's head from m.%s" % ("junction" if isj[0] else "tank", want_h), loc(fn), found=nm_)
            tagj = "" if not isj else (" [junction]" if isj[0] else " [tank]")
            chk.expect(is_zero(R - (leak - refs[i])), "R-C08-1", "leak branch %d residual is  leak - %s%s" % (i, ["s*p", "cubic(p)", "Cd*A*sqrt(2*9.81*p)"][i], tagj), loc(fn),
                       "orifice law with p = head - elevation", expected=str(leak - refs[i]), found=str(R))
        gref = [P, P - delta]
        for i, (gd, e) in enumerate(brs[:2]):
            okg = isinstance(gd, Ineq) and gd.lb is None and gd.ub is not None and is_zero((canon(gd.body)[0] - canon(ex.S(gd.ub))[0]).xreplace(ELEV_SUB) - gref[i])
            chk.expect(bool(okg), "R-C08-1", "leak branch %d guard is %s <= 0%s" % (i, gref[i], tagj), loc(fn), found=str(gd))
        got_law = True
    chk.expect(got_law, "R-C08-1", "leak law located", loc(fn))
    B.check_updaters(chk, "R-C08-3", fn, "leak_constraint", paths, {"leak_status", "_is_isolated"}, loc(fn))
    for bn in ("mass_balance_constraint", "pdd_mass_balance_constraint"):
        f_, p_, e_ = B.run_builder(repo, CON, bn + ".build")
        B.check_updaters(chk, "R-C08-3", f_, bn, p_, {"leak_status"}, loc(f_))
        has = any(any(s_.name == "m.leak_rate[node_name]" for s_ in e_.S(st_[1].expr).free_symbols) for q_ in p_ if q_.has(".leak_status", True)
                  for st_ in q_.stores("m.") if isinstance(st_[1], Constraint) and not isinstance(st_[1].expr, CondExpr))
        chk.expect(has, "R-C08-3", "%s contains the leak-rate term while the leak is active" % bn, loc(f_))
    consts = B.constants(repo)
    dl, sl = consts.get("leak_delta"), consts.get("leak_slope")
    chk.expect(dl is not None and dl[0] == sp.Rational(1, 10000), "R-C08-1", "leak smoothing band is 0.1 mm of pressure head", loc(B.CONSTANTS), expected="1e-4", found=str(dl[0]) if dl else None)
    chk.expect(sl is not None and 0 < sl[0] < sp.Rational(1, 1000), "R-C08-1", "leak_slope is a small positive constant", loc(B.CONSTANTS), found=str(sl))
    # breakpoint agreement
    rec = []
    pfn, pp, pex = B.run_builder(repo, PAR, "leak_poly_coeffs_param.build", call_hook=spline_hook(rec))
    chk.fn(pfn)
    if len(rec) != 1:
        raise ExtractError("leak_poly_coeffs_param: expected one cubic_spline call per node, got %d" % len(rec))
    sub = {cs("leak_discharge_coeff"): Cd}
    x1, x2, f1, f2, df1, df2 = [canon(pex.S(v))[0].xreplace(sub) for v in rec[0]]
    q = sp.Symbol("qq", positive=True)
    orif = Cd * A * sp.sqrt(g2 * q)
    for nm, got, want in (("x1 = 0", x1, 0), ("x2 = delta", x2, delta), ("f1 = 0", f1, 0), ("df1 = leak_slope", df1, slope),
                          ("f2 = Cd*A*sqrt(2g*delta)", f2, orif.subs(q, delta)), ("df2 = d/dp Cd*A*sqrt(2g p) at delta", df2, sp.diff(orif, q).subs(q, delta))):
        chk.expect(is_zero(got - want), "R-C08-1", "leak spline data %s" % nm, loc(pfn), "the smoothing cubic must join the neighbouring branches with value and slope",
                   expected=str(want), found=str(got))
    p0 = pp[0]
    params = [e for e in p0.st.events if e[0] == "call" and e[1].startswith("aml.Param(")]
    stores = [s_ for s_ in p0.stores("m.leak_poly_coeffs_") if s_[0].endswith("[node_name]")]
    for (t, v, ln), pe, k in zip(stores, params, "abcd"):
        got = pe[2][1][0]
        chk.expect(t == "m.leak_poly_coeffs_%s[node_name]" % k and isinstance(got, Opaque) and got.text == "spline0.%s" % k, "R-C08-1", "%s receives spline coefficient %s" % (t, k), loc(pfn), found=got)
    B.check_updaters(chk, "R-C08-3", pfn, "leak_poly_coeffs_param", pp, {"leak_discharge_coeff", "leak_area"}, loc(pfn))
    for pname, attr in (("leak_coeff_param", "leak_discharge_coeff"), ("leak_area_param", "leak_area")):
        f2_, pths, e2 = B.run_builder(repo, PAR, pname + ".build")
        pr = [e for e in pths[0].st.events if e[0] == "call" and e[1].startswith("aml.Param(")]
        val = pr[-1][2][1][0] if pr else None
        chk.expect(isinstance(val, Opaque) and val.text.endswith("." + attr), "R-C08-3", "%s carries node.%s" % (pname, attr), loc(f2_), found=val)
        B.check_updaters(chk, "R-C08-3", f2_, pname, pths, {attr}, loc(f2_))
    chk.floor("R-C08-1", 3 + 2 + 2 + 6 + 4)

    # ---------------------------------------------------------------- R-C08-2 index domains
    defs, uses = index_domains(repo)
    n_pairs = 0
    seen_pairs = set()
    for rel, qual, fn_, dname, kinds, node in uses:
        if dname not in defs:
            continue
        jg = junction_guarded(node, fn_)
        if jg == "junction":
            kinds = kinds & {"junction"}
        elif jg == "other":
            kinds = kinds - {"junction"}
        key = (qual, dname, jg)
        if key in seen_pairs:
            continue
        seen_pairs.add(key)
        n_pairs += 1
        missing = kinds - defs[dname]
        chk.expect(not missing, "R-C08-2", "%s subscripts m.%s with its index variable only for element kinds m.%s is built for" % (qual, dname, dname), loc(rel, node),
                   "a model dictionary looked up with a name it was never built for raises KeyError inside the simulation (a leak on a tank needs tank entries)",
                   expected="m.%s covers %s" % (dname, sorted(kinds)), found="m.%s is built for %s only" % (dname, sorted(defs[dname])))
    chk.sample({"rule": "R-C08-2", "dict_domains": {k: sorted(v) for k, v in sorted(defs.items())}})
    chk.floor("R-C08-2", 30)

    # ---------------------------------------------------------------- R-C08-4 window / R-C08-5 inverse pair
    for cname in ("Junction", "Tank"):
        af = repo.func(ELEM, "%s.add_leak" % cname)
        rf = repo.func(ELEM, "%s.remove_leak" % cname)
        chk.fn(af, rf)
        exa = SymExec()
        outs = exa.run(af)
        full = [o for o in outs if all(v for t, v in o.conds if "is not None" in t)]
        if not full:
            raise ExtractError("%s.add_leak: no path with both times given" % cname)
        o = full[0]
        tcs = [e for e in o.events if e[0] == "call" and e[1].startswith("Control._time_control(")]
        acts = [e for e in o.events if e[0] == "call" and e[1].startswith("ControlAction(")]
        adds = [e for e in o.events if e[0] == "call" and e[1].startswith("wn.add_control(")]
        okw = len(tcs) == 2 and len(acts) == 2 and len(adds) == 2
        chk.expect(okw, "R-C08-4", "%s.add_leak creates a start and an end control" % cname, loc(af), found=(len(tcs), len(acts), len(adds)))
        if okw:
            for i, (when, val, cn) in enumerate((("start_time", True, "_leak_start_control_name"), ("end_time", False, "_leak_end_control_name"))):
                a_args = acts[i][2][1]
                t_args = tcs[i][2][1]
                chk.expect(a_args[0] == Opaque("self") and a_args[1] == "leak_status" and a_args[2] is val, "R-C08-4",
                           "%s.add_leak: %s control sets leak_status %s on this node" % (cname, when, val), loc(af), found=a_args)
                okt = t_args[0] == Opaque("wn") and t_args[1] == Opaque(when) and t_args[2] == "SIM_TIME" and t_args[3] is False and isinstance(t_args[4], Opaque) and t_args[4].text.startswith("ControlAction(self, 'leak_status', %s" % val)
                chk.expect(okt, "R-C08-4", "%s.add_leak: %s control is a non-repeating simulation-time control at %s" % (cname, when, when), loc(af), found=t_args)
                chk.expect(adds[i][2][1][0] == Opaque("self." + cn), "R-C08-4", "%s.add_leak registers the %s control under %s" % (cname, when, cn), loc(af), found=adds[i][2][1][0])
        # remove_leak undoes everything
        on = {a for (_, a, s_) in attr_stores(af)}
        off = {a for (_, a, s_) in attr_stores(rf)}
        disc = {unparse(c.args[0]) for c in calls(rf) if call_name(c) in ("wn._discard_control", "wn.remove_control") and c.args}
        chk.expect("_leak" in off, "R-C08-5", "%s.remove_leak clears the leak flag" % cname, loc(rf), found=sorted(off))
        chk.expect({"self._leak_start_control_name", "self._leak_end_control_name"} <= disc, "R-C08-5", "%s.remove_leak discards both leak controls" % cname, loc(rf), found=sorted(disc))
        # the switch the simulator reads: ControlAction maps 'leak_status' -> '_leak_status'; removing the controls must also switch it off
        chk.expect("_leak_status" in off, "R-C08-5", "%s.remove_leak switches the run-time leak status off" % cname, loc(rf),
                   "the start control sets _leak_status True; after remove_leak nothing would ever clear it and the constraint builders keep the leak term (leak keeps discharging)",
                   expected="self._leak_status = False", found=sorted(off))
    tcf = repo.func(CTRL, "Control._time_control")
    chk.fn(tcf)
    ext = SymExec()
    for o in ext.run(tcf):
        if o.raised or o.ret is None:
            continue
        if any("'SIM_TIME'" in t and v for t, v in o.conds):
            cc = [e for e in o.events if e[0] == "call" and e[1].startswith("SimTimeCondition(")]
            okc = len(cc) == 1 and cc[0][2][2].get("threshold") == Opaque("run_at_time") and cc[0][2][2].get("repeat") == Opaque("daily_flag") \
                and isinstance(cc[0][2][2].get("relation"), Opaque) and cc[0][2][2]["relation"].text == "Comparison.eq"
            chk.expect(okc, "R-C08-4", "Control._time_control(SIM_TIME) builds SimTimeCondition(eq, run_at_time, repeat=daily_flag)", loc(tcf), found=cc[0][1] if cc else None)
    from ._shared import control_type_table
    table_, default_, ci, init_ok = control_type_table(repo)
    tkey = [k for k in table_ if "SimTimeCondition" in k]
    chk.expect(init_ok and bool(tkey) and table_[tkey[0]] == "_ControlType.presolve", "R-C08-4", "time-conditioned controls are pre-solve (back-tracked to their instant)", loc(ci), found=table_)
    cai, pvals = private_attribute_of(repo, "leak_status")
    chk.fn(cai)
    chk.expect(pvals == {"_leak_status"}, "R-C08-4", "ControlAction maps leak_status to the run-time field _leak_status", loc(cai), found=sorted(map(str, pvals)))
    ls = repo.func(BASE, "Node.leak_status", kind="getter")
    rets = {(o.ret.text if isinstance(o.ret, Opaque) else o.ret) for o in SymExec().run(ls) if not o.raised}
    chk.expect(rets == {"self._leak_status"}, "R-C08-4", "Node.leak_status reads _leak_status", loc(ls), found=sorted(map(str, rets)))
    chk.floor("R-C08-4", 2 * 7 + 4)
    chk.floor("R-C08-5", 6)

    # ---------------------------------------------------------------- R-C08-6 reported leak demand
    # the leak row exists only for `leak_status and not _is_isolated` (R-C08-1); wherever it does not exist the reported leak demand must be
    # the constant 0 -- on EVERY path through store_results_in_network (last store wins), not the stale value of the leak-rate variable
    sfn, rows = leak_demand_cases(repo)
    chk.fn(sfn)
    seen6 = set()
    for kind, kv, nv, conds, got in rows:
        models = prop_models(conds)
        if not models:
            continue                              # contradictory tests: no execution takes this path
        iso = prop_forced(nv + "._is_isolated", models) if kind == "junction" else False
        ls = prop_forced(nv + ".leak_status", models)
        if ls is None:
            ls = prop_forced(nv + "._leak_status", models)      # the field the read-only property returns (R-C08-4)
        if iso is not False:
            case, want = "isolated", 0           # a path an isolated junction may take
        elif ls is True:
            case, want = "connected, leak active", "m.leak_rate[%s].value" % kv
        elif ls is False:
            case, want = "connected, leak inactive", 0
        elif not any("leak_status" in k for k in conds) and "leak_status" not in str(got):
            # nothing on this path looks at the switch: one value for the active and the inactive leak
            chk.bad("R-C08-6", "reported leak demand of a connected %s depends on leak_status" % kind, loc(sfn),
                    "store_results_in_network, path %s stores %s whether or not the leak is active" % (sorted(conds.items()), got), expected="m.leak_rate[%s].value while active, 0 otherwise" % kv, found=got)
            continue
        else:
            raise ExtractError("store_results_in_network: cannot tell whether the leak is active on path %s" % sorted(conds.items()))
        key = (kind, case, str(got))
        if key in seen6:
            continue
        seen6.add(key)
        chk.expect(got == want, "R-C08-6", "reported leak demand of a %s [%s] is %s on every path" % (kind, case, want), loc(sfn),
                   "store_results_in_network, path %s: the last value stored to %s._leak_demand" % (sorted(conds.items()), nv), expected=want, found=got)
    chk.floor("R-C08-6", 5)

    # ---------------------------------------------------------------- R-C08-7 the leak window starts over with every reset
    # "active exactly from start_time until end_time": a run leaves the switch on when the leak is still open at the end; reset_initial_values
    # must switch it off for every node kind that can carry a leak, or a rerun leaks from t = 0
    from .c11 import reset_table
    rsf, rtab = reset_table(repo)
    chk.fn(rsf)
    leak_kinds = [cn for cn in ("Junction", "Tank", "Reservoir") if any(isinstance(n, ast.FunctionDef) and n.name == "add_leak" for n in repo.cls(ELEM, cn).body)]
    for cn in leak_kinds:
        chk.expect(rtab.get(cn, {}).get("_leak_status") == "False", "R-C08-7", "reset_initial_values switches the leak of every %s off" % cn, loc(rsf),
                   "%s.add_leak exists, so a run can end with _leak_status True; without the reset the next run discharges before start_time" % cn,
                   expected="%s._leak_status = False" % cn, found=rtab.get(cn, {}).get("_leak_status"))
    chk.floor("R-C08-7", 2)


WITNESSES = [
    dict(name="tank-leak-survives-reset", file="wntr/network/model.py", old="            node._prev_head = node.head\n            node._demand = None\n            node._leak_demand = None\n            node._leak_status = False\n",
         new="            node._prev_head = node.head\n            node._demand = None\n            node._leak_demand = None\n", rule="R-C08-7"),
    dict(name="isolated-junction-keeps-stale-leak", file="wntr/sim/hydraulics.py", old="            node._pressure = 0\n            node._leak_demand = 0\n", new="            node._pressure = 0\n", rule="R-C08-6"),
    dict(name="drop-2g", file=CON, old="con.add_final_expr(leak_rate - Cd*area*(2.0*9.81*(h-elev))**0.5)", new="con.add_final_expr(leak_rate - Cd*area*(9.81*(h-elev))**0.5)", rule="R-C08-1"),
    dict(name="exponent-one", file=CON, old="(2.0*9.81*(h-elev))**0.5)", new="(2.0*9.81*(h-elev))**1.0)", rule="R-C08-1"),
    dict(name="guard-wrong", file=CON, old="con.add_condition(aml.inequality(h - elev, ub=delta), leak_rate - (a*(h-elev)**3", new="con.add_condition(aml.inequality(h, ub=delta), leak_rate - (a*(h-elev)**3", rule="R-C08-1"),
    dict(name="spline-df2", file=PAR, old="            df2 = 0.5*node.leak_discharge_coeff*node.leak_area*(2.0*9.81)**0.5*x2**(-0.5)", new="            df2 = node.leak_discharge_coeff*node.leak_area*(2.0*9.81)**0.5*x2**(-0.5)", rule="R-C08-1"),
    dict(name="start-end-swapped", file=ELEM, old="            start_control_action = ControlAction(self, 'leak_status', True)\n            control = Control._time_control(wn, start_time, 'SIM_TIME', False, start_control_action)\n            wn.add_control(self._leak_start_control_name, control)\n\n        if end_time is not None:\n            end_control_action = ControlAction(self, 'leak_status', False)\n            control = Control._time_control(wn, end_time, 'SIM_TIME', False, end_control_action)\n            wn.add_control(self._leak_end_control_name, control)\n\n    def remove_leak(self,wn):\n        \"\"\"\n        Remove a leak control",
         new="            start_control_action = ControlAction(self, 'leak_status', True)\n            control = Control._time_control(wn, end_time, 'SIM_TIME', False, start_control_action)\n            wn.add_control(self._leak_start_control_name, control)\n\n        if end_time is not None:\n            end_control_action = ControlAction(self, 'leak_status', False)\n            control = Control._time_control(wn, end_time, 'SIM_TIME', False, end_control_action)\n            wn.add_control(self._leak_end_control_name, control)\n\n    def remove_leak(self,wn):\n        \"\"\"\n        Remove a leak control", rule="R-C08-4"),
    dict(name="leak-updater-missing", file=CON, old="            updater.add(node, 'leak_status', leak_constraint.update)\n", new="", rule="R-C08-3"),
    dict(name="elevation-for-all-nodes-preserving", file=PAR, old="                m.leak_area[node_name] = aml.Param(node.leak_area)", new="                area_ = node.leak_area\n                m.leak_area[node_name] = aml.Param(area_)", silent=True),
    # ---- shapes R-C08-6 / R-C08-4 must see through (behaviour-preserving) and their wrong twins (must fire)
    dict(name="leak-demand-conditional-expression-preserving", file=HYD,
         old="            if node.leak_status:\n                node._leak_demand = m.leak_rate[name].value\n            else:\n                node._leak_demand = 0\n\n    for name, node in wn.tanks():\n        if node.leak_status:\n            node._leak_demand = m.leak_rate[name].value\n        else:\n            node._leak_demand = 0\n",
         new="            node._leak_demand = m.leak_rate[name].value if node.leak_status else 0\n\n    for name, node in wn.tanks():\n        leak_rate = m.leak_rate[name].value if node.leak_status else 0\n        node._leak_demand = leak_rate\n", silent=True),
    dict(name="leak-demand-conditional-expression-swapped", file=HYD,
         old="            if node.leak_status:\n                node._leak_demand = m.leak_rate[name].value\n            else:\n                node._leak_demand = 0\n\n    for name, node in wn.tanks():\n",
         new="            node._leak_demand = 0 if node.leak_status else m.leak_rate[name].value\n\n    for name, node in wn.tanks():\n", rule="R-C08-6"),
    dict(name="leak-demand-one-expression-over-isolation-preserving", file=HYD,
         old="            node._pressure = 0\n            node._leak_demand = 0\n",
         new="            node._pressure = 0\n",
         also=[("            if node.leak_status:\n                node._leak_demand = m.leak_rate[name].value\n            else:\n                node._leak_demand = 0\n\n    for name, node in wn.tanks():\n",
                "        node._leak_demand = 0 if (node._is_isolated or node.leak_status == False) else m.leak_rate[name].value\n\n    for name, node in wn.tanks():\n")], silent=True),
    dict(name="leak-demand-one-expression-ignores-isolation", file=HYD,
         old="            node._pressure = 0\n            node._leak_demand = 0\n",
         new="            node._pressure = 0\n",
         also=[("            if node.leak_status:\n                node._leak_demand = m.leak_rate[name].value\n            else:\n                node._leak_demand = 0\n\n    for name, node in wn.tanks():\n",
                "        node._leak_demand = 0 if node.leak_status == False else m.leak_rate[name].value\n\n    for name, node in wn.tanks():\n")], rule="R-C08-6"),
    dict(name="tank-loop-renamed-variables-early-continue-preserving", file=HYD,
         old="    for name, node in wn.tanks():\n        if node.leak_status:\n            node._leak_demand = m.leak_rate[name].value\n        else:\n            node._leak_demand = 0\n        node._demand = (sum(wn.get_link(link_name).flow for link_name in wn.get_links_for_node(name, 'INLET')) -\n                       sum(wn.get_link(link_name).flow for link_name in wn.get_links_for_node(name, 'OUTLET')) -\n                       node._leak_demand)\n",
         new="    for tank_name, tank in wn.tanks():\n        tank._leak_demand = 0\n        if not tank.leak_status == False:\n            tank._leak_demand = m.leak_rate[tank_name].value\n        tank._demand = (sum(wn.get_link(link_name).flow for link_name in wn.get_links_for_node(tank_name, 'INLET')) -\n                       sum(wn.get_link(link_name).flow for link_name in wn.get_links_for_node(tank_name, 'OUTLET')) -\n                       tank._leak_demand)\n", silent=True),
    dict(name="tank-loop-renamed-variables-wrong-key", file=HYD,
         old="    for name, node in wn.tanks():\n        if node.leak_status:\n            node._leak_demand = m.leak_rate[name].value\n",
         new="    for tank_name, node in wn.tanks():\n        if node.leak_status:\n            node._leak_demand = m.leak_rate[name].value\n", rule="R-C08-6"),
    dict(name="private-attribute-lookup-table-preserving", file=CTRL,
         old="        self._private_attribute = attribute\n        if attribute == 'status':\n            self._private_attribute = '_user_status'\n        elif attribute == 'leak_status':\n            self._private_attribute = '_leak_status'\n        elif attribute == 'setting':\n            self._private_attribute = '_setting'\n",
         new="        self._private_attribute = self._PRIVATE_TWINS.get(attribute, attribute)\n",
         also=[("    def __init__(self, target_obj, attribute, value):\n        super(ControlAction, self).__init__()\n",
                "    _PRIVATE_TWINS = {'status': '_user_status', 'leak_status': '_leak_status', 'setting': '_setting'}\n\n    def __init__(self, target_obj, attribute, value):\n        super(ControlAction, self).__init__()\n")], silent=True),
    dict(name="private-attribute-lookup-table-wrong-twin", file=CTRL,
         old="        self._private_attribute = attribute\n        if attribute == 'status':\n            self._private_attribute = '_user_status'\n        elif attribute == 'leak_status':\n            self._private_attribute = '_leak_status'\n        elif attribute == 'setting':\n            self._private_attribute = '_setting'\n",
         new="        self._private_attribute = self._PRIVATE_TWINS.get(attribute, attribute)\n",
         also=[("    def __init__(self, target_obj, attribute, value):\n        super(ControlAction, self).__init__()\n",
                "    _PRIVATE_TWINS = {'status': '_user_status', 'leak_status': '_leak', 'setting': '_setting'}\n\n    def __init__(self, target_obj, attribute, value):\n        super(ControlAction, self).__init__()\n")], rule="R-C08-4"),
    dict(name="private-attribute-early-return-chain-preserving", file=CTRL,
         old="        self._private_attribute = attribute\n        if attribute == 'status':\n            self._private_attribute = '_user_status'\n        elif attribute == 'leak_status':\n            self._private_attribute = '_leak_status'\n        elif attribute == 'setting':\n            self._private_attribute = '_setting'\n",
         new="        if attribute == 'status':\n            self._private_attribute = '_user_status'\n            return\n        if attribute == 'setting':\n            self._private_attribute = '_setting'\n            return\n        self._private_attribute = '_leak_status' if attribute == 'leak_status' else attribute\n", silent=True),
    dict(name="private-attribute-leak-status-unmapped", file=CTRL,
         old="        elif attribute == 'leak_status':\n            self._private_attribute = '_leak_status'\n", new="", rule="R-C08-4"),
    dict(name="leak-status-getter-reads-static-flag", file=BASE, old="        return self._leak_status\n", new="        return self._leak\n", rule="R-C08-4"),
]
