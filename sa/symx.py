"""E2 -- formula extraction: AST -> sympy terms by syntax-directed abstract interpretation.

The interpreter walks ONE function body (plus explicitly inlined helpers), keeps
every non-constant leaf as a named symbol (its canonical source text with local
names substituted), splits on branch tests it cannot decide (recording the test
as a path label; no feasibility reasoning, no solver), summarises accumulation
loops as SUM{term : var in iter} symbols, and records stores / calls as events.
sympy is used only for normal forms (expand/simplify/diff/assumptions).
Nothing from the repository is imported or executed.
"""
import ast
import copy
import itertools

import sympy as sp

from .src import ExtractError, unparse, dotted, walk


class Opaque(object):
    """an uninterpreted value, identified by canonical text."""
    __slots__ = ("text", "base", "key")

    def __init__(self, text, base=None, key=None):
        self.text = text
        self.base = base
        self.key = key

    def __repr__(self):
        return "<%s>" % self.text

    def __eq__(self, o):
        return isinstance(o, Opaque) and o.text == self.text

    def __hash__(self):
        return hash(self.text)


class Ineq(object):
    def __init__(self, body, lb=None, ub=None):
        self.body, self.lb, self.ub = body, lb, ub

    def __repr__(self):
        return "Ineq(%s <= %s <= %s)" % (self.lb, self.body, self.ub)


class CondExpr(object):
    def __init__(self):
        self.branches = []
        self.final = None

    def __repr__(self):
        return "CondExpr(%r, final=%r)" % (self.branches, self.final)


class Constraint(object):
    def __init__(self, expr):
        self.expr = expr

    def __repr__(self):
        return "Constraint(%r)" % (self.expr,)


class State(object):
    def __init__(self, env=None):
        self.env = env or {}
        self.conds = []      # [(text, bool)]
        self.events = []     # [(kind, text, value, lineno)]
        self.ret = None
        self.done = False    # returned / raised
        self.raised = None
        self.loops = []      # stack of (target_text, iter_text)

    def fork(self):
        s = State(copy.deepcopy(self.env))
        s.conds = list(self.conds)
        s.events = list(self.events)
        s.loops = list(self.loops)
        return s

    def cond(self, text):
        for t, v in self.conds:
            if t == text:
                return v
        return None

    def label(self):
        return " & ".join(("" if v else "not ") + "(" + t + ")" for t, v in self.conds)

    def stores(self, prefix=None):
        return [e for e in self.events if e[0] == "store" and (prefix is None or e[1].startswith(prefix))]

    def calls(self, prefix=None):
        return [e for e in self.events if e[0] == "call" and (prefix is None or e[1].startswith(prefix))]


_SYMS = {}


def default_assume(text):
    return {"real": True}


def rat(v):
    """python number -> exact sympy number (decimal floats become exact rationals)."""
    if isinstance(v, bool):
        return sp.true if v else sp.false
    if isinstance(v, int):
        return sp.Integer(v)
    if isinstance(v, float):
        if v != v or v in (float("inf"), float("-inf")):
            return sp.Float(v)
        return sp.Rational(repr(v))
    return sp.sympify(v)


class SymExec(object):
    MAX_PATHS = 4000
    unroll_opaque = False     # set True on an instance to unroll `for x in <python list/tuple value>` also when its elements are Opaque

    def __init__(self, assume=None, inline=None, call_hook=None, test_hook=None, attr_hook=None, name_hook=None):
        self.assume = assume or default_assume
        self.inline = inline or {}        # callee text -> ast.FunctionDef
        self.call_hook = call_hook        # f(name, node, args, kwargs, state, ex) -> value | NotImplemented
        self.test_hook = test_hook        # f(test_text, node, state) -> True | False | None
        self.attr_hook = attr_hook        # f(base_value, attr, state) -> value | NotImplemented
        self.name_hook = name_hook
        self.syms = {}
        self.canonical_negations = True

    # ---------------------------------------------------------------- symbols
    def sym(self, text):
        if text not in self.syms:
            self.syms[text] = sp.Symbol(text, **self.assume(text))
        return self.syms[text]

    def S(self, v, node=None):
        """coerce a value into a sympy expression."""
        if isinstance(v, sp.Basic):
            return v
        if isinstance(v, (int, float)) and not isinstance(v, bool):
            return rat(v)
        if isinstance(v, Opaque):
            return self.sym(v.text)
        if isinstance(v, bool):
            return sp.true if v else sp.false
        raise ExtractError("cannot use %r in arithmetic%s" % (v, " at line %s" % node.lineno if node is not None and hasattr(node, "lineno") else ""))

    def text(self, v):
        if isinstance(v, Opaque):
            return v.text
        if isinstance(v, str):
            return repr(v)
        if isinstance(v, (list, tuple)):
            return "(" + ", ".join(self.text(x) for x in v) + ")"
        return str(v)

    # ------------------------------------------------------------ expressions
    def ev(self, n, st):
        m = getattr(self, "e_" + type(n).__name__, None)
        if m is None:
            raise ExtractError("unsupported expression %s: %s" % (type(n).__name__, unparse(n)))
        return m(n, st)

    def e_Constant(self, n, st):
        return n.value

    def e_Name(self, n, st):
        if n.id in st.env:
            return st.env[n.id]
        if self.name_hook:
            r = self.name_hook(n.id, st)
            if r is not NotImplemented:
                return r
        return Opaque(n.id)

    def e_Attribute(self, n, st):
        d = dotted(n)
        if d in ("math.pi", "np.pi", "numpy.pi"):
            return sp.pi
        if d in ("np.inf", "math.inf"):
            return sp.oo
        base = self.ev(n.value, st)
        if self.attr_hook:
            r = self.attr_hook(base, n.attr, st)
            if r is not NotImplemented:
                return r
        if isinstance(base, Opaque):
            return Opaque(base.text + "." + n.attr)
        if isinstance(base, dict) and n.attr in base:
            return base[n.attr]
        raise ExtractError("attribute %s of %r" % (n.attr, base))

    def e_Subscript(self, n, st):
        base = self.ev(n.value, st)
        key = self.ev(n.slice, st)
        if isinstance(base, (list, tuple)) and isinstance(key, int):
            return base[key]
        if isinstance(base, dict):
            k = key if isinstance(key, (str, int)) else self.text(key)
            if k in base:
                return base[k]
            if "__default__" in base:
                return base["__default__"]
            raise ExtractError("key %r not in abstract dict" % (k,))
        if isinstance(base, Opaque):
            return Opaque("%s[%s]" % (base.text, self.text(key)), base, key)
        if isinstance(base, sp.Basic):
            return Opaque("(%s)[%s]" % (base, self.text(key)))
        raise ExtractError("subscript of %r" % (base,))

    def e_Slice(self, n, st):
        parts = [self.text(self.ev(x, st)) if x is not None else "" for x in (n.lower, n.upper, n.step)]
        return Opaque(":".join(parts[:2]) + ((":" + parts[2]) if parts[2] else ""))

    def e_Tuple(self, n, st):
        return tuple(self.ev(e, st) for e in n.elts)

    def e_List(self, n, st):
        return [self.ev(e, st) for e in n.elts]

    def e_Set(self, n, st):
        return [self.ev(e, st) for e in n.elts]

    def e_Dict(self, n, st):
        out = {}
        for k, v in zip(n.keys, n.values):
            kk = self.ev(k, st) if k is not None else None
            out[kk if isinstance(kk, (str, int)) else self.text(kk)] = self.ev(v, st)
        return out

    def e_JoinedStr(self, n, st):
        return Opaque("f" + repr(unparse(n)))

    def e_UnaryOp(self, n, st):
        v = self.ev(n.operand, st)
        if isinstance(n.op, ast.Not):
            if isinstance(v, bool):
                return not v
            if v is None:
                return True
            return Opaque("not " + self.text(v))
        if isinstance(n.op, ast.USub):
            if isinstance(v, (int, float)) and not isinstance(v, bool):
                return -v
            return -self.S(v, n)
        if isinstance(n.op, ast.UAdd):
            return v
        raise ExtractError("unary op %s" % unparse(n))

    def e_BinOp(self, n, st):
        a, b = self.ev(n.left, st), self.ev(n.right, st)
        return self.binop(n.op, a, b, n)

    def binop(self, op, a, b, n=None):
        if isinstance(a, str) or isinstance(b, str):
            if isinstance(op, ast.Add) and isinstance(a, str) and isinstance(b, str):
                return a + b
            return Opaque("(%s %s %s)" % (self.text(a), type(op).__name__, self.text(b)))
        if isinstance(a, (list, tuple)) and isinstance(b, (list, tuple)) and isinstance(op, ast.Add):
            return list(a) + list(b)
        if isinstance(a, (list, tuple)) or isinstance(b, (list, tuple)):
            return Opaque("(%s %s %s)" % (self.text(a), type(op).__name__, self.text(b)))
        pynum = lambda v: isinstance(v, (int, float)) and not isinstance(v, bool)
        if pynum(a) and pynum(b) and isinstance(a, int) and isinstance(b, int) and not isinstance(op, ast.Div):
            pass
        if isinstance(op, (ast.BitOr, ast.BitAnd, ast.BitXor, ast.LShift, ast.RShift, ast.MatMult)):
            # element-wise mask algebra / matrix product: kept as an uninterpreted term
            return Opaque("(%s %s %s)" % (self.text(a), {"BitOr": "|", "BitAnd": "&", "BitXor": "^", "LShift": "<<", "RShift": ">>", "MatMult": "@"}[type(op).__name__], self.text(b)))
        x, y = self.S(a, n), self.S(b, n)
        if isinstance(op, ast.Add):
            return x + y
        if isinstance(op, ast.Sub):
            return x - y
        if isinstance(op, ast.Mult):
            return x * y
        if isinstance(op, ast.Div):
            return x / y
        if isinstance(op, ast.Pow):
            return x ** y
        if isinstance(op, ast.Mod):
            return sp.Mod(x, y)
        if isinstance(op, ast.FloorDiv):
            return sp.floor(x / y)
        raise ExtractError("binary op %s" % type(op).__name__)

    def e_IfExp(self, n, st):
        t = self.decide(n.test, st)
        if t is None:
            # like an `if` statement: a test the path already decided, or that the test hook decides, selects the arm
            ctxt, neg = self.cond_text(n.test, st)
            known = st.cond(ctxt)
            if known is None and self.test_hook:
                known = self.test_hook(ctxt, self.canon_test(n.test)[0], st)
            if known is not None:
                t = known != neg
        if t is True:
            return self.ev(n.body, st)
        if t is False:
            return self.ev(n.orelse, st)
        # undecided conditional expression: Piecewise on an uninterpreted boolean atom
        a, b = self.ev(n.body, st), self.ev(n.orelse, st)
        txt = self.text(self.ev(n.test, st))
        try:
            return sp.Piecewise((self.S(a), sp.Eq(self.sym("[" + txt + "]"), 1)), (self.S(b), True))
        except ExtractError:
            return Opaque("(%s if %s else %s)" % (self.text(a), txt, self.text(b)))

    def e_Compare(self, n, st):
        left = self.ev(n.left, st)
        out = []
        for op, rn in zip(n.ops, n.comparators):
            right = self.ev(rn, st)
            out.append(self.compare(op, left, right))
            left = right
        if len(out) == 1:
            return out[0]
        if all(isinstance(o, bool) for o in out):
            return all(out)
        return Opaque(" and ".join(self.text(o) for o in out))

    def compare(self, op, a, b):
        opn = type(op).__name__
        const = lambda v: v is None or isinstance(v, (bool, int, float, str))
        if const(a) and const(b):
            try:
                return {"Eq": a == b, "NotEq": a != b, "Is": a is b or a == b, "IsNot": not (a is b or a == b),
                        "Lt": a < b, "LtE": a <= b, "Gt": a > b, "GtE": a >= b}[opn]
            except (KeyError, TypeError):
                pass
        if opn in ("Is", "IsNot") and a is None and b is None:
            return opn == "Is"           # (the table above raises TypeError on None < None before it gets here)
        if opn in ("Is", "IsNot") and (a is None or b is None):
            other = b if a is None else a
            if isinstance(other, (sp.Basic, CondExpr, Constraint, Ineq, tuple, list, dict)):
                return opn == "IsNot"
        if opn in ("In", "NotIn") and isinstance(b, (list, tuple)) and const(a) and all(const(x) for x in b):
            return (a in b) == (opn == "In")
        if opn in ("In", "NotIn") and isinstance(b, dict) and isinstance(a, (str, int)) and not isinstance(a, bool) and "__default__" not in b:
            return (a in b) == (opn == "In")          # membership of a constant in an abstract dict (keys are kept as str / int)
        if opn in ("Lt", "LtE", "Gt", "GtE") and (isinstance(a, (sp.Basic, int, float)) or isinstance(b, (sp.Basic, int, float))) \
                and not isinstance(a, (str, bool)) and not isinstance(b, (str, bool)):
            try:
                x, y = self.S(a), self.S(b)
                rel = {"Lt": sp.Lt, "LtE": sp.Le, "Gt": sp.Gt, "GtE": sp.Ge}[opn](x, y)
                if rel is sp.true:
                    return True
                if rel is sp.false:
                    return False
                return Opaque(str(rel))
            except ExtractError:
                pass
        sym = {"Eq": "==", "NotEq": "!=", "Is": "is", "IsNot": "is not", "Lt": "<", "LtE": "<=", "Gt": ">", "GtE": ">=", "In": "in", "NotIn": "not in"}[opn]
        return Opaque("%s %s %s" % (self.text(a), sym, self.text(b)))

    def e_BoolOp(self, n, st):
        vals = [self.ev(v, st) for v in n.values]
        isand = isinstance(n.op, ast.And)
        if all(isinstance(v, bool) or v is None for v in vals):
            return all(vals) if isand else any(vals)
        if isand and any(v is False for v in vals):
            return False
        if (not isand) and any(v is True for v in vals):
            return True
        vals = [v for v in vals if not isinstance(v, bool)]
        if len(vals) == 1:
            return vals[0]
        return Opaque((" and " if isand else " or ").join(self.text(v) for v in vals))

    def e_Lambda(self, n, st):
        return Opaque(unparse(n))

    def e_ListComp(self, n, st):
        # a list comprehension over a value that IS a python list / tuple here (a literal, the result of a hook) with decidable filters: evaluated element by
        # element, like the unrolled for-loop it abbreviates; everything else stays opaque
        if isinstance(n, ast.ListComp) and len(n.generators) == 1 and not n.generators[0].is_async:
            g = n.generators[0]
            try:
                it = self.ev(g.iter, st)
            except ExtractError:
                it = None
            if isinstance(it, (list, tuple)) and len(it) <= 16 and (self.unroll_opaque or not any(isinstance(x, Opaque) for x in it)):
                out = []
                saved = dict(st.env)
                try:
                    for x in it:
                        self.assign(g.target, x, st)
                        keep = True
                        for c in g.ifs:
                            v = self.ev(c, st)
                            if not isinstance(v, bool):
                                return Opaque(unparse(n))
                            keep = keep and v
                        if keep:
                            out.append(self.ev(n.elt, st))
                finally:
                    names = {x.id for x in ast.walk(g.target) if isinstance(x, ast.Name)}      # the comprehension variable is private to it
                    for nm in names:
                        if nm in saved:
                            st.env[nm] = saved[nm]
                        else:
                            st.env.pop(nm, None)
                return out
        return Opaque(unparse(n))

    e_GeneratorExp = e_ListComp
    e_DictComp = e_ListComp
    e_SetComp = e_ListComp

    def e_Yield(self, n, st):
        # a generator body analysed on its own (its consumer sees it fused by E0): the yielded value is an event of the path, execution goes on
        v = self.ev(n.value, st) if n.value is not None else None
        st.events.append(("yield", self.text(v) if v is not None else "None", v, getattr(n, "lineno", 0), tuple(l[1] for l in st.loops)))
        return None

    def e_Starred(self, n, st):
        return Opaque("*" + self.text(self.ev(n.value, st)))

    # ------------------------------------------------------------------ calls
    def e_Call(self, n, st):
        name = dotted(n.func)
        recv = None
        if name == "sum" and len(n.args) == 1 and isinstance(n.args[0], (ast.GeneratorExp, ast.ListComp)) and len(n.args[0].generators) == 1:
            g = n.args[0].generators[0]
            it = self.ev(g.iter, st)
            sub = st.fork()
            self.bind_loop_target(g.target, sub)
            elt = self.ev(n.args[0].elt, sub)
            conds = [self.text(self.ev(c, sub)) for c in g.ifs]
            return self.sym("SUM{%s : %s in %s%s}" % (self.text(elt), unparse(g.target), self.text(it), (" if " + " and ".join(conds)) if conds else ""))
        if name is None and isinstance(n.func, ast.Attribute):
            recv = self.ev(n.func.value, st)
            name = "?." + n.func.attr
        elif isinstance(n.func, ast.Attribute):
            head = name.split(".")[0]
            if head in st.env:
                recv = self.ev(n.func.value, st)
        args = [self.ev(a, st) for a in n.args]
        kwargs = {k.arg: self.ev(k.value, st) for k in n.keywords if k.arg}
        meth = n.func.attr if isinstance(n.func, ast.Attribute) else None
        if self.call_hook:
            r = self.call_hook(name, n, args, kwargs, st, self, recv)
            if r is not NotImplemented:
                return r
        # receiver-based builtins
        if isinstance(recv, CondExpr):
            if meth == "add_condition":
                recv.branches.append((args[0] if args else kwargs.get("condition"), args[1] if len(args) > 1 else kwargs.get("expr")))
                return None
            if meth == "add_final_expr":
                recv.final = args[0] if args else kwargs.get("expr")
                return None
        if isinstance(recv, list) and meth == "append":
            recv.append(args[0])
            return None
        if isinstance(recv, list) and meth == "insert" and isinstance(args[0], int):
            recv.insert(args[0], args[1])
            return None
        if isinstance(recv, list) and meth == "extend" and isinstance(args[0], (list, tuple)):
            recv.extend(args[0])
            return None
        if isinstance(recv, dict) and meth == "get" and args:
            k = args[0] if isinstance(args[0], (str, int)) else self.text(args[0])      # same key normal form as e_Dict / e_Subscript
            return recv.get(k, args[1] if len(args) > 1 else None)
        if isinstance(recv, dict) and meth == "setdefault" and args:
            k = args[0] if isinstance(args[0], (str, int)) else self.text(args[0])
            return recv.setdefault(k, args[1] if len(args) > 1 else None)
        if isinstance(recv, dict) and meth == "pop" and args:
            k = args[0] if isinstance(args[0], (str, int)) else self.text(args[0])
            if k in recv or len(args) > 1:
                return recv.pop(k, args[1] if len(args) > 1 else None)
        if isinstance(recv, dict) and meth == "update" and len(args) == 1 and isinstance(args[0], dict) and not kwargs:
            recv.update(args[0])
            return None
        last = name.split(".")[-1] if name else None
        mod = name.split(".")[0] if name and "." in name else None
        num = lambda v: isinstance(v, (sp.Basic, int, float, Opaque)) and not isinstance(v, bool)
        if mod in ("aml", "np", "numpy", "math", "sp", None) or name in ("abs", "float", "int", "min", "max", "pow", "round"):
            if last in ("abs", "fabs") and len(args) == 1 and num(args[0]):
                return sp.Abs(self.S(args[0]))
            if last == "sign" and len(args) == 1 and num(args[0]):
                return sp.sign(self.S(args[0]))
            if last == "sqrt" and len(args) == 1 and num(args[0]):
                return sp.sqrt(self.S(args[0]))
            if last in ("power", "pow") and len(args) == 2:
                return self.S(args[0]) ** self.S(args[1])
            if last in ("exp", "log", "sin", "cos", "tan", "asin", "acos", "atan") and len(args) == 1 and mod in ("aml", "np", "math", "numpy"):
                return getattr(sp, last)(self.S(args[0]))
            if last == "floor" and len(args) == 1:
                return sp.floor(self.S(args[0]))
            if last == "ceil" and len(args) == 1:
                return sp.ceiling(self.S(args[0]))
            if name == "float" and len(args) == 1:
                if isinstance(args[0], (int, float)) and not isinstance(args[0], bool):
                    return float(args[0])
                if isinstance(args[0], str):
                    try:
                        return float(args[0])
                    except ValueError:
                        pass
                return args[0]
            if name == "int" and len(args) == 1:
                if isinstance(args[0], (int, float)) and not isinstance(args[0], bool):
                    return int(args[0])
                return sp.Function("int")(self.S(args[0])) if num(args[0]) else Opaque("int(%s)" % self.text(args[0]))
            if name == "round" and args and num(args[0]):
                return sp.Function("round")(self.S(args[0]))
            if name in ("min", "max") and len(args) >= 2 and all(num(a) for a in args):
                return (sp.Min if name == "min" else sp.Max)(*[self.S(a) for a in args])
            if name == "aml.inequality":
                body = kwargs.get("body", args[0] if args else None)
                return Ineq(self.S(body), kwargs.get("lb", args[1] if len(args) > 1 else None), kwargs.get("ub", args[2] if len(args) > 2 else None))
            if name == "aml.ConditionalExpression":
                return CondExpr()
            if name == "aml.Constraint":
                return Constraint(kwargs.get("expr", args[0] if args else None))
        if name == "zip" and args and all(isinstance(a, (list, tuple)) for a in args):
            return [tuple(x) for x in zip(*args)]
        if name == "enumerate" and len(args) == 1 and isinstance(args[0], (list, tuple)):
            return [(i, x) for i, x in enumerate(args[0])]
        if name == "range" and args and all(isinstance(a, int) and not isinstance(a, bool) for a in args) and len(range(*args)) <= 64:
            return list(range(*args))
        if name == "getattr" and len(args) == 2 and isinstance(args[1], str) and len(n.args) == 2:
            return self.ev(ast.copy_location(ast.Attribute(value=n.args[0], attr=args[1], ctx=ast.Load()), n), st)
        if name == "setattr" and len(args) == 3 and isinstance(args[1], str) and len(n.args) == 3:
            self.assign(ast.copy_location(ast.Attribute(value=n.args[0], attr=args[1], ctx=ast.Store()), n), args[2], st, n)
            return None
        if name in ("len",) and args and isinstance(args[0], (list, tuple)):
            return len(args[0])
        if name in ("list", "tuple") and args and isinstance(args[0], (list, tuple)):
            return list(args[0])
        if name in self.inline:
            return self.call_inline(self.inline[name], args, kwargs, st, n)
        txt = "%s(%s)" % (name if recv is None or dotted(n.func) else self.text(recv) + "." + meth,
                          ", ".join([self.text(a) for a in args] + ["%s=%s" % (k, self.text(v)) for k, v in kwargs.items()]))
        if dotted(n.func) and recv is not None and isinstance(recv, Opaque):
            txt = "%s.%s(%s)" % (recv.text, meth, txt.split("(", 1)[1][:-1])
        st.events.append(("call", txt, (name, args, kwargs), getattr(n, "lineno", 0), tuple(l[1] for l in st.loops)))
        return Opaque(txt)

    def call_inline(self, fn, args, kwargs, st, node):
        params = [a.arg for a in fn.args.args]
        env = {}
        defaults = fn.args.defaults
        for p, d in zip(params[len(params) - len(defaults):], defaults):
            env[p] = self.ev(d, State())
        for p, a in zip(params, args):
            env[p] = a
        env.update(kwargs)
        sub = State(env)
        sub.conds = list(st.conds)
        outs = self.block(fn.body, [sub])
        rets = []
        for o in outs:
            if o.raised is not None:
                continue
            rets.append(o.ret)
        uniq = []
        for r in rets:
            if not any(self.same(r, u) for u in uniq):
                uniq.append(r)
        if len(uniq) != 1:
            raise ExtractError("inlined %s returns %d distinct values on its paths" % (fn.name, len(uniq)))
        return uniq[0]

    def same(self, a, b):
        if isinstance(a, (tuple, list)) and isinstance(b, (tuple, list)):
            return len(a) == len(b) and all(self.same(x, y) for x, y in zip(a, b))
        if isinstance(a, sp.Basic) and isinstance(b, sp.Basic):
            return sp.simplify(a - b) == 0 if not (a.is_Boolean or b.is_Boolean) else a == b
        return a == b

    # -------------------------------------------------------------- statements
    def decide(self, test, st):
        v = self.ev(test, st)
        if isinstance(v, bool):
            return v
        if v is None:
            return False
        if isinstance(v, (int, float)):
            return bool(v)
        if isinstance(v, str):
            return bool(v)
        if isinstance(v, (list, tuple, dict)):
            return bool(v) if not v else None if any(isinstance(x, Opaque) for x in (v if not isinstance(v, dict) else [])) else bool(v)
        if isinstance(v, (CondExpr, Constraint, Ineq)):
            return True
        return None

    def canon_test(self, test):
        """-> (positive test node, negated?) with `not`, `is not`, `!=`, `not in` peeled off (what cond_text records)"""
        neg = False
        while True:
            if isinstance(test, ast.UnaryOp) and isinstance(test.op, ast.Not):
                neg = not neg
                test = test.operand
                continue
            if self.canonical_negations and isinstance(test, ast.Compare) and len(test.ops) == 1 and isinstance(test.ops[0], (ast.IsNot, ast.NotEq, ast.NotIn)):
                pos = {ast.IsNot: ast.Is, ast.NotEq: ast.Eq, ast.NotIn: ast.In}[type(test.ops[0])]()
                test = ast.copy_location(ast.Compare(left=test.left, ops=[pos], comparators=test.comparators), test)
                neg = not neg
                continue
            return test, neg

    def cond_text(self, test, st):
        neg = False
        while True:
            if isinstance(test, ast.UnaryOp) and isinstance(test.op, ast.Not):
                neg = not neg
                test = test.operand
                continue
            # one canonical atom for a comparison and its negation: `a is not b` is recorded as not (a is b), `!=` as not ==, `not in` as not in
            if self.canonical_negations and isinstance(test, ast.Compare) and len(test.ops) == 1 and isinstance(test.ops[0], (ast.IsNot, ast.NotEq, ast.NotIn)):
                pos = {ast.IsNot: ast.Is, ast.NotEq: ast.Eq, ast.NotIn: ast.In}[type(test.ops[0])]()
                test = ast.copy_location(ast.Compare(left=test.left, ops=[pos], comparators=test.comparators), test)
                neg = not neg
                continue
            break
        v = self.ev(test, st)
        return self.text(v), neg

    def block(self, stmts, states):
        for s in stmts:
            nxt = []
            for st in states:
                if st.done:
                    nxt.append(st)
                else:
                    nxt.extend(self.stmt(s, st))
            states = nxt
            if len(states) > self.MAX_PATHS:
                raise ExtractError("path explosion (%d) at line %s" % (len(states), getattr(s, "lineno", "?")))
        return states

    def stmt(self, s, st):
        if isinstance(s, ast.Expr):
            if not isinstance(s.value, ast.Constant):
                self.ev(s.value, st)
            return [st]
        if isinstance(s, (ast.Pass, ast.Import, ast.ImportFrom, ast.Global, ast.Nonlocal)):
            return [st]
        if isinstance(s, ast.Assign):
            v = self.ev(s.value, st)
            for t in s.targets:
                self.assign(t, v, st, s)
            return [st]
        if isinstance(s, ast.AnnAssign):
            if s.value is not None:
                self.assign(s.target, self.ev(s.value, st), st, s)
            return [st]
        if isinstance(s, ast.AugAssign):
            cur = self.ev(s.target, st)
            term = self.ev(s.value, st)
            if not st.loops and isinstance(cur, list) and isinstance(term, (list, tuple)) and isinstance(s.op, ast.Add):
                cur.extend(term)       # `lst += iterable` extends the list object in place: every alias of it sees the new elements
                return [st]
            if st.loops and isinstance(s.target, ast.Name) and isinstance(s.op, (ast.Add, ast.Sub)):
                tgt, it, declared = st.loops[-1]
                if s.target.id in declared:
                    # accumulation over the loop: summarise as a SUM symbol
                    tt = self.text(term if not isinstance(term, sp.Basic) else term)
                    term = self.sym("SUM{%s : %s in %s}" % (tt, tgt, it))
            self.assign(s.target, self.binop(s.op, cur, term, s), st, s)
            return [st]
        if isinstance(s, ast.If):
            return self.branch(s.test, s.body, s.orelse, st)
        if isinstance(s, ast.For):
            return self.loop(s, st)
        if isinstance(s, ast.While):
            # summarised as zero-or-one iteration: the body's effects are recorded once, the loop test is not interpreted
            st.events.append(("loop", "while", unparse(s.test), s.lineno))
            declared = set(st.env)
            skip = st.fork()
            st.loops.append(("while", unparse(s.test), declared))
            outs = self.block(s.body, [st])
            for o in outs:
                if o.loops:
                    o.loops.pop()
                if o.done == "loopexit":
                    o.done = False
            return outs
        if isinstance(s, ast.Return):
            st.ret = self.ev(s.value, st) if s.value is not None else None
            st.done = True
            return [st]
        if isinstance(s, ast.Raise):
            st.raised = unparse(s)
            st.done = True
            st.events.append(("raise", unparse(s), None, s.lineno))
            return [st]
        if isinstance(s, ast.Assert):
            t = self.decide(s.test, st)
            if t is None:
                txt, neg = self.cond_text(s.test, st)
                st.conds.append((txt, not neg))
                st.events.append(("assert", txt, not neg, s.lineno))
            return [st]
        if isinstance(s, ast.Delete):
            for t in s.targets:
                st.events.append(("delete", self.text(self.ev(t, st)) if not isinstance(t, ast.Name) else t.id, None, s.lineno))
            return [st]
        if isinstance(s, ast.Try):
            outs = self.block(s.body, [st])
            if s.finalbody:
                outs2 = []
                for o in outs:
                    d = o.done
                    o.done = False
                    r = self.block(s.finalbody, [o])
                    for x in r:
                        x.done = x.done or d
                    outs2.extend(r)
                outs = outs2
            return outs
        if isinstance(s, ast.With):
            return self.block(s.body, [st])
        if isinstance(s, (ast.FunctionDef, ast.ClassDef)):
            return [st]
        if isinstance(s, (ast.Break, ast.Continue)):
            st.events.append((type(s).__name__.lower(), "", None, s.lineno))
            st.done = "loopexit"
            return [st]
        raise ExtractError("unsupported statement %s at line %s" % (type(s).__name__, getattr(s, "lineno", "?")))

    def branch(self, test, body, orelse, st):
        t = self.decide(test, st)
        if t is None:
            txt, neg = self.cond_text(test, st)
            known = st.cond(txt)
            if known is None and self.test_hook:
                known = self.test_hook(txt, self.canon_test(test)[0], st)
            if known is not None:
                t = known != neg
        if t is True:
            return self.block(body, [st])
        if t is False:
            return self.block(orelse, [st])
        a, b = st, st.fork()
        a.conds.append((txt, not neg))
        b.conds.append((txt, neg))
        return self.block(body, [a]) + self.block(orelse, [b])

    def loop(self, s, st):
        it = self.ev(s.iter, st)
        tgt_text = unparse(s.target)
        declared = set(st.env)
        # literal iteration over a python list of constants: unroll
        paired = isinstance(s.iter, ast.Call) and dotted(s.iter.func) in ("zip", "enumerate")     # a literal pairing: always unrolled
        if isinstance(it, (list, tuple)) and len(it) <= 16 and (self.unroll_opaque or paired or not any(isinstance(x, Opaque) for x in it)):
            states = [st]
            for x in it:
                nxt = []
                for s0 in states:
                    if s0.done is True:
                        nxt.append(s0)
                        continue
                    s0.done = False
                    self.assign(s.target, x, s0, s)
                    nxt.extend(self.block(s.body, [s0]))
                states = nxt
            for s0 in states:
                if s0.done == "loopexit":
                    s0.done = False
            return states
        self.bind_loop_target(s.target, st)
        st.events.append(("loop", tgt_text, self.text(it), s.lineno))
        st.loops.append((tgt_text, self.text(it), declared))
        outs = self.block(s.body, [st])
        for o in outs:
            if o.loops:
                o.loops.pop()
            if o.done == "loopexit":
                o.done = False
        return outs

    def bind_loop_target(self, t, st):
        if isinstance(t, ast.Name):
            st.env[t.id] = Opaque(t.id)
        elif isinstance(t, (ast.Tuple, ast.List)):
            for e in t.elts:
                self.bind_loop_target(e, st)

    def assign(self, t, v, st, stmt=None):
        if isinstance(t, ast.Name):
            st.env[t.id] = v
            return
        if isinstance(t, (ast.Tuple, ast.List)):
            if isinstance(v, (tuple, list)) and len(v) == len(t.elts):
                for e, x in zip(t.elts, v):
                    self.assign(e, x, st, stmt)
                return
            if isinstance(v, Opaque):
                for i, e in enumerate(t.elts):
                    self.assign(e, Opaque("%s[%d]" % (v.text, i)), st, stmt)
                return
            raise ExtractError("cannot unpack %r" % (v,))
        if isinstance(t, (ast.Attribute, ast.Subscript)):
            if isinstance(t, ast.Subscript):
                base = self.ev(t.value, st)
                if isinstance(base, dict):
                    k = self.ev(t.slice, st)
                    base[k if isinstance(k, (str, int)) else self.text(k)] = v
                    return
                if isinstance(base, list) and isinstance(self.ev(t.slice, st), int):
                    base[self.ev(t.slice, st)] = v
                    return
            txt = self.text(self.ev(t, st))
            st.events.append(("store", txt, v, getattr(stmt, "lineno", 0), tuple(l[1] for l in st.loops)))
            return
        raise ExtractError("unsupported assignment target %s" % unparse(t))

    # ------------------------------------------------------------------ entry
    def run(self, fn, env=None, skip_params=("cls", "self")):
        e = {}
        for a in fn.args.args + fn.args.kwonlyargs:
            if a.arg not in (env or {}):
                e[a.arg] = Opaque(a.arg)
        e.update(env or {})
        st = State(e)
        return self.block(fn.body, [st])


# ------------------------------------------------------------------ normal forms
def is_zero(e, probes=6):
    """True iff e is identically zero (exact normal form, falling back to exact rational probing)."""
    e = sp.sympify(e)
    if e == 0:
        return True
    try:
        d = sp.simplify(sp.expand(e))
        if d == 0:
            return True
        d2 = sp.simplify(sp.powsimp(sp.expand_power_base(d, force=True), force=True))
        if d2 == 0:
            return True
    except Exception:
        d = e
    # exact probing at rational points: a non-zero value refutes; all-zero is accepted as evidence only with many probes
    syms = sorted(d.free_symbols, key=str)
    if not syms:
        return bool(sp.N(d, 30) == 0) or abs(sp.N(d, 30)) < sp.Float("1e-25")
    import random
    rnd = random.Random(12345)
    zero = 0
    for i in range(probes):
        sub = {s: sp.Rational(rnd.randint(2, 97), rnd.randint(3, 89)) for s in syms}
        try:
            val = sp.N(d.subs(sub), 40)
        except Exception:
            return False
        if val.has(sp.nan, sp.zoo) or not val.is_number:
            continue
        if abs(val) > sp.Float("1e-25") * (1 + abs(sp.N(e.subs(sub), 40) if False else 0)):
            return False
        zero += 1
    return zero >= max(3, probes - 2)


def equal(a, b):
    return is_zero(sp.sympify(a) - sp.sympify(b))
